#!/bin/sh
# usage: mut.sh <mutation.patch> [seed] -- /repo HEAD + fixes/C10-1[2-6]* + mutation, ./check C10 in a private copy of /verif
PATCH=$(realpath "$1"); N=$$
WT=/tmp/c10-mwt-$N; VF=/tmp/c10-mvf-$N
git -C /repo worktree add -q --detach $WT HEAD || exit 2
for p in /verif/fixes/C10-1[2-6]-*.patch; do (cd $WT && git apply $p) || echo "FIX PATCH FAILED $p"; done
(cd $WT && git apply "$PATCH") || { echo "mutation does not apply"; git -C /repo worktree remove --force $WT; exit 2; }
mkdir -p $VF; rsync -a --exclude .git --exclude evidence/replays --exclude .scratch /verif/ $VF/; rm -rf $VF/evidence/replays
(cd $VF && VERIF_SEED=${2:-0} SPYNE_REPO=$WT ./check C10 --tier quick 2>&1 | grep -E "PROOF BROKEN|VIOLATION|done:|INFRA|T2 funnel" | cut -c1-300)
echo "--- findings:"
for f in $VF/evidence/replays/*.json; do [ -f "$f" ] && python3 -c "
import json,sys
o=json.load(open('$f'))
print(' *', o.get('finding_id') or o.get('broken_theorems'), '|', (o.get('what') or '')[:260])
print('    replay:', {k: str(v)[:70] for k, v in o.items() if k in ('kind','kid','pos','lit','proto','validator','transport','key','charset','mutation','switch','op')})
"; done
if [ -n "$MUT_REPLAY" ]; then f=$(ls $VF/evidence/replays/*.json | head -1); (cd $VF && SPYNE_REPO=$WT ./check C10 --replay $f 2>&1 | tail -8 | cut -c1-300); fi
git -C /repo worktree remove --force $WT; rm -rf $VF
