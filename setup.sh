#!/bin/sh
# MANIFEST.setup_cmd: build the Lean modules of every claimed check from files on disk
# (offline, no `require`). Targets are derived from MANIFEST.json: Props.Cxx, Props.Cxx_*, Driver.Cxx.
set -e
cd "$(dirname "$0")"
TARGETS=$(python3 - <<'PY'
import glob, json, os
m = json.load(open('MANIFEST.json'))
t = []
for c in m['checks']:
    p = c['property_id']
    for f in sorted(glob.glob('lean/Props/%s.lean' % p) + glob.glob('lean/Props/%s_*.lean' % p)):
        t.append('Props.' + os.path.basename(f)[:-5])
    for f in sorted(glob.glob('lean/Driver/%s.lean' % p) + glob.glob('lean/Driver/%s[a-z]*.lean' % p)):
        t.append('Driver.' + os.path.basename(f)[:-5])
print(' '.join(t))
PY
)
cd lean
echo "lake build $TARGETS"
lake build $TARGETS 2>&1 | tail -5
