#!/bin/sh
# MANIFEST.setup_cmd: build the whole Lean library from files on disk (offline, no `require`).
set -e
cd "$(dirname "$0")/lean"
lake build SpyneModel Proofs Props Driver 2>&1 | tail -5
