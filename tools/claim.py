#!/usr/bin/env python3
"""tools/claim.py Cxx "<level text>" "<level note>"  — move a property into MANIFEST checks[]"""
import json, os, subprocess, sys
here = os.path.dirname(os.path.abspath(__file__))
p = os.path.join(here, 'manifest_src.json')
src = json.load(open(p))
pid, text, note = sys.argv[1], sys.argv[2], sys.argv[3]
src['checks'] = [c for c in src['checks'] if c['id'] != pid] + [{'id': pid, 'text': text, 'note': note}]
src['checks'].sort(key=lambda c: c['id'])
src['not_applicable'] = [n for n in src['not_applicable'] if n['property_id'] != pid]
json.dump(src, open(p, 'w'), indent=1)
subprocess.check_call([sys.executable, os.path.join(here, 'gen_manifest.py')])
