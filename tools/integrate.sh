#!/bin/sh
# tools/integrate.sh <fixes/Cxx-nn-slug> ...  -- apply staged fix patches (patch + .msg) as separate commits in a
# scratch worktree /tmp/wt-int (created from /repo HEAD if absent); afterwards run the baseline there.
# Fast-forwarding /repo is a separate, explicit step:  git -C /repo merge --ff-only $(git -C /tmp/wt-int rev-parse HEAD)
set -eu
[ -d /tmp/wt-int ] || git -C /repo worktree add -q --detach /tmp/wt-int HEAD
for f in "$@"; do
  f=${f%.patch}; f=${f%.msg}
  ( cd /tmp/wt-int && git apply --3way "/verif/$f.patch" && git add -A && git commit -q -F "/verif/$f.msg" && git log --oneline | head -1 )
done
python3 /verif/tools/baseline.py --repo /tmp/wt-int | head -2
