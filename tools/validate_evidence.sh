#!/bin/sh
# tools/validate_evidence.sh -- validate MANIFEST.json and every evidence/Cxx.json against the schemas in /root/.vp
# (needs jsonschema: python3-vt, the tooling venv).  Development aid.
python3-vt - <<'PY'
import json, glob, jsonschema, sys
bad = 0
m = json.load(open('/verif/MANIFEST.json')); jsonschema.validate(m, json.load(open('/root/.vp/MANIFEST.schema.json')))
es = json.load(open('/root/.vp/EVIDENCE.schema.json')); v = jsonschema.Draft202012Validator(es)
for f in sorted(glob.glob('/verif/evidence/C*.json')):
    errs = list(v.iter_errors(json.load(open(f))))
    for e in errs[:3]:
        print(f, list(e.path), e.message[:160]); bad += 1
print('MANIFEST valid; evidence files with schema errors:', bad)
sys.exit(1 if bad else 0)
PY
