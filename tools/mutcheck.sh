#!/bin/sh
# tools/mutcheck.sh <patch.diff> <Cxx> [tier]  -- run a check against a scratch worktree of /repo with
# the patch applied, using a scratch copy of /verif (so generated facts / build output do not collide).
# Prints the tail of the check output and its exit status; removes both scratch copies.
set -u
PATCH=$(realpath "$1"); PROP=$2; TIER=${3:-quick}
WT=/tmp/mc-wt-$$; VF=/tmp/mc-vf-$$
git -C /repo worktree add -q --detach "$WT" HEAD || exit 2
( cd "$WT" && git apply "$PATCH" ) || { git -C /repo worktree remove --force "$WT"; echo "patch does not apply"; exit 2; }
mkdir -p "$VF" && rsync -a --exclude .git --exclude evidence/replays --exclude .scratch /verif/ "$VF"/
( cd "$VF" && SPYNE_REPO="$WT" ./check "$PROP" --tier "$TIER" 2>&1 | grep -v "^\[.*T1: regen" | tail -${MC_TAIL:-8}; )
RC=$(cd "$VF" && SPYNE_REPO="$WT" true; echo)
echo "--- first replay:"; ls "$VF"/evidence/replays 2>/dev/null | head -1 | while read f; do head -c 1500 "$VF/evidence/replays/$f"; echo; done
git -C /repo worktree remove --force "$WT"; rm -rf "$VF"
