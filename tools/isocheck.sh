#!/bin/sh
# tools/isocheck.sh <Cxx> [tier]  -- run a check from a scratch copy of the working tree of /verif against /repo
# (or $SPYNE_REPO), so that generated facts and build output do not collide with checks running in /verif itself
# (C01/C02/C04/C05/C10/C16 share Generated/Facts01, Facts02, Facts08).  Honours VERIF_SEED.  Removes the copy.
set -u
PROP=$1; TIER=${2:-quick}
VF=/tmp/iso-vf-$$
mkdir -p "$VF" && rsync -a --exclude .git --exclude evidence/replays --exclude .scratch /verif/ "$VF"/
( cd "$VF" && ./check "$PROP" --tier "$TIER" 2>&1 | grep -v "^\[.*T1: regen" | tail -${MC_TAIL:-8} )
echo "--- first replay:"; ls "$VF"/evidence/replays 2>/dev/null | head -1 | while read f; do head -c 1500 "$VF/evidence/replays/$f"; echo; done
rm -rf "$VF"
