#!/bin/sh
# tools/reverify_all.sh [streams=5]  -- re-run every stored seeded change (seeded/<id>/patch.diff) against the committed
# checks (/tmp/vhead = built copy of HEAD) and rewrite the check_result in its meta.json.  Seeds whose patch no longer
# applies to /repo HEAD are marked so.  Development tool (uses /tmp).
N=${1:-5}
cd /verif
ls -d seeded/C*/ | sed 's#seeded/##; s#/##' > /tmp/rv-all.txt
split -n l/$N /tmp/rv-all.txt /tmp/rv-part-
for f in /tmp/rv-part-*; do
  ( while read s; do p=$(echo $s | cut -c1-3)
      VS_SRC=/tmp/vhead python3 tools/verify_seed.py seeded/$s $p $s --no-tests > /tmp/rv-$s.json 2>&1
    done < $f ) &
done
wait
