#!/bin/sh
# tools/allcheck.sh [src=/tmp/vhead] [props...]  -- run checks from isolated scratch copies of <src> (a built copy of
# /verif: /tmp/vhead = committed HEAD after ./setup.sh, or /verif = working tree), 4 at a time, against /repo or
# $SPYNE_REPO.  One line per check.  Used after every fix: commit to /repo: all 18, not only the finder's check.
SRC=${1:-/tmp/vhead}; shift 2>/dev/null
PROPS=${*:-C01 C02 C03 C04 C05 C06 C07 C08 C09 C10 C11 C12 C13 C14 C15 C16 C17 C18}
one() {
  VF=/tmp/ac-vf-$1-$$; mkdir -p "$VF" && rsync -a --exclude .git --exclude evidence/replays --exclude .scratch "$SRC"/ "$VF"/ 2>/dev/null
  ( cd "$VF" && ./check "$1" --tier "${TIER:-quick}" > out.log 2>&1; echo "rc=$?" >> out.log )
  echo "$1 $(tail -1 $VF/out.log) $(grep -E 'done:' $VF/out.log | sed 's/.*done: //') $(grep '^VIOLATION' $VF/out.log | head -2 | tr '\n' ' ') $(grep -E 'INFRA|T1: switch' $VF/out.log | head -2 | tr '\n' ' ')"
  rm -rf "$VF"
}
n=0
for p in $PROPS; do one $p & n=$((n+1)); [ $((n % 4)) -eq 0 ] && wait; done; wait
