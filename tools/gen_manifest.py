#!/usr/bin/env python3
"""Regenerate MANIFEST.json from tools/manifest_src.json (keeps entries uniform)."""
import json, os
here = os.path.dirname(os.path.abspath(__file__))
src = json.load(open(os.path.join(here, 'manifest_src.json')))
import glob, re
VER = os.path.dirname(here)
try:
    KNOWN = json.load(open(os.path.join(VER, 'known_findings.json')))
except Exception:
    KNOWN = []


def stats(pid):
    n = 0
    for f in glob.glob(os.path.join(VER, 'lean/Props/%s.lean' % pid)) + glob.glob(os.path.join(VER, 'lean/Props/%s_*.lean' % pid)):
        n += len(re.findall(r'^theorem ', open(f).read(), re.M))
    kn = sum(1 for e in KNOWN if e.get('property') == pid and e.get('status') == 'known')
    fx = sum(1 for e in KNOWN if e.get('property') == pid and e.get('status') == 'fixed')
    cv = ''
    try:
        m = re.search(r'anchored files together: \d+ of \d+ statements reached \((\d+)%\)', open(os.path.join(VER, 'coverage/%s.md' % pid)).read())
        cv = '; the quick tier executes %s%% of the statements of the anchored files (coverage/%s.md)' % (m.group(1), pid)
    except Exception:
        pass
    return ' [generated: %d proof obligations in lean/Props/%s*.lean; known_findings.json lists %d known and %d repaired defects for this property%s]' % (n, pid, kn, fx, cv)


checks = []
for c in src['checks']:
    pid = c['id']
    checks.append({
        'property_id': pid,
        'quick_cmd': './check %s --tier quick' % pid,
        'thorough_cmd': './check %s --tier thorough' % pid,
        'evidence_file': 'evidence/%s.json' % pid,
        'replay_cmd_template': './check %s --replay {path}' % pid,
        'engine': 'lean4-model+correspondence',
        'level_claimed': {'category': 'proof', 'text': c['text'], 'design_ref': c.get('design_ref', 'DESIGN.md §4 ' + pid)},
        'level_note': c['note'] + stats(pid),
        'technique': c.get('technique', 'Lean 4 machine-checked proof over a hand-written model; model tied to /repo by regenerated facts (T1) and differential correspondence (T2); failing-input search by direct oracle (T3)'),
    })
m = {
    'version': 1,
    'setup_cmd': './setup.sh',
    'hooks': {'guard': 'SPYNE_VERIF', 'enable': 'no hooks: everything is observed from outside (no guarded source changes)',
              'baseline_off_cmd': 'python3 tools/baseline.py', 'source_commits': [], 'add_only': True},
    'engines': [{'name': 'lean4-model+correspondence', 'path': 'lean/ + harness/',
                 'serves_properties': [c['id'] for c in src['checks']],
                 'kind_free_text': 'Lean 4.33 library (model, proofs, property theorems, axiom audit) + Python harness: facts translator, JSON line-protocol differential against the real code, property oracle'}],
    'checks': checks,
    'notes': src.get('notes', ''),
    'not_applicable': src.get('not_applicable', []),
}
json.dump(m, open(os.path.join(os.path.dirname(here), 'MANIFEST.json'), 'w'), indent=1)
print('MANIFEST.json: %d checks, %d not claimed' % (len(checks), len(m['not_applicable'])))
