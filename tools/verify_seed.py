#!/usr/bin/env python3
"""tools/verify_seed.py <seed-src-dir> <Cxx> <name> [--no-tests]

Confirm a seeded change (patch.diff + demo.py + meta.json produced independently of /verif):
  1. demo passes on the unchanged tree, 2. patch applies, demo fails with it,
  3. the pinned baseline suite still passes with it, 4. run ./check Cxx against the changed tree
     (scratch worktree + scratch copy of /verif) and record what it reported.
On success the seed is stored as /verif/seeded/<name>/ (patch.diff, demo.py, meta.json).
"""
import json, os, shutil, subprocess, sys

src, prop, name = sys.argv[1], sys.argv[2], sys.argv[3]
run_tests = '--no-tests' not in sys.argv
pid = os.getpid()
wt, vf = '/tmp/vs-wt-%d' % pid, '/tmp/vs-vf-%d' % pid
patch = os.path.abspath(os.path.join(src, 'patch.diff'))
demo = os.path.abspath(os.path.join(src, 'demo.py'))


def sh(cmd, **kw):
    p = subprocess.run(cmd, shell=True, stdout=subprocess.PIPE, stderr=subprocess.STDOUT, text=True, **kw)
    return p.returncode, p.stdout


res = {'property': prop, 'name': name}
try:
    rc, out = sh('git -C /repo worktree add -q --detach %s HEAD' % wt)
    assert rc == 0, out
    env = dict(os.environ, PYTHONPATH=wt, PYTHONWARNINGS='ignore')
    rc, out = sh('/venv/bin/python %s' % demo, env=env, cwd=wt, timeout=600)
    res['demo_unchanged'] = 'PASS' if rc == 0 else 'rc=%d: %s' % (rc, out[-300:])
    rc, out = sh('git apply %s' % patch, cwd=wt)
    res['patch_applies'] = rc == 0
    if rc != 0:
        rc, out = sh('git apply -3 %s || patch -p1 --fuzz=3 < %s' % (patch, patch), cwd=wt)
        res['patch_applies_fuzzy'] = rc == 0
        assert rc == 0, 'patch does not apply: ' + out[-400:]
        # refresh the stored patch against the current HEAD
        rc, out = sh('git diff HEAD', cwd=wt)
        res['rebased_patch'] = out
    rc, out = sh('/venv/bin/python %s' % demo, env=env, cwd=wt, timeout=600)
    res['demo_changed'] = 'FAIL' if rc != 0 else 'rc=0 (demo does not fail!)'
    res['demo_changed_tail'] = out[-400:]
    if run_tests:
        rc, out = sh('python3 /verif/tools/baseline.py --repo %s' % wt, timeout=1800)
        res['tests'] = out.strip().split('\n')[0]
        res['tests_ok'] = rc == 0
    os.makedirs(vf)
    sh('rsync -a --exclude .git --exclude evidence/replays --exclude .scratch %s/ %s/' % (os.environ.get('VS_SRC', '/verif'), vf))
    rc, out = sh('SPYNE_REPO=%s ./check %s --tier quick' % (wt, prop), cwd=vf, timeout=3600)
    lines = [l for l in out.split('\n') if l.startswith('VIOLATION') or l.startswith('KNOWN-FINDING') or 'INFRA' in l]
    res['check_rc'] = rc
    res['check_lines'] = lines[:6]
    res['caught'] = rc == 1 and any(l.startswith('VIOLATION') for l in lines)
    res['caught_with_input'] = any(l.startswith('VIOLATION') and 'no-failing-input-found' not in l for l in lines)
    rp = os.path.join(vf, 'evidence', 'replays')
    if os.path.isdir(rp) and os.listdir(rp):
        f = sorted(os.listdir(rp))[0]
        res['first_replay'] = open(os.path.join(rp, f)).read()[:1500]
    res['check_tail'] = out[-600:] if not res['caught'] else ''
finally:
    sh('git -C /repo worktree remove --force %s' % wt)
    shutil.rmtree(vf, ignore_errors=True)

ok = res.get('demo_unchanged') == 'PASS' and res.get('demo_changed') == 'FAIL' and (not run_tests or res.get('tests_ok'))
res['confirmed'] = bool(ok)
if ok:
    dst = os.path.join('/verif/seeded', name)
    os.makedirs(dst, exist_ok=True)
    if 'rebased_patch' in res:
        open(os.path.join(dst, 'patch.diff'), 'w').write(res.pop('rebased_patch'))
    else:
        if os.path.abspath(patch) != os.path.abspath(os.path.join(dst, 'patch.diff')):
            shutil.copy(patch, os.path.join(dst, 'patch.diff'))
    if os.path.abspath(demo) != os.path.abspath(os.path.join(dst, 'demo.py')):
        shutil.copy(demo, os.path.join(dst, 'demo.py'))
    meta = {}
    mp = os.path.join(src, 'meta.json')
    if os.path.exists(mp):
        try:
            meta = json.load(open(mp))
        except Exception:
            meta = {'raw': open(mp).read()[:2000]}
    if not run_tests and meta.get('what_was_run') and 'skipped' not in meta['what_was_run']:
        keep = meta['what_was_run']          # a re-check: the suite result was recorded when the seed was first confirmed
    else:
        keep = None
    meta.update({'property': prop, 'what_was_run': 'tools/verify_seed.py: demo on unchanged tree (PASS), demo with patch (FAIL), '
                 'pinned baseline suite with patch (%s), ./check %s --tier quick against the patched worktree' % (res.get('tests', 'skipped'), prop),
                 'check_result': {k: res.get(k) for k in ('check_rc', 'caught', 'caught_with_input', 'check_lines')}})
    if keep:
        meta['what_was_run'] = keep
        meta['rechecked'] = 'check re-run against the final machinery (tools/reverify_all.sh)'
    json.dump(meta, open(os.path.join(dst, 'meta.json'), 'w'), indent=1)
res.pop('rebased_patch', None)
res['check_lines'] = [l[:160] for l in res.get('check_lines', [])]
res['check_tail'] = res.get('check_tail', '')[-300:]
print(json.dumps({k: v for k, v in res.items() if k not in ('first_replay', 'demo_changed_tail')}, indent=1))
