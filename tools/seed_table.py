#!/usr/bin/env python3
"""Print the markdown table of seeded changes and which check result each got (from seeded/*/meta.json)."""
import glob, json, os
rows = []
for d in sorted(glob.glob('/verif/seeded/*')):
    mp = os.path.join(d, 'meta.json')
    if not os.path.exists(mp):
        continue
    m = json.load(open(mp))
    cr = m.get('check_result', {})
    what = (m.get('what_it_breaks') or m.get('what') or '')
    if isinstance(what, list): what = '; '.join(what)
    needs = m.get('needs_to_manifest') or ''
    if isinstance(needs, list): needs = '; '.join(needs)
    res = 'caught, concrete replay' if cr.get('caught_with_input') else ('caught, no-failing-input-found' if cr.get('caught') else 'MISSED')
    st = m.get('status_on_final_tree')
    if st and st.startswith('the patch no longer applies'):
        res += ' (when it applied; no longer applies to HEAD)'
    elif st:
        res = 'no longer a violation on the final tree (see meta.json); was: ' + res
    rows.append('| %s | %s | %s | %s |' % (os.path.basename(d), str(what).replace('|', '/').replace('\n', ' ')[:160],
                                         str(needs).replace('|', '/').replace('\n', ' ')[:140], res))
print('| seed | what it breaks | needs to manifest | ./check result |\n|---|---|---|---|')
print('\n'.join(rows))

if __name__ == '__main__':
    import sys
    if '--write' in sys.argv:
        import io, contextlib
        p = '/verif/DESIGN.md'
        s = open(p).read()
        a = s.index('<!-- SEED-TABLE-BEGIN -->') + len('<!-- SEED-TABLE-BEGIN -->')
        b = s.index('<!-- SEED-TABLE-END -->')
        table = '| seed | what it breaks | needs to manifest | ./check result |\n|---|---|---|---|\n' + '\n'.join(rows)
        open(p, 'w').write(s[:a] + '\n' + table + '\n' + s[b:])
