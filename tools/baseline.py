#!/usr/bin/env python3
"""Run the repository's pinned baseline (guard OFF) and compare with BASELINE.json.
Exit 0 iff every test in stable_pass passes."""
import json, os, subprocess, sys, tempfile
import xml.etree.ElementTree as ET
B = json.load(open('/root/.vp/BASELINE.json'))
out = tempfile.mktemp(suffix='.junit.xml', dir='/var/tmp')
cmd = B['cmd'].replace('<file>', out)
env = dict(os.environ); env.pop('SPYNE_VERIF', None)
if len(sys.argv) > 2 and sys.argv[1] == '--repo':
    # run the same baseline against a scratch checkout: tools/baseline.py --repo /tmp/wt-x
    cmd = cmd.replace('cd /repo', 'cd ' + sys.argv[2])
    env['PYTHONPATH'] = sys.argv[2]
p = subprocess.run(cmd, shell=True, env=env, stdout=subprocess.PIPE, stderr=subprocess.STDOUT, text=True)
passed = set()
for tc in ET.parse(out).getroot().iter('testcase'):
    if not any(c.tag in ('failure', 'error', 'skipped') for c in tc):
        passed.add('%s::%s' % (tc.get('classname'), tc.get('name')))
os.unlink(out)
missing = [t for t in B['stable_pass'] if t not in passed]
print('stable_pass: %d, passing now: %d, missing: %d' % (len(B['stable_pass']), len(B['stable_pass']) - len(missing), len(missing)))
for t in missing: print('  NOT PASSING:', t)
sys.exit(1 if missing else 0)
