#!/bin/sh
# tools/hold.sh on|off <git pathspecs...>  — (un)set skip-worktree on tracked files of a builder that is still
# editing them, so that snapshots of /verif (vp check commits all tracked changes) keep the last finished version.
MODE=$1; shift
FILES=$(git -C /verif ls-files "$@")
[ -z "$FILES" ] && exit 0
if [ "$MODE" = on ]; then git -C /verif update-index --skip-worktree $FILES; else git -C /verif update-index --no-skip-worktree $FILES; fi
git -C /verif ls-files -v | grep -c "^S"
