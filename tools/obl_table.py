#!/usr/bin/env python3
"""tools/obl_table.py [--write]  -- table of proof obligations per property (theorems in lean/Props/Cxx*.lean) and the
last recorded quick-tier numbers from evidence/Cxx.json; --write puts it between the OBL-TABLE markers of DESIGN.md."""
import glob, json, os, re, sys
V = os.path.dirname(os.path.dirname(os.path.abspath(__file__)))
rows = []
tot = 0
for i in range(1, 19):
    p = 'C%02d' % i
    files = sorted(glob.glob(os.path.join(V, 'lean/Props/%s.lean' % p)) + glob.glob(os.path.join(V, 'lean/Props/%s_*.lean' % p)))
    per = []
    for f in files:
        n = len(re.findall(r'^theorem ', open(f).read(), re.M))
        per.append('%s %d' % (os.path.basename(f)[:-5], n))
    n = sum(int(x.split()[-1]) for x in per)
    tot += n
    ev = {}
    try:
        ev = json.load(open(os.path.join(V, 'evidence/%s.json' % p)))
    except Exception:
        pass
    cov = ev.get('coverage', {})
    cv = ''
    try:
        m = re.search(r'anchored files together: (\d+) of (\d+) statements reached \((\d+)%\)', open(os.path.join(V, 'coverage/%s.md' % p)).read())
        cv = '%s%% (%s/%s)' % (m.group(3), m.group(1), m.group(2))
    except Exception:
        pass
    rows.append('| %s | %d | %s | %s | %s | %s |' % (p, n, ', '.join(per), cov.get('evaluations', ''), ev.get('wall_s', ''), cv))
table = '| property | obligations | theorem files | T2/T3 evaluations (last quick run) | wall s | anchored statements executed by the check (coverage/Cxx.md) |\n|---|---|---|---|---|---|\n' + '\n'.join(rows) + \
        '\n\nTotal: %d theorems in `lean/Props/` (plus the lemmas they rest on in `lean/Proofs/`).' % tot
print(table)
if '--write' in sys.argv:
    p = os.path.join(V, 'DESIGN.md')
    s = open(p).read()
    a = s.index('<!-- OBL-TABLE-BEGIN -->') + len('<!-- OBL-TABLE-BEGIN -->')
    b = s.index('<!-- OBL-TABLE-END -->')
    open(p, 'w').write(s[:a] + '\n' + table + '\n' + s[b:])
