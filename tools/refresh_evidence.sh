#!/bin/sh
# tools/refresh_evidence.sh  -- run every quick tier in place (serially: shared Generated facts), so that evidence/Cxx.json
# and Generated/FactsNN.lean are those of /repo HEAD; then validate the evidence files against the schema.
cd /verif || exit 2
rm -rf evidence/replays
for p in C01 C02 C03 C04 C05 C06 C07 C08 C09 C10 C11 C12 C13 C14 C15 C16 C17 C18; do
  ./check $p --tier quick 2>&1 | tail -1
done
tools/validate_evidence.sh
