#!/bin/sh
# tools/headcheck.sh <patch.diff> <Cxx>  -- like mutcheck.sh, but with a scratch copy of the pre-built committed
# /verif in /tmp/vhead (git archive HEAD + setup), so that builders' uncommitted work does not interfere.
PATCH=$(realpath "$1"); PROP=$2
WT=/tmp/hc-wt-$$; VF=/tmp/hc-vf-$$
git -C /repo worktree add -q --detach "$WT" HEAD || exit 2
( cd "$WT" && git apply "$PATCH" ) || { git -C /repo worktree remove --force "$WT"; echo "patch does not apply"; exit 2; }
mkdir -p "$VF" && rsync -a /tmp/vhead/ "$VF"/
( cd "$VF" && SPYNE_REPO="$WT" ./check "$PROP" --tier quick > out.log 2>&1; echo "rc=$?" >> out.log )
echo "$(basename $PATCH) $PROP $(tail -1 $VF/out.log) $(grep -c '^VIOLATION' $VF/out.log) violations: $(grep '^VIOLATION' $VF/out.log | head -2 | tr '\n' ' ')"
F=$(ls "$VF"/evidence/replays 2>/dev/null | head -1); [ -n "$F" ] && python3 -c "
import json; o=json.load(open('$VF/evidence/replays/$F')); print('   ', {k:str(v)[:260] for k,v in o.items() if k in ('what','finding_id','broken_theorems','broken_correspondence')})"
git -C /repo worktree remove --force "$WT"; rm -rf "$VF"
