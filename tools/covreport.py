#!/usr/bin/env python3
"""tools/covreport.py Cxx [--tier quick] [--seed N]

Which lines of the files a property is anchored in does its check actually execute?

Runs `./check Cxx` from a scratch copy of /verif under coverage.py (in /venv; subprocess/fork aware) with
/repo/spyne as the measured source, and writes coverage/Cxx.md: per anchored file the executed share and, per
function, the line ranges the check never reached.  A source change confined to unreached lines can only be
noticed by a T1 fact probe, never by T2/T3 - so the list is the to-do list for generators (and an honest
statement of what the correspondence check has seen).  Not a registered command: scratch files live in /tmp.
"""
import ast, json, os, shutil, subprocess, sys

prop = sys.argv[1].upper()
tier = sys.argv[sys.argv.index('--tier') + 1] if '--tier' in sys.argv else 'quick'
seed = sys.argv[sys.argv.index('--seed') + 1] if '--seed' in sys.argv else '0'
V = os.path.dirname(os.path.dirname(os.path.abspath(__file__)))
REPO = os.environ.get('SPYNE_REPO', '/repo')
vf = '/tmp/cov-vf-%s-%d' % (prop, os.getpid())
cd = '/tmp/cov-data-%s-%d' % (prop, os.getpid())

files = None
for l in open(os.path.join(V, 'properties.jsonl')):
    p = json.loads(l)
    if p['id'] == prop:
        files = p['anchors']['files']
assert files, prop

os.makedirs(cd)
subprocess.run(['rsync', '-a', '--exclude', '.git', '--exclude', 'evidence/replays', '--exclude', '.scratch',
                os.environ.get('VS_SRC', V) + '/', vf + '/'], check=True)
rc_file = os.path.join(cd, 'rc')
open(rc_file, 'w').write("[run]\nsource = %s/spyne\nparallel = True\nconcurrency = multiprocessing,thread\n"
                         "data_file = %s/.coverage\nsigterm = True\n" % (REPO, cd))
# sitecustomize so that python subprocesses the harness starts (sandboxed workers) are measured, too
sc = os.path.join(cd, 'site'); os.makedirs(sc)
open(os.path.join(sc, 'sitecustomize.py'), 'w').write("import coverage\ncoverage.process_startup()\n")
env = dict(os.environ, COVERAGE_PROCESS_START=rc_file, PYTHONWARNINGS='ignore', VERIF_SEED=seed,
           PYTHONPATH=sc + os.pathsep + os.environ.get('PYTHONPATH', ''))
try:
    p = subprocess.run(['/venv/bin/python', '-B', '-m', 'coverage', 'run', '--rcfile', rc_file, '-m', 'harness.check',
                        prop, '--tier', tier], cwd=vf, env=env, stdout=subprocess.PIPE, stderr=subprocess.STDOUT, text=True)
    tail = p.stdout.strip().split('\n')[-1]
    open('/tmp/cov-%s.out' % prop, 'w').write(p.stdout)
    subprocess.run(['/venv/bin/python', '-m', 'coverage', 'combine', '--rcfile', rc_file, '-q'], cwd=cd, env=env)
    out_json = os.path.join(cd, 'cov.json')
    subprocess.run(['/venv/bin/python', '-m', 'coverage', 'json', '--rcfile', rc_file, '-q', '-o', out_json], cwd=cd, env=env)
    cov = json.load(open(out_json))['files']
finally:
    shutil.rmtree(vf, ignore_errors=True)


def ranges(ls):
    out, ls = [], sorted(ls)
    for x in ls:
        if out and x == out[-1][1] + 1:
            out[-1][1] = x
        else:
            out.append([x, x])
    return ', '.join('%d' % a if a == b else '%d-%d' % (a, b) for a, b in out)


lines = ['# %s: lines of the anchored files reached by `./check %s --tier %s` (seed %s)' % (prop, prop, tier, seed), '',
         'check result: `%s` (exit %d)' % (tail, p.returncode), '']
tot_e = tot_m = 0
for f in files:
    path = os.path.join(REPO, f)
    ent = cov.get(path) or cov.get(os.path.realpath(path))
    if ent is None:
        lines += ['## %s — never imported' % f, '']
        continue
    ex, mi = set(ent['executed_lines']), set(ent['missing_lines'])
    tot_e += len(ex); tot_m += len(mi)
    lines.append('## %s — %d of %d statements reached (%.0f%%)' % (f, len(ex), len(ex) + len(mi), 100.0 * len(ex) / max(1, len(ex) + len(mi))))
    tree = ast.parse(open(path).read())
    funcs = []

    def walk(node, prefix):
        for ch in ast.iter_child_nodes(node):
            if isinstance(ch, (ast.FunctionDef, ast.AsyncFunctionDef, ast.ClassDef)):
                name = prefix + ch.name
                if not isinstance(ch, ast.ClassDef):
                    funcs.append((name, ch.lineno, ch.end_lineno))
                walk(ch, name + '.')
            else:
                walk(ch, prefix)
    walk(tree, '')
    seen = set()
    for name, a, b in sorted(funcs, key=lambda t: (t[2] - t[1])):       # innermost first
        mine = set(x for x in mi if a <= x <= b and x not in seen)
        allm = set(x for x in (ex | mi) if a <= x <= b and x not in seen)
        seen |= allm
        if mine:
            funcs_line = '* `%s` (%d-%d): %s' % (name, a, b, 'never entered' if not (allm - mine) or (allm - mine) <= {a} else 'not reached: ' + ranges(mine))
            lines.append((a, funcs_line))
    body = sorted([l for l in lines if isinstance(l, tuple)])
    lines = [l for l in lines if not isinstance(l, tuple)] + [l for _, l in body]
    rest = set(x for x in mi if x not in seen)
    if rest:
        lines.append('* module level: ' + ranges(rest))
    lines.append('')
lines.insert(3, 'anchored files together: %d of %d statements reached (%.0f%%)' % (tot_e, tot_e + tot_m, 100.0 * tot_e / max(1, tot_e + tot_m)))
os.makedirs(os.path.join(V, 'coverage'), exist_ok=True)
open(os.path.join(V, 'coverage', prop + '.md'), 'w').write('\n'.join(lines) + '\n')
shutil.rmtree(cd, ignore_errors=True)
print('\n'.join(lines[:5]))
