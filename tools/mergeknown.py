#!/usr/bin/env python3
"""tools/mergeknown.py <N> [id=commit ...]  -- merge fixes/<N>-known.json into known_findings.json.
Entries whose (property, id) is new are appended (status known, or fixed when `id=commit` is given on the command line
or the entry itself says fixed); existing entries named on the command line are flipped to fixed with that commit.
Run by hand when integrating a builder's work; never at check time."""
import json, sys
n = sys.argv[1]
flips = dict(a.split('=', 1) for a in sys.argv[2:])
K = '/verif/known_findings.json'
k = json.load(open(K))
src = json.load(open('/verif/fixes/%s-known.json' % n))
src = src['findings'] if isinstance(src, dict) else src
have = {(e['property'], e['id']): e for e in k}
for e in src:
    key = (e.get('property'), e.get('id'))
    if key in have or not e.get('id'):
        continue
    st = 'fixed' if (e['id'] in flips or e.get('status') == 'fixed') else 'known'
    ne = {'status': st, 'property': e['property'], 'id': e['id']}
    if st == 'fixed':
        ne['commit'] = flips.get(e['id']) or e.get('commit', '')
    ne['what'] = e.get('what', '')
    k.append(ne); have[key] = ne
    print('added', st, key)
for e in k:
    if e['id'] in flips and e['status'] != 'fixed':
        e['status'] = 'fixed'; e['commit'] = flips[e['id']]
        print('flipped', e['property'], e['id'])
json.dump(k, open(K, 'w'), indent=1, ensure_ascii=False)
