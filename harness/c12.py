"""C12 — concurrent requests do not interfere; the lazy WSDL is built once and served whole (partial).

T1  ast of the anchored functions -> SpyneModel/Generated/Facts12.lean: the synchronisation skeleton of
    WsgiApplication.handle_wsdl_request (a `Prog`), whether build_interface_document resets its element
    dicts, the publication order of every cache (get_cls_attrs, sort_fields, memoize.__call__,
    cdict.__getitem__), how __validate_lxml reads the error text, and the shared locations a request
    writes outside those caches (snapshot of the __dict__ graphs of the shared objects).
Proof Props/C12.lean instantiated with the regenerated facts.
T2  a deterministic scheduler (sys.settrace, baton passing, scheduler-aware replacements of the locks of
    the instance) runs 2..4 real threads against one WsgiApplication.  (a) macro schedules produced for
    the model are replayed on the real WSDL handler; (b) the shared-state events of every scheduled run
    (cache probes / fills, validate / error read, WSDL steps) are replayed through the Lean model
    (trace validation); per-thread responses, builds, hit/miss patterns and step sequences are compared.
T3  the property itself on the real threads: every response equals the sequential oracle's, one build at
    most, every ?wsdl body identical to the sequential document, the instance still answers correctly
    afterwards; schedules: systematic single/double pre-emption at statement granularity inside the
    shared-state code, seeded random ones, and an unscheduled free-running stress.
"""
import ast
import hashlib
import inspect
import io
import json
import logging
import os
import sys
import textwrap
import threading
import time

from . import core

# ====================================================================================== source access


def _func(obj):
    return getattr(obj, '__func__', obj)


def fn_ast(func):
    """(FunctionDef with absolute line numbers, code object)"""
    func = _func(func)
    src = textwrap.dedent(inspect.getsource(func))
    tree = ast.parse(src)
    fd = tree.body[0]
    ast.increment_lineno(tree, func.__code__.co_firstlineno - fd.lineno)
    return fd, func.__code__


def stmt_map(fd):
    """line -> statement id (first line of the innermost statement (header) covering that line)"""
    m = {}
    compound = (ast.If, ast.For, ast.While, ast.With, ast.Try, ast.FunctionDef, ast.ClassDef)

    def visit(stmts):
        for s in stmts:
            if isinstance(s, compound):
                kids = []
                for f in ('body', 'orelse', 'finalbody'):
                    kids += getattr(s, f, []) or []
                for h in getattr(s, 'handlers', []) or []:
                    kids += h.body
                first_kid = min([k.lineno for k in kids] or [s.end_lineno + 1])
                for ln in range(s.lineno, max(s.lineno + 1, first_kid)):
                    m.setdefault(ln, s.lineno)
                for f in ('body', 'orelse', 'finalbody'):
                    visit(getattr(s, f, []) or [])
                for h in getattr(s, 'handlers', []) or []:
                    visit(h.body)
            else:
                for ln in range(s.lineno, s.end_lineno + 1):
                    m[ln] = s.lineno
    visit(fd.body)
    return m


def seg(node):
    return ast.unparse(node)


# ====================================================================================== T1: WSDL skeleton

SHARED_NAMES = ('_wsdl', 'wsdl11', '_mtx_build_interface_document', 'get_interface_document',
                'build_interface_document')


class SkelExtractor:
    """handle_wsdl_request -> flat instruction list over {cache=self._wsdl, pub=wsdl11.__wsdl, lock}, in a NORMAL
    FORM that does not depend on how the code is cut into methods, statements and local names:

    * calls of methods of the same class that touch the tracked names are inlined (also name-mangled private ones):
      tail delegation (`return wrapper(self.helper(..))`) and value calls (`x = self.helper(..)`), whose return
      sites continue in the caller with `x` known (a document / None / an error body) — tests on `x` are decided
      statically per return site;
    * registers: w = ctx.transport.wsdl, t = any local name holding a document (names do not matter);
    * try / except / else / finally and `with <mutex>:` become tryEnter/tryLeave with the finally body emitted once
      per exit; `try: with <mutex>: B  except ..` is read as `try: acquire; B  except ..  finally: release`;
    * afterwards: jumps to jumps are threaded, a jump to a terminal instruction becomes that instruction, jumps to
      the next instruction and unreachable code are dropped, `mov x y; respond x` = `respond y`, a thread-private
      `mov` is ordered before an adjacent independent `storeCache`.

    The statements are processed in continuation-passing style: `k()` emits whatever follows."""

    TERMINAL = ('respond', 'respondErr', 'reraise')

    def __init__(self, klass):
        self.klass = klass
        self.ins = []          # [op, args, marker]; jump args are symbolic labels
        self.labels = {}       # label -> index into self.ins
        self.nlab = 0
        self.docnames = set()
        self.consts = {}       # local name -> 'none' | 'err' | 'other'  (known non-document value)
        self.notes = []
        self.codes = {}        # code object -> statement map, for every function the skeleton comes from
        self.cur = None
        self.visited = set()
        self.fin = []          # enclosing `finally` bodies (innermost last); 'release' = exit of `with <mutex>:`
        self.in_handler = 0
        self.path = 'normal'   # which copy of a finally body is being emitted: normal exit / exit through a handler
        self.frames = []       # inlined value calls in progress

    # ------------------------------------------------------------------ helpers
    def cls(self, e):
        if isinstance(e, ast.Attribute) and e.attr == '_wsdl' and isinstance(e.value, ast.Name) and e.value.id == 'self':
            return ('cache',)
        if isinstance(e, ast.Attribute) and e.attr == 'wsdl' and isinstance(e.value, ast.Attribute) \
                and e.value.attr == 'transport':
            return ('reg', 'w')
        if isinstance(e, ast.Call) and isinstance(e.func, ast.Attribute) and e.func.attr == 'get_interface_document':
            return ('pub',)
        if isinstance(e, ast.Name) and e.id in self.docnames:
            return ('reg', 't')
        return None

    def touches(self, node):
        s = seg(node)
        return any(n in s for n in SHARED_NAMES)

    def new_label(self):
        self.nlab += 1
        return 'L%d' % self.nlab

    def emit(self, op, *args, marker=None):
        self.ins.append([op, list(args), marker])

    def place(self, lab):
        self.labels[lab] = len(self.ins)

    def is_mutex(self, node):
        return '_mtx_build_interface_document' in seg(node)

    def helper_of(self, s):
        """(function, call node) if the simple statement `s` calls a method of the class that touches the tracked names"""
        if isinstance(s, (ast.If, ast.For, ast.While, ast.With, ast.Try)):
            return None
        for n in ast.walk(s):
            if isinstance(n, ast.Call) and isinstance(n.func, ast.Attribute) and isinstance(n.func.value, ast.Name) \
                    and n.func.value.id == 'self':
                name = n.func.attr
                m = getattr(self.klass, name, None) or \
                    getattr(self.klass, '_%s%s' % (self.klass.__name__.lstrip('_'), name), None)
                f = _func(m) if m is not None else None
                if f is None or not hasattr(f, '__code__') or f.__code__ in self.visited:
                    continue
                try:
                    src = inspect.getsource(f)
                except (OSError, TypeError):
                    continue
                if any(x in src for x in ('_wsdl', '_mtx_build_interface_document')):
                    return f, n
        return None

    # ------------------------------------------------------------------ functions
    def func(self, f, k=None):
        fd, code = fn_ast(f)
        self.codes[code] = stmt_map(fd)
        self.visited.add(code)
        old, self.cur = self.cur, code

        def done():
            self.cur = old
            if k is not None:
                k()
        self.block(fd.body, done)
        self.cur = old

    def block(self, stmts, k):
        if not stmts:
            return k()
        self.stmt(stmts[0], lambda: self.block(stmts[1:], k))

    # ------------------------------------------------------------------ statements
    def stmt(self, s, k):
        if s == 'acquire':
            self.emit('acquire', marker=('lock', 'acquire'))
            return k()
        h = self.helper_of(s)
        if h is not None:
            return self.call_helper(s, h[0], h[1], k)
        if isinstance(s, ast.If):
            return self.if_(s, k)
        if isinstance(s, ast.Assign):
            self.assign(s)
            return k()
        if isinstance(s, ast.Try):
            body, handlers, orelse, finalbody = s.body, s.handlers, s.orelse, s.finalbody
            if len(body) == 1 and isinstance(body[0], ast.With) and not finalbody and not orelse and \
                    any(self.is_mutex(i.context_expr) for i in body[0].items):
                # try: with <mutex>: B  except ..   ==   try: acquire; B  except ..  finally: release
                return self.try_(['acquire'] + body[0].body, [], handlers, 'release', s.lineno, k)
            return self.try_(body, orelse, handlers, finalbody, s.lineno, k)
        if isinstance(s, ast.With):
            if any(self.is_mutex(i.context_expr) for i in s.items):
                inner = s.body[0] if len(s.body) == 1 and isinstance(s.body[0], ast.Try) else None
                if inner is not None and inner.handlers and not inner.finalbody and not inner.orelse:
                    # with <mutex>: try: B except ..: H   ==   try: acquire; B  except ..: H  finally: release
                    # (the handler runs with the lock held in both; the lock is released on every way out)
                    return self.try_(['acquire'] + inner.body, [], inner.handlers, 'release', s.lineno, k)
                self.emit('acquire', marker=('lock', 'acquire'))
                return self.try_(s.body, [], [], 'release', s.lineno, k)
            return self.block(s.body, k)
        if isinstance(s, ast.Raise):
            self.finals(0)
            return self.emit('reraise')
        if isinstance(s, ast.Expr) and isinstance(s.value, ast.Call) and isinstance(s.value.func, ast.Attribute):
            a = s.value.func.attr
            if a == 'acquire' and self.is_mutex(s.value.func.value):
                self.emit('acquire', marker=('lock', 'acquire'))
                return k()
            if a == 'release' and self.is_mutex(s.value.func.value):
                self.emit('release', marker=('lock', 'release', self.path))
                return k()
            if a == 'build_interface_document':
                self.emit('buildBegin', marker=('call', 'build_interface_document'))
                self.emit('buildPorts', marker=('call', '_get_or_create_'))
                self.emit('buildPublish', marker=('publish',))
                return k()
        if isinstance(s, ast.Return):
            return self.return_(s)
        if isinstance(s, ast.stmt) and self.touches(s):
            self.notes.append('unmodelled statement touching shared names at line %d: %s' % (s.lineno, seg(s)[:80]))
            self.emit('opaque')
        return k()

    def value_class(self, v):
        """('doc', reg) | ('none',) | ('err',) | ('other',) for a returned / assigned expression"""
        if v is None or (isinstance(v, ast.Constant) and v.value is None):
            return ('none',)
        if isinstance(v, (ast.List, ast.Tuple)) and len(v.elts) == 1:
            inner = self.value_class(v.elts[0])
            if inner[0] == 'doc':
                return inner
        c = self.cls(v)
        if c and c[0] == 'reg':
            return ('doc', c[1])
        if c and c[0] == 'cache':
            return ('doc-cache',)
        if isinstance(v, ast.Name) and v.id in self.consts:
            return (self.consts[v.id],)
        return ('err',) if self.in_handler else ('other',)

    def return_(self, s):
        vc = self.value_class(s.value)
        if vc[0] == 'doc-cache':
            self.emit('loadCache', 't', marker=('line', self.cur, s.lineno))
            vc = ('doc', 't')
        if self.frames:
            # return out of an inlined value call: only the helper's own finally bodies run
            fr = self.frames[-1]
            self.finals(fr['fin_base'])
            if vc[0] == 'doc':
                if vc[1] != 't':
                    self.emit('mov', 't', vc[1])
                key = 'doc'
            else:
                key = vc[0]
            lab = fr['sites'].setdefault(key, self.new_label())
            return self.emit('jmp', lab)
        self.finals(0)
        if vc[0] == 'doc':
            return self.emit('respond', vc[1])
        if vc[0] == 'err':
            return self.emit('respondErr')
        self.notes.append('return of a non-document at line %d' % s.lineno)
        return self.emit('opaque')

    def call_helper(self, s, f, call, k):
        if isinstance(s, ast.Return):
            # tail delegation: the helper's returns are this function's returns
            self.func(f, lambda: self.return_(ast.Return(value=None, lineno=s.lineno)))
            return
        target = None
        if isinstance(s, ast.Assign) and len(s.targets) == 1 and isinstance(s.targets[0], ast.Name) and s.value is call:
            target = s.targets[0].id
        elif not (isinstance(s, ast.Expr) and s.value is call):
            self.notes.append('helper call in an unmodelled position at line %d' % s.lineno)
            self.emit('opaque')
            return k()
        fr = {'sites': {}, 'fin_base': len(self.fin)}
        self.frames.append(fr)
        outer = (self.in_handler, self.path)
        self.func(f, lambda: self.return_(ast.Return(value=None, lineno=s.lineno)))     # falling off the end = return None
        self.frames.pop()
        for key, lab in fr['sites'].items():
            self.place(lab)
            self.in_handler, self.path = outer
            saved = (set(self.docnames), dict(self.consts))
            if target is not None:
                self.docnames.discard(target)
                self.consts.pop(target, None)
                if key == 'doc':
                    self.docnames.add(target)
                else:
                    self.consts[target] = key
            k()
            self.docnames, self.consts = saved

    def final(self, fb):
        if fb == 'release':
            self.emit('release', marker=('lock', 'release', self.path))
        else:
            self.block(fb, lambda: None)

    def finals(self, base):
        """the enclosing finally bodies above `base`, innermost first (executed by a return / raise)"""
        saved = self.fin
        for i in range(len(saved) - 1, base - 1, -1):
            self.fin = saved[:i]
            self.final(saved[i])
        self.fin = saved

    def try_(self, body, orelse, handlers, finalbody, lineno, k):
        h, end = self.new_label(), self.new_label()
        outer_fin, outer_h, outer_path = list(self.fin), self.in_handler, self.path

        def leave():
            self.fin, self.in_handler = list(outer_fin), outer_h
            self.final(finalbody)
            self.emit('jmp', end)
        self.emit('tryEnter', h)
        self.fin = outer_fin + [finalbody]

        def normal_exit():
            self.emit('tryLeave')
            self.block(orelse, leave)
        self.block(body, normal_exit)
        self.place(h)
        self.path = 'handler'
        if handlers:
            if len(handlers) > 1:
                self.notes.append('several except clauses at line %d: only the first is modelled' % lineno)
                self.emit('opaque')
            self.fin, self.in_handler = outer_fin + [finalbody], outer_h + 1
            self.block(handlers[0].body, leave)
        else:
            self.fin, self.in_handler = list(outer_fin), outer_h
            self.final(finalbody)
            self.emit('reraise')
        self.fin, self.in_handler, self.path = list(outer_fin), outer_h, outer_path
        self.place(end)
        k()

    def if_(self, s, k):
        t = s.test
        if isinstance(t, ast.Compare) and len(t.ops) == 1 and isinstance(t.comparators[0], ast.Constant) \
                and t.comparators[0].value is None and isinstance(t.ops[0], (ast.Is, ast.IsNot)):
            kind = 'isNone' if isinstance(t.ops[0], ast.Is) else 'isNotNone'
            x = t.left
            if seg(x).endswith('.wsdl11'):
                # configuration test (`self.doc.wsdl11 is None`): a WSDL-capable application is assumed
                return self.block(s.orelse if kind == 'isNone' else s.body, k)
            if isinstance(x, ast.Name) and x.id in self.consts:
                # a value returned by an inlined helper: decided per return site
                is_none = self.consts[x.id] == 'none'
                return self.block(s.body if is_none == (kind == 'isNone') else s.orelse, k)
            c = self.cls(x)
            if c is not None and c[0] != 'pub':
                if c[0] == 'cache':
                    self.emit('loadCache', 't', marker=('line', self.cur, s.lineno))
                    r = 't'
                else:
                    r = c[1]
                l_else, join = self.new_label(), self.new_label()
                self.emit('jmpIfSome' if kind == 'isNone' else 'jmpIfNone', r, l_else)
                self.block(s.body, lambda: self.emit('jmp', join))
                self.place(l_else)
                self.block(s.orelse, lambda: self.emit('jmp', join))
                self.place(join)
                return k()
        if self.touches(s.test) or any(self.touches(b) for b in s.body + s.orelse):
            self.notes.append('unmodelled condition around shared accesses at line %d: %s' % (s.lineno, seg(t)[:80]))
            self.emit('opaque')
        return k()

    def assign(self, s):
        v = self.cls(s.value)
        tg = []
        for t in s.targets:
            if isinstance(t, ast.Name):
                tg.append(('name', t.id))
            else:
                c = self.cls(t)
                tg.append(c if c and c[0] != 'pub' else None)
        if v is None:
            for t, c in zip(s.targets, tg):
                if c and c[0] == 'name':
                    self.docnames.discard(c[1])
                    self.consts.pop(c[1], None)
                elif c is not None or self.touches(t):
                    if isinstance(s.value, ast.Constant) and s.value.value is None and c and c[0] == 'cache':
                        self.notes.append('None is stored into the cache at line %d' % s.lineno)
                    else:
                        self.notes.append('document place assigned from an unmodelled value at line %d' % s.lineno)
                    self.emit('opaque')
            return
        if all(c is not None and c[0] == 'name' for c in tg) and v[0] == 'reg':
            for c in tg:
                self.docnames.add(c[1])
                self.consts.pop(c[1], None)
            if v[1] != 't':
                self.emit('mov', 't', v[1])
            return
        if any(c is None for c in tg):
            self.notes.append('document stored to an unmodelled place at line %d' % s.lineno)
            return self.emit('opaque')
        regs = [('reg', 't') if c[0] == 'name' else c for c in tg]
        for c in tg:
            if c[0] == 'name':
                self.docnames.add(c[1])
                self.consts.pop(c[1], None)
        if v[0] in ('cache', 'pub'):
            load = 'loadCache' if v[0] == 'cache' else 'loadPub'
            lm = ('line', self.cur, s.lineno) if v[0] == 'cache' else ('calleeline', self.cur, s.lineno)
            if len(regs) == 1 and regs[0][0] == 'reg':
                return self.emit(load, regs[0][1], marker=lm)
            self.emit(load, 't', marker=lm)
            src = 't'
            after = ('return', self.cur, s.lineno) if v[0] == 'pub' else None
        else:
            src = v[1]
            after = ('line', self.cur, s.lineno)
        for c in regs:
            if c[0] == 'reg':
                if c[1] != src:
                    self.emit('mov', c[1], src)
            else:
                if after is None:
                    self.notes.append('store fused with a load of the cache at line %d' % s.lineno)
                    self.emit('opaque')
                self.emit('storeCache', src, marker=after)
                after = None if after and after[0] == 'return' else after

    # ------------------------------------------------------------------ normal form
    @staticmethod
    def _live(nodes, target_index, start, reg):
        """is register `reg` read on some path from instruction `start` before it is written"""
        seen, todo = set(), [start]
        while todo:
            i = todo.pop()
            if i in seen or i >= len(nodes):
                continue
            seen.add(i)
            nd = nodes[i]
            op, args = nd['op'], nd['args']
            reads = {'storeCache': args[:1], 'mov': args[1:2], 'jmpIfSome': args[:1], 'jmpIfNone': args[:1],
                     'respond': args[:1]}.get(op, [])
            if reg in reads:
                return True
            writes = {'loadCache': args[:1], 'loadPub': args[:1], 'mov': args[:1]}.get(op, [])
            if reg in writes:
                continue
            if op in ('jmp', 'jmpIfSome', 'jmpIfNone', 'tryEnter'):
                todo.append(target_index(args[-1]))
            if op != 'jmp' and op not in SkelExtractor.TERMINAL:
                todo.append(i + 1)
        return False

    def result(self):
        JUMPS = ('jmp', 'jmpIfSome', 'jmpIfNone', 'tryEnter')
        # instructions with their own labels (a label may sit at the end = halt)
        n = len(self.ins)
        at = {}
        for lab, idx in self.labels.items():
            at.setdefault(idx, []).append(lab)
        nodes = [{'op': op, 'args': list(args), 'mk': mk, 'labs': at.get(i, [])} for i, (op, args, mk) in enumerate(self.ins)]
        end_labs = at.get(n, [])

        def target_index(lab):
            if lab in end_labs:
                return len(nodes)
            for i, nd in enumerate(nodes):
                if lab in nd['labs']:
                    return i
            return len(nodes)
        changed = True
        while changed:
            changed = False
            # thread jumps through unconditional jumps; a jump to a terminal instruction is that instruction
            for nd in nodes:
                if nd['op'] in JUMPS:
                    ti = target_index(nd['args'][-1])
                    if ti < len(nodes) and nodes[ti]['op'] == 'jmp' and nodes[ti] is not nd:
                        if nd['args'][-1] != nodes[ti]['args'][-1]:
                            nd['args'][-1] = nodes[ti]['args'][-1]
                            changed = True
                    elif nd['op'] == 'jmp' and ti < len(nodes) and nodes[ti]['op'] in self.TERMINAL:
                        nd['op'], nd['args'], nd['mk'] = nodes[ti]['op'], list(nodes[ti]['args']), None
                        changed = True
            # `mov x y; respond x` = `respond y`;  a private mov goes before an independent adjacent storeCache
            for i in range(len(nodes) - 1):
                a, b = nodes[i], nodes[i + 1]
                if b['labs']:
                    continue
                if a['op'] == 'mov' and b['op'] == 'respond' and b['args'] == [a['args'][0]]:
                    b['args'] = [a['args'][1]]
                    b['labs'] = a['labs']
                    del nodes[i]
                    changed = True
                    break
                if a['op'] == 'storeCache' and b['op'] == 'mov' and b['args'][0] != a['args'][0]:
                    b['labs'], a['labs'] = a['labs'], []
                    nodes[i], nodes[i + 1] = b, a
                    changed = True
                    break
            if changed:
                continue
            # `load t; mov w t` with t dead afterwards = `load w`  (a local name used only to pass the value on)
            for i in range(len(nodes) - 1):
                a, b = nodes[i], nodes[i + 1]
                if a['op'] in ('loadCache', 'loadPub') and b['op'] == 'mov' and not b['labs'] and \
                        b['args'][1] == a['args'][0] and b['args'][0] != a['args'][0] and \
                        not self._live(nodes, target_index, i + 2, a['args'][0]):
                    a['args'] = [b['args'][0]]
                    del nodes[i + 1]
                    changed = True
                    break
            if changed:
                continue
            # jumps to the next instruction
            for i, nd in enumerate(nodes):
                if nd['op'] in ('jmp', 'jmpIfSome', 'jmpIfNone') and target_index(nd['args'][-1]) == i + 1:
                    if i + 1 < len(nodes):
                        nodes[i + 1]['labs'] = nodes[i + 1]['labs'] + nd['labs']
                    else:
                        end_labs += nd['labs']
                    del nodes[i]
                    changed = True
                    break
            if changed:
                continue
            # unreachable code
            reach, todo = set(), [0]
            while todo:
                i = todo.pop()
                if i in reach or i >= len(nodes):
                    continue
                reach.add(i)
                nd = nodes[i]
                if nd['op'] in JUMPS:
                    todo.append(target_index(nd['args'][-1]))
                if nd['op'] != 'jmp' and nd['op'] not in self.TERMINAL:
                    todo.append(i + 1)
            if len(reach) < len(nodes):
                carry = []
                new = []
                for i, nd in enumerate(nodes):
                    if i in reach:
                        nd['labs'] = nd['labs'] + carry
                        carry = []
                        new.append(nd)
                    else:
                        carry += nd['labs']
                end_labs += carry
                nodes = new
                changed = True
        out, markers = [], []
        for nd in nodes:
            args = [str(target_index(a)) if (nd['op'] in JUMPS and j == len(nd['args']) - 1) else str(a)
                    for j, a in enumerate(nd['args'])]
            out.append(' '.join([nd['op']] + args))
            markers.append(nd['mk'])
        return out, markers


def extract_wsdl():
    from spyne.server.wsgi import WsgiApplication
    from spyne.interface.wsdl.wsdl11 import Wsdl11
    ex = SkelExtractor(WsgiApplication)
    ex.func(WsgiApplication.handle_wsdl_request)
    instrs, markers = ex.result()
    bfd, bcode = fn_ast(Wsdl11.build_interface_document)
    resets, publish_line, first_use = set(), None, None
    for s in ast.walk(bfd):
        if isinstance(s, ast.Assign):
            for t in s.targets:
                if isinstance(t, ast.Attribute) and t.attr in ('port_type_dict', 'service_elt_dict') \
                        and isinstance(s.value, (ast.Dict, ast.Call)):
                    resets.add((t.attr, s.lineno))
                if isinstance(t, ast.Attribute) and t.attr.endswith('__wsdl'):
                    publish_line = s.lineno
        if isinstance(s, ast.Call) and isinstance(s.func, ast.Attribute) and \
                s.func.attr in ('_get_or_create_service_node', 'add_port_type', '_get_or_create_port_type'):
            first_use = min(first_use or s.lineno, s.lineno)
    builder_resets = {a for a, ln in resets if first_use is None or ln < first_use} == {'port_type_dict', 'service_elt_dict'}
    return {'instrs': instrs, 'markers': markers, 'notes': ex.notes, 'builder_resets': builder_resets,
            'publish_line': publish_line, 'codes': ex.codes, 'bcode': bcode, 'bstmts': stmt_map(bfd)}


# ====================================================================================== T1: caches, validator

class Role:
    """shared-state statements of one anchored function"""

    def __init__(self, kind, func, container_src, key_src, contains):
        self.kind, self.func = kind, _func(func)
        self.container_src, self.key_src, self.contains = container_src, key_src, contains
        self.fd, self.code = fn_ast(func)
        self.stmts = stmt_map(self.fd)
        self.probe, self.store, self.complete = set(), set(), set()
        self.order = None
        self.c_container = compile(container_src, '<c12>', 'eval')
        self.c_key = compile(key_src, '<c12>', 'eval')


def cache_role(kind, func, container_src, key_src, contains):
    """find the probe / store / complete statements of a cache-filling function"""
    r = Role(kind, func, container_src, key_src, contains)
    stored_names = set()
    simple = [s for s in ast.walk(r.fd) if isinstance(s, ast.stmt) and not isinstance(
        s, (ast.If, ast.For, ast.While, ast.With, ast.Try, ast.FunctionDef))]
    headers = [s for s in ast.walk(r.fd) if isinstance(s, (ast.If, ast.While))]
    store_line = None
    for s in sorted(simple, key=lambda x: x.lineno):
        is_store = False
        if isinstance(s, ast.Assign):
            for t in s.targets:
                if isinstance(t, ast.Subscript) and seg(t.value) == container_src:
                    is_store = True
        if is_store:
            r.store.add(s.lineno)
            store_line = s.lineno if store_line is None else store_line
            for t in s.targets:
                if isinstance(t, ast.Name):
                    stored_names.add(t.id)
            if isinstance(s.value, ast.Name):
                stored_names.add(s.value.id)
            continue
        if _reads_container(s, container_src, kind):
            r.probe.add(s.lineno)
    for h in headers:
        if _reads_container(h.test, container_src, kind):
            r.probe.add(h.lineno)
    # in-place mutation of the stored object after it became visible
    for s in sorted(simple, key=lambda x: x.lineno):
        if store_line is not None and s.lineno > store_line and isinstance(s, ast.Expr) and \
                isinstance(s.value, ast.Call) and isinstance(s.value.func, ast.Attribute) and \
                isinstance(s.value.func.value, ast.Name) and s.value.func.value.id in stored_names and \
                s.value.func.attr in ('update', 'sort', 'append', 'extend', 'insert', 'setdefault', 'pop', 'clear',
                                      '__setitem__', 'reverse', 'remove'):
            r.complete.add(s.lineno)
        if store_line is not None and s.lineno > store_line and isinstance(s, (ast.Assign, ast.AugAssign)):
            tgts = s.targets if isinstance(s, ast.Assign) else [s.target]
            for t in tgts:
                if isinstance(t, ast.Subscript) and isinstance(t.value, ast.Name) and t.value.id in stored_names:
                    r.complete.add(s.lineno)
    r.order = 'beforeInit' if r.complete else ('afterInit' if r.store else 'missing')
    return r


def _reads_container(node, container_src, kind):
    for n in ast.walk(node):
        if isinstance(n, ast.Call) and isinstance(n.func, ast.Attribute):
            if n.func.attr in ('get', '__getitem__', '__contains__'):
                if seg(n.func.value) == container_src:
                    return True
                if kind == 'cdict' and seg(n.func.value) == 'dict' and n.args and seg(n.args[0]) == container_src:
                    return True
        if isinstance(n, ast.Compare) and any(isinstance(o, (ast.In, ast.NotIn)) for o in n.ops):
            if any(seg(c) == container_src for c in n.comparators):
                return True
        if kind != 'cdict' and isinstance(n, ast.Subscript) and isinstance(n.ctx, ast.Load) \
                and seg(n.value) == container_src:
            return True
    return False


def bind_role():
    """MethodContext.set_out_protocol binds a protocol instance that has no application yet: a lazily initialised
    shared object (probe = the `.app is None` test, publish = the set_app call)"""
    from spyne.server.wsgi import WsgiMethodContext
    f = _func(WsgiMethodContext.out_protocol.fset)      # the setter the WSGI request contexts really use
    r = Role('bind', f, 'self._out_protocol', "'app'", lambda c, k: c.app is not None)
    for n in ast.walk(r.fd):
        if isinstance(n, ast.If) and '.app' in seg(n.test) and 'None' in seg(n.test):
            r.probe.add(n.lineno)
            for b in ast.walk(n):
                if isinstance(b, ast.Expr) and 'set_app(' in seg(b):
                    r.store.add(b.lineno)
    r.order = 'afterInit' if r.store else 'missing'
    return r


def rebind_raises():
    """does binding a protocol instance to the application it is already bound to raise (check-then-act in
    set_out_protocol then fails for the loser of a race)"""
    from spyne import Application
    from spyne.protocol.xml import XmlDocument
    S = services()
    app = Application([S['XSvc']], 'c12', in_protocol=XmlDocument(), out_protocol=XmlDocument())
    p = XmlDocument()
    p.set_app(app)
    try:
        p.set_app(app)
        return False
    except Exception:       # noqa
        return True


def extract_roles():
    from spyne.protocol._base import ProtocolMixin
    from spyne.util import memo
    from spyne.util.cdict import cdict
    dget = lambda c, k: dict.__contains__(c, k)
    wget = lambda c, k: c.get(k, None) is not None
    roles = [cache_role('attr', ProtocolMixin.get_cls_attrs, 'self._attrcache', 'cls', wget),
             cache_role('sort', ProtocolMixin.sort_fields, 'self._sortcache', 'cls', wget),
             cache_role('cdict', cdict.__getitem__, 'self', 'cls', dget)]
    seen = set()
    classes = [memo.memoize, memo.memoize_ignore_none, memo.memoize_id] + [type(m) for m in memo.memoize.registry]
    for c in classes:
        f = _func(c.__call__)
        if f.__code__ in seen or not hasattr(c, 'get_key'):
            continue
        seen.add(f.__code__)
        roles.append(cache_role('memo', f, 'self.memo', 'key', dget))
    roles.append(bind_role())
    return roles


def extract_validator():
    """XmlDocument.__validate_lxml: are validate() and the read of error_log inside one `with <lock>:`"""
    from spyne.protocol.xml import XmlDocument
    f = XmlDocument._XmlDocument__validate_lxml
    fd, code = fn_ast(f)
    val_line = err_line = None
    val_with = err_with = None
    lock_src = None

    def visit(stmts, cur_with):
        nonlocal val_line, err_line, val_with, err_with, lock_src
        for s in stmts:
            if isinstance(s, ast.With):
                src = seg(s.items[0].context_expr)
                is_lock = any(w in src.lower() for w in ('lock', 'mtx', 'mutex'))
                visit(s.body, (s.lineno, src) if is_lock else cur_with)
                continue
            subs = []
            for fld in ('body', 'orelse', 'finalbody'):
                subs += getattr(s, fld, []) or []
            for h in getattr(s, 'handlers', []) or []:
                subs += h.body
            head = s.test if isinstance(s, (ast.If, ast.While)) else (None if subs else s)
            if head is not None:
                txt = seg(head)
                if '.validate(' in txt or 'validation_schema(' in txt or '.assertValid(' in txt or '.assert_(' in txt:
                    if val_line is None:
                        val_line, val_with = s.lineno, cur_with
                if 'error_log' in txt:
                    if err_line is None:
                        err_line, err_with = s.lineno, cur_with
            visit(subs, cur_with)
    visit(fd.body, None)
    if err_line is None:
        mode = 'underLock'          # no shared read at all
    elif val_with is not None and val_with == err_with:
        mode = 'underLock'
        lock_src = val_with[1]
    else:
        mode = 'racy'
    return {'mode': mode, 'validate_line': val_line, 'err_line': err_line, 'code': code, 'stmts': stmt_map(fd),
            'lock_src': lock_src}


# ====================================================================================== deterministic scheduler

class SLock:
    """scheduler-aware replacement of a threading.Lock / RLock held by the instance under test"""

    def __init__(self, run, name, reentrant=False):
        self.run, self.name, self.reentrant = run, name, reentrant
        self.holder, self.depth = None, 0

    def acquire(self, blocking=True, timeout=-1):
        run = self.run
        if run.over:                     # after the scheduled run: plain single-threaded use
            self.holder, self.depth = -1, self.depth + 1
            return True
        tid = run.cur
        if self.reentrant and self.holder == tid:
            self.depth += 1
            return True
        run.lock_point(tid, self, 'acquire')
        while self.holder is not None:
            run.log(tid, 'blocked', self.name)
            run.blocked[tid] = self
            run.handoff(tid)
        self.holder, self.depth = tid, 1
        run.lock_acquired(tid, self)
        return True

    def release(self):
        if self.holder is None:
            raise RuntimeError('release unlocked lock')
        if self.run.over:
            self.depth -= 1
            if self.depth <= 0:
                self.holder, self.depth = None, 0
            return
        if self.reentrant and self.depth > 1:
            self.depth -= 1
            return
        run = self.run
        run.lock_point(run.cur, self, 'release')
        self.holder, self.depth = None, 0
        for t in range(run.n):
            if run.blocked[t] is self:
                run.blocked[t] = None

    def locked(self):
        return self.holder is not None

    __enter__ = acquire

    def __exit__(self, *a):
        self.release()


_LOCK_TYPES = (type(threading.Lock()), type(threading.RLock()))


class Run:
    """one scheduled execution: `fns[i]()` is the body of thread i.  `policy(run, cur, enabled)` names the
    thread that runs the next segment; it is asked at every switch point, when a thread blocks and when a
    thread ends.  `mode`: 'all' = every statement boundary / call / return of the anchored functions is a
    switch point; 'wsdl' = only the positions of the shared instructions of the WSDL skeleton."""

    def __init__(self, env, n, policy, mode='all'):
        self.env, self.n, self.policy, self.mode = env, n, policy, mode
        self.ev = [threading.Event() for _ in range(n)]
        self.done = [False] * n
        self.blocked = [None] * n
        self.started = [False] * n
        self.cur = None
        self.trace = []           # (tid, kind, data...) in execution order (logged when the segment starts)
        self.npoints = [0] * n
        self.fstate = {}
        self.tstate = [dict(build_ports_done=False, acq=0, rel=0) for _ in range(n)]
        self.main_ev = threading.Event()
        self.err = [None] * n
        self.res = [None] * n
        self.failure = None
        self.over = False
        self.decisions = []       # every answer of the policy, in order: replaying them reproduces the run
        self.switches = 0

    def decide(self, cur, en):
        nxt = self.policy(self, cur, en)
        self.decisions.append(nxt)
        if cur is not None and nxt != cur and not self.done[cur]:
            self.switches += 1
        return nxt

    # ---- bookkeeping
    def enabled(self):
        return [t for t in range(self.n) if not self.done[t] and self.blocked[t] is None]

    def log(self, tid, kind, *data):
        self.trace.append((tid, kind) + data)

    def handoff(self, tid):
        """give the baton to the thread the policy names; returns when `tid` has it again"""
        en = self.enabled()
        if not en:
            self.failure = 'deadlock'
            self.main_ev.set()
            self.ev[tid].clear()
            self.ev[tid].wait()          # never released: daemon thread
            return
        nxt = self.decide(tid, en)
        if nxt != tid:
            self.cur = nxt
            self.ev[tid].clear()
            self.ev[nxt].set()
            self.ev[tid].wait()

    def point(self, tid, label, meaning):
        """thread `tid` stands before a shared access / statement; maybe switch, then log what it executes"""
        self.npoints[tid] += 1
        self.handoff(tid)
        if meaning is not None:
            m = meaning() if callable(meaning) else meaning
            if m is not None:
                self.log(tid, *m)
        else:
            self.log(tid, 'pt', label)

    def _lock_pc(self, tid, what):
        ts = self.tstate[tid]
        if what == 'release' and ts.get('exc') and self.env.w_lock_pcs['release-handler']:
            return self.env.w_lock_pcs['release-handler'][0]
        pcs = self.env.w_lock_pcs[what]
        key = 'acq' if what == 'acquire' else 'rel'
        k = ts[key]
        ts[key] = k + 1
        return pcs[min(k, len(pcs) - 1)] if pcs else -1

    def lock_point(self, tid, lock, what):
        if lock.name == 'wsdl_mtx':
            if what == 'release':
                self.point(tid, ('lock', what), ('w', self._lock_pc(tid, 'release')))
            else:
                self.point(tid, ('lock', what), None)      # the model's step happens when the lock is obtained
        elif self.mode == 'all':
            self.point(tid, ('lock', what, lock.name), None)

    def lock_acquired(self, tid, lock):
        if lock.name == 'wsdl_mtx':
            self.log(tid, 'w', self._lock_pc(tid, 'acquire'))
        else:
            self.log(tid, 'acquired', lock.name)

    # ---- tracing
    def on_event(self, tid, frame, event, info):
        env = self.env
        fid = id(frame)
        fs = self.fstate.get(fid)
        if fs is None:
            fs = self.fstate[fid] = {'stmt': None}
        sid = None
        if event == 'line':
            sid = info['stmts'].get(frame.f_lineno, frame.f_lineno)
            if fs['stmt'] == sid:
                return
            fs['stmt'] = sid
        elif event == 'return':
            self.fstate.pop(fid, None)
        kind = info['kind']
        meaning = None
        if kind == 'wsdl' and event == 'line':
            pc = env.w_line_pc.get((frame.f_code, sid))
            if pc is not None:
                meaning = ('w', pc)
        elif kind == 'getdoc':
            back = frame.f_back
            if back is not None and back.f_code in env.w_codes:
                bsid = (back.f_code, env.w_codes[back.f_code].get(back.f_lineno, back.f_lineno))
                if event == 'line':
                    pc = env.w_calleeline_pc.get(bsid)
                    if pc is not None and not fs.get('loaded'):
                        fs['loaded'] = True
                        meaning = ('w', pc)
                elif event == 'return':
                    pc = env.w_return_pc.get(bsid)
                    if pc is not None:
                        meaning = ('w', pc)
        elif kind == 'build':
            if event == 'call':
                self.tstate[tid]['build_ports_done'] = False
                if env.w_build_pc is not None:
                    meaning = ('w', env.w_build_pc[0])
                else:
                    meaning = ('build',)
            elif event == 'line' and sid == env.publish_line and env.w_build_pc is not None:
                meaning = ('w', env.w_build_pc[2])
        elif kind == 'goc' and event == 'call':
            if not self.tstate[tid]['build_ports_done'] and env.w_build_pc is not None:
                self.tstate[tid]['build_ports_done'] = True
                meaning = ('w', env.w_build_pc[1])
        elif kind == 'role' and event == 'line':
            role = info['role']
            op = 'probe' if sid in role.probe else 'publish' if sid in role.store else \
                'complete' if sid in role.complete else None
            if op is not None:
                meaning = lambda: env.observe_cache(role, op, frame)
        elif kind == 'validator' and event == 'line':
            if sid == env.val['validate_line']:
                meaning = ('r', 'validate')
            elif sid == env.val['err_line']:
                meaning = ('r', 'readErr')
        if self.mode == 'wsdl' and (meaning is None or callable(meaning) or meaning[0] != 'w'):
            if meaning is not None and not callable(meaning):
                self.log(tid, *meaning)
            elif callable(meaning):
                m = meaning()
                if m is not None:
                    self.log(tid, *m)
            return
        self.point(tid, (info['name'], frame.f_lineno, event), meaning)

    def tracer(self, tid):
        codes = self.env.codes
        run = self

        def make_local(info):
            def local(frame, event, arg):
                if event == 'line' or event == 'return':
                    run.on_event(tid, frame, event, info)
                elif event == 'exception' and info['kind'] == 'wsdl':
                    run.tstate[tid]['exc'] = True       # the handler is left through its except clause
                return local
            return local

        def glob(frame, event, arg):
            info = codes.get(frame.f_code)
            if info is None:
                return None
            run.on_event(tid, frame, 'call', info)
            return make_local(info)
        return glob

    # ---- execution
    def go(self, fns, timeout=25):
        def body(tid):
            self.ev[tid].wait()
            self.started[tid] = True
            sys.settrace(self.tracer(tid))
            try:
                self.res[tid] = fns[tid]()
            except BaseException as e:      # noqa
                self.err[tid] = e
            finally:
                sys.settrace(None)
                self.done[tid] = True
                self.log(tid, 'end')
                en = self.enabled()
                if en and self.failure is None:
                    nxt = self.decide(tid, en)
                    self.cur = nxt
                    self.ev[nxt].set()
                else:
                    if not all(self.done) and self.failure is None:
                        self.failure = 'deadlock'
                    self.main_ev.set()
        ths = [threading.Thread(target=body, args=(t,), daemon=True) for t in range(self.n)]
        _HOOK['run'] = self
        for t in ths:
            t.start()
        first = self.decide(None, self.enabled())
        self.cur = first
        self.ev[first].set()
        if not self.main_ev.wait(timeout):
            self.failure = self.failure or 'timeout'
        if self.failure is None:
            for t in ths:
                t.join(5)
        self.over = True
        _HOOK['run'] = None
        return self.res


# ---------------------------------------------------------------------------------------- policies

class Legs:
    """schedule = list of (tid, k): run thread tid for k segments (k=None: until it ends or blocks);
    entries naming a thread that cannot run are skipped; afterwards lowest enabled thread first."""

    def __init__(self, legs):
        self.legs = [list(l) for l in legs]
        self.i = 0

    def __call__(self, run, cur, en):
        while self.i < len(self.legs):
            tid, k = self.legs[self.i]
            if tid not in en or k == 0:
                self.i += 1
                continue
            if k is not None:
                self.legs[self.i][1] = k - 1
            return tid
        return cur if cur in en else en[0]


class Seq:
    """explicit list of thread ids, one segment per entry (entries of threads that cannot run are skips);
    afterwards round robin"""

    def __init__(self, sched):
        self.it = iter(sched)
        self.rr = 0

    def __call__(self, run, cur, en):
        for t in self.it:
            if t in en:
                return t
        self.rr += 1
        return en[self.rr % len(en)]


# ====================================================================================== fixtures (real code)

_SVC = {}
_HOOK = {'run': None}       # the scheduled run in progress (the fixtures report context-cell accesses to it)


def note(op, *data):
    """called by the fixture's user code / start_response in the request thread: a write or read-back of a cell
    of the request's own context (cell 0 = ctx.transport.resp_headers)"""
    run = _HOOK['run']
    if run is not None and not run.over and run.cur is not None:
        run.log(run.cur, 'r', op, 0, *data)


def note_aux(*data):
    run = _HOOK['run']
    if run is not None and not run.over and run.cur is not None:
        run.log(run.cur, 'aux') if not data else run.log(run.cur, 'aux', *data)


ALT_PROT = {}       # id(application) -> the alternate output protocol instance its methods may switch to


def services():
    """service and model classes are created once per process (like a real deployment)"""
    if _SVC:
        return _SVC
    from spyne import rpc, ServiceBase, Integer, Unicode, ComplexModel, Array, Fault, Boolean, Iterable, ByteArray
    from spyne.model.enum import Enum
    from spyne.model.complex import XmlAttribute
    from spyne.auxproc.sync import SyncAuxProc
    from spyne.protocol.json import JsonDocument

    class Item(ComplexModel):
        __namespace__ = 'c12'
        name = Unicode
        qty = Integer(ge=0)

    class Tagged(ComplexModel):
        __namespace__ = 'c12'
        # protocol-specific attributes: get_cls_attrs merges them into the cached entry
        label = Unicode(pa={JsonDocument: dict(sub_name='LABEL')})
        count = Integer(pa={JsonDocument: dict(sub_name='COUNT')})

    class Ordered(ComplexModel):
        __namespace__ = 'c12'
        # member order that only the JSON protocol has: its sort_fields puts `second` first
        first = Unicode(pa={JsonDocument: dict(order=1)})
        second = Integer(pa={JsonDocument: dict(order=0)})
        last = Unicode(pa={JsonDocument: dict(order=-1)}, default='z')

    class Svc(ServiceBase):
        @rpc(Integer, Integer, _returns=Integer)
        def add(ctx, a, b):
            return a + b

        @rpc(Unicode, Integer(le=5), _returns=Array(Unicode))
        def rep(ctx, s, n):
            return [s] * n

        @rpc(Item, _returns=Item)
        def echo(ctx, it):
            return it

        @rpc(Unicode, _returns=Unicode)
        def boom(ctx, s):
            raise Fault('Client.Boom', s)

        @rpc(Integer, _returns=Array(Item))
        def items(ctx, n):
            return [Item(name='i%d' % i, qty=i) for i in range(n)]

        @rpc(Unicode, _returns=Boolean)
        def crash(ctx, s):
            raise KeyError(s)

        @rpc(Unicode, _returns=Unicode)
        def login(ctx, user):
            note('setCtx')
            ctx.transport.resp_headers['Set-Cookie'] = 'session=secret-of-%s' % user
            return u'welcome ' + user

        @rpc(Unicode, _returns=Unicode)
        def whoami(ctx, user):
            return u'you are %s, headers so far: %s' % (user, sorted(ctx.transport.resp_headers))

        @rpc(Unicode, _returns=Unicode)
        def teapot(ctx, s):
            ctx.transport.resp_code = '418 I am a teapot'
            ctx.transport.resp_headers['X-Tea'] = [s, s + s]        # a multi-valued header
            return s

        # lazily produced responses: the body is generated while the transport hands it out
        @rpc(Integer, _returns=Iterable(Unicode))
        def gen(ctx, n):
            ctx.transport.resp_headers['X-Gen'] = 'n=%d' % n        # runs before start_response (first-yield hack)
            for i in range(n):
                yield u'g%d' % i

        @rpc(Integer, _returns=Iterable(Unicode))
        def genfault(ctx, n):
            for i in range(n):
                yield u'g%d' % i
            raise Fault('Client.GenBoom', 'after %d' % n)

        @rpc(Integer, _returns=Iterable(Unicode))
        def gencrash(ctx, n):
            for i in range(n):
                yield u'g%d' % i
            raise KeyError('gen %d' % n)

    class ReqHeader(ComplexModel):
        __namespace__ = 'c12'
        token = Unicode

    class RespHeader(ComplexModel):
        __namespace__ = 'c12'
        echo = Unicode

    class Oops(Fault):
        __namespace__ = 'c12'

    class HdrSvc(ServiceBase):
        """second service of the SOAP applications: SOAP headers in and out, a declared fault, a docstring"""
        __in_header__ = ReqHeader
        __out_header__ = RespHeader

        @rpc(Unicode, _returns=Unicode, _throws=Oops)
        def hdr(ctx, s):
            """echoes the token of the request header into the response header"""
            tok = ctx.in_header.token if ctx.in_header is not None else None
            ctx.out_header = RespHeader(echo=u'%s/%s' % (tok, s))
            if s == u'oops':
                raise Oops('Client.Oops', u'%s' % tok)
            return u'hdr:' + s

    class PtSvc(ServiceBase):
        """third service: its own port types"""
        __port_types__ = ('PtA', 'PtB')

        @rpc(Unicode, _returns=Unicode, _port_type='PtA')
        def pa(ctx, s):
            return u'a' + s

        @rpc(Unicode, _returns=Unicode, _port_type='PtB')
        def pb(ctx, s):
            return u'b' + s

    class AuxSvc(ServiceBase):
        """auxiliary processor: runs after the primary `add` of the same request, in its own AuxMethodContext"""
        __aux__ = SyncAuxProc()

        @rpc(Integer, Integer)
        def add(ctx, a, b):
            note_aux(a, b)
            if a == 40:
                raise ValueError('aux failure (reported by the transport, must not reach the response)')

    Color = Enum('red', 'green', 'blue', type_name='Color')

    class Part(ComplexModel):
        __namespace__ = 'c12'
        code = XmlAttribute(Unicode)
        weight = Integer(nillable=True)

    class XSvc(ServiceBase):
        """plain XmlDocument application"""
        @rpc(Integer, Integer, _returns=Integer)
        def add(ctx, a, b):
            return a + b

        @rpc(Array(Integer), Color, ByteArray, Part, _returns=Array(Unicode))
        def types(ctx, nums, color, data, part):
            return [u'%s' % (nums,), u'%s' % color, u'%d' % len(b''.join(data or [])),
                    u'%s/%s' % (getattr(part, 'code', None), getattr(part, 'weight', None))]

        @rpc(Part, _returns=Part)
        def part(ctx, p):
            return Part(code=(p.code or u'') + u'!', weight=None)

        @rpc(Unicode, _returns=Unicode)
        def boom(ctx, s):
            raise Fault('Client.Boom', s)

    class JSvc(ServiceBase):
        """JsonRpc('spyne') application"""
        @rpc(Unicode, Integer, _returns=Unicode)
        def say(ctx, name, times):
            return u' '.join([name] * times)

        @rpc(Unicode, _returns=Unicode)
        def boom(ctx, s):
            raise Fault('Client.Boom', s)

        @rpc(Unicode, _returns=Unicode)
        def login(ctx, user):
            note('setCtx')
            ctx.transport.resp_headers['Set-Cookie'] = 'session=secret-of-%s' % user
            return u'welcome ' + user

    class YSvc(ServiceBase):
        """JsonDocument in, YamlDocument out"""
        @rpc(Unicode, _returns=Unicode)
        def echo(ctx, s):
            return s

        @rpc(Unicode, _returns=Unicode)
        def boom(ctx, s):
            raise Fault('Client.Boom', s)

    class HSvc(ServiceBase):
        @rpc(Unicode, Integer, _returns=Tagged)
        def make(ctx, label, count):
            return Tagged(label=label, count=count)

        @rpc(Tagged, _returns=Tagged)
        def echo(ctx, t):
            return t

        @rpc(Integer(ge=0), Integer, _returns=Integer)
        def add(ctx, a, b):
            return a + b

        @rpc(Unicode, Integer, _returns=Ordered)
        def ordered(ctx, a, b):
            return Ordered(first=a, second=b)

        # per-request choice of the output protocol: one instance shared by all requests of the application
        @rpc(Unicode, _returns=Tagged)
        def asxml(ctx, label):
            ctx.out_protocol = ALT_PROT[id(ctx.app)]
            return Tagged(label=label, count=len(label))

        @rpc(Integer, _returns=Iterable(Unicode))
        def gen(ctx, n):
            ctx.transport.resp_headers['X-Gen'] = 'n=%d' % n
            for i in range(n):
                yield u'g%d' % i

        @rpc(Unicode, _returns=Unicode)
        def login(ctx, user):
            note('setCtx')
            ctx.transport.resp_headers['Set-Cookie'] = 'session=secret-of-%s' % user
            return u'welcome ' + user

        @rpc(Unicode, _returns=Unicode)
        def whoami(ctx, user):
            return u'you are %s, headers so far: %s' % (user, sorted(ctx.transport.resp_headers))

        @rpc(Unicode, _returns=Unicode)
        def teapot(ctx, s):
            ctx.transport.resp_code = '418 I am a teapot'
            ctx.transport.resp_headers['X-Tea'] = s
            return s

    _SVC.update(Ordered=Ordered, Item=Item, Tagged=Tagged, Svc=Svc, HSvc=HSvc, HdrSvc=HdrSvc, PtSvc=PtSvc, AuxSvc=AuxSvc,
                XSvc=XSvc, JSvc=JSvc, YSvc=YSvc)
    return _SVC


def reset_global_caches():
    from spyne.util.memo import memoize
    for m in memoize.registry:
        if isinstance(getattr(m, 'memo', None), dict):
            m.memo = {}
        m.lock = threading.RLock()


def make_instance(fx):
    from spyne import Application
    from spyne.protocol.soap import Soap11
    from spyne.protocol.http import HttpRpc
    from spyne.protocol.json import JsonDocument
    from spyne.server.wsgi import WsgiApplication
    S = services()
    reset_global_caches()
    from spyne.protocol.xml import XmlDocument
    soap_services = [S['Svc'], S['HdrSvc'], S['PtSvc'], S['AuxSvc']]
    chunked = True
    if fx == 'soap':
        app = Application(soap_services, 'c12', in_protocol=Soap11(validator='lxml'), out_protocol=Soap11())
    elif fx == 'soft':
        app = Application(soap_services, 'c12', in_protocol=Soap11(validator='soft'), out_protocol=Soap11())
    elif fx == 'http':
        app = Application([S['HSvc']], 'c12', in_protocol=HttpRpc(validator='soft'), out_protocol=JsonDocument())
        ALT_PROT.clear()
        ALT_PROT[id(app)] = XmlDocument()       # not bound to the application yet: the first request that uses it binds it
        chunked = False                         # the whole body is joined before it is handed to the server
    elif fx == 'xml':
        app = Application([S['XSvc']], 'c12', in_protocol=XmlDocument(validator='lxml'), out_protocol=XmlDocument())
    elif fx == 'yaml':
        from spyne.protocol.yaml import YamlDocument
        app = Application([S['YSvc']], 'c12', in_protocol=JsonDocument(), out_protocol=YamlDocument())
    elif fx == 'jrpc':
        from spyne.protocol.json import JsonRpc
        app = Application([S['JSvc']], 'c12', in_protocol=JsonRpc('spyne', validator='soft'), out_protocol=JsonDocument())
    else:
        raise core.Infra('unknown fixture ' + fx)
    return WsgiApplication(app, chunked=chunked)


def soap_body(method, inner, header=''):
    return ('<soapenv:Envelope xmlns:soapenv="http://schemas.xmlsoap.org/soap/envelope/" xmlns:t="c12">%s'
            '<soapenv:Body><t:%s>%s</t:%s></soapenv:Body></soapenv:Envelope>' % (header, method, inner, method)).encode()


def R(name, fx, kind='rpc', method='POST', path='/', qs='', body=None, env=None, aux=None):
    return {'name': name, 'fx': fx, 'kind': kind, 'method': method, 'path': path, 'qs': qs,
            'body': None if body is None else body.decode('latin-1'), 'env': env or {}, 'aux': aux}


def soap_hdr(token):
    return '<soapenv:Header><t:ReqHeader><t:token>%s</t:token></t:ReqHeader></soapenv:Header>' % token


def xml_body(method, inner):
    return ('<t:%s xmlns:t="c12">%s</t:%s>' % (method, inner, method)).encode()


def request_universe():
    u = []
    for fx in ('soap', 'soft'):
        u += [R('wsdl', fx, 'wsdl', 'GET', '/', 'wsdl'),
              R('wsdl2', fx, 'wsdl', 'GET', '/', 'WSDL'),
              R('add(1,2)', fx, body=soap_body('add', '<t:a>1</t:a><t:b>2</t:b>'), aux=[1, 2]),
              R('add(40,2)', fx, body=soap_body('add', '<t:a>40</t:a><t:b>2</t:b>'), aux=[40, 2],
                env={'HTTP_HOST': 'other.c12.test:8080', 'HTTP_X_TRACE': 'abc'}),
              R('gen(3)', fx, body=soap_body('gen', '<t:n>3</t:n>')),
              R('gen(0)', fx, body=soap_body('gen', '<t:n>0</t:n>')),
              R('genfault(2)', fx, body=soap_body('genfault', '<t:n>2</t:n>')),
              R('genfault(0)', fx, body=soap_body('genfault', '<t:n>0</t:n>')),
              R('gencrash(1)', fx, body=soap_body('gencrash', '<t:n>1</t:n>')),
              R('gencrash(0)', fx, body=soap_body('gencrash', '<t:n>0</t:n>')),
              R('hdr(T1,x)', fx, body=soap_body('hdr', '<t:s>x</t:s>', soap_hdr('T1'))),
              R('hdr(T2,y)', fx, body=soap_body('hdr', '<t:s>y</t:s>', soap_hdr('T2'))),
              R('hdr(-,z)', fx, body=soap_body('hdr', '<t:s>z</t:s>')),
              R('hdr(T3,oops)', fx, body=soap_body('hdr', '<t:s>oops</t:s>', soap_hdr('T3'))),
              R('pa(q)', fx, body=soap_body('pa', '<t:s>q</t:s>')),
              R('pb(r)', fx, body=soap_body('pb', '<t:s>r</t:s>')),
              R('add(x,2)', fx, body=soap_body('add', '<t:a>x</t:a><t:b>2</t:b>')),
              R('add(1,y)', fx, body=soap_body('add', '<t:a>1</t:a><t:b>yy</t:b>')),
              R('rep(ab,3)', fx, body=soap_body('rep', '<t:s>ab</t:s><t:n>3</t:n>')),
              R('rep(ab,9)', fx, body=soap_body('rep', '<t:s>ab</t:s><t:n>9</t:n>')),
              R('echo(n,3)', fx, body=soap_body('echo', '<t:it><t:name>n</t:name><t:qty>3</t:qty></t:it>')),
              R('echo(m,-1)', fx, body=soap_body('echo', '<t:it><t:name>m</t:name><t:qty>-1</t:qty></t:it>')),
              R('boom(zz)', fx, body=soap_body('boom', '<t:s>zz</t:s>')),
              R('boom(qq)', fx, body=soap_body('boom', '<t:s>qq</t:s>')),
              R('items(3)', fx, body=soap_body('items', '<t:n>3</t:n>')),
              R('crash(k)', fx, body=soap_body('crash', '<t:s>k</t:s>')),
              R('login(bob)', fx, body=soap_body('login', '<t:user>bob</t:user>')),
              R('login(eve)', fx, body=soap_body('login', '<t:user>eve</t:user>')),
              R('whoami(al)', fx, body=soap_body('whoami', '<t:user>al</t:user>')),
              R('teapot(x)', fx, body=soap_body('teapot', '<t:s>x</t:s>')),
              R('nomethod', fx, body=soap_body('nosuch', '')),
              R('garbage', fx, body=b'<not-soap')]
    u += [R('make(a,3)', 'http', method='GET', path='/make', qs='label=a&count=3'),
          R('make(b,4)', 'http', method='GET', path='/make', qs='label=b&count=4'),
          R('hecho(c,5)', 'http', method='GET', path='/echo', qs='t.label=c&t.count=5'),
          R('hadd(1,2)', 'http', method='GET', path='/add', qs='a=1&b=2'),
          R('hadd(-1,2)', 'http', method='GET', path='/add', qs='a=-1&b=2'),
          R('hadd(x,2)', 'http', method='GET', path='/add', qs='a=x&b=2'),
          R('ordered(p,1)', 'http', method='GET', path='/ordered', qs='a=p&b=1'),
          R('ordered(q,2)', 'http', method='GET', path='/ordered', qs='a=q&b=2'),
          R('hlogin(bob)', 'http', method='GET', path='/login', qs='user=bob'),
          R('hlogin(eve)', 'http', method='GET', path='/login', qs='user=eve'),
          R('hwhoami(al)', 'http', method='GET', path='/whoami', qs='user=al'),
          R('hteapot(y)', 'http', method='GET', path='/teapot', qs='s=y'),
          R('asxml(k)', 'http', method='GET', path='/asxml', qs='label=k'),
          R('asxml(mm)', 'http', method='GET', path='/asxml', qs='label=mm'),
          R('hgen(2)', 'http', method='GET', path='/gen', qs='n=2'),
          R('hbare', 'http', method='GET', path='/add', qs='flag&a=5&b=6', env={'HTTP_HOST': 'h.c12.test'}),
          R('hnone', 'http', method='GET', path='/nosuch', qs='')]
    part = '<t:p t:code="c7"><t:weight>3</t:weight></t:p>'
    u += [R('xadd(1,2)', 'xml', body=xml_body('add', '<t:a>1</t:a><t:b>2</t:b>')),
          R('xadd(x,2)', 'xml', body=xml_body('add', '<t:a>x</t:a><t:b>2</t:b>')),
          R('xtypes', 'xml', body=xml_body('types', '<t:nums><t:integer>1</t:integer><t:integer>2</t:integer></t:nums>'
                                                    '<t:color>green</t:color><t:data>aGVsbG8=</t:data>'
                                                    '<t:part code="c1"><t:weight>5</t:weight></t:part>')),
          R('xtypes-bad', 'xml', body=xml_body('types', '<t:color>purple</t:color>')),
          R('xpart(c7)', 'xml', body=xml_body('part', '<t:p code="c7"><t:weight>3</t:weight></t:p>')),
          R('xpart(nil)', 'xml', body=xml_body('part', '<t:p code="c8"><t:weight xmlns:xsi="http://www.w3.org/2001/XMLSchema-instance" xsi:nil="true"/></t:p>')),
          R('xboom(e)', 'xml', body=xml_body('boom', '<t:s>e</t:s>')),
          R('xgarbage', 'xml', body=b'<<<')]

    def J(name, doc):
        return R(name, 'jrpc', body=json.dumps(doc).encode(), env={'CONTENT_TYPE': 'application/json; charset=utf-8'})
    u += [J('jsay(A,2)', {"ver": 1, "body": {"say": {"name": "A", "times": 2}}}),
          J('jsay(B,3)', {"ver": 1, "body": {"say": {"name": "B", "times": 3}}}),
          J('jfault', {"ver": 1, "fault": {"faultcode": "Client.Whatever", "faultstring": "this envelope carries a fault"}}),
          J('jboom(x)', {"ver": 1, "body": {"boom": {"s": "x"}}}),
          J('jsay(A,zz)', {"ver": 1, "body": {"say": {"name": "A", "times": "zz"}}}),
          J('jlogin(bob)', {"ver": 1, "body": {"login": {"user": "bob"}}}),
          J('jnover', {"body": {}}),
          J('jnomethod', {"ver": 1, "body": {"nosuch": {}}}),
          J('jgarbage', None)]
    u[-1]['body'] = '{"ver": 1, "body": '

    def Y(name, raw):
        return R(name, 'yaml', body=raw, env={'CONTENT_TYPE': 'application/json'})
    # a lone surrogate (only the pure-python YAML emitter can write it), an astral character and a NEL (written
    # differently by the C and the python emitter), plain text, a fault quoting request data
    u += [Y('yecho(surrogate)', b'{"echo": {"s": "\\ud800"}}'),
          Y('yecho(astral)', b'{"echo": {"s": "\\ud83d\\ude00 ok"}}'),
          Y('yecho(nel)', b'{"echo": {"s": "a\\u0085b"}}'),
          Y('yecho(plain)', b'{"echo": {"s": "plain"}}'),
          Y('yboom(astral)', b'{"boom": {"s": "\\ud83d\\ude00"}}'),
          Y('yboom(surrogate)', b'{"boom": {"s": "x\\udc00"}}'),
          Y('ybad', b'{"echo": ')]

    return u


def call(w, req):
    env = {'REQUEST_METHOD': req['method'], 'PATH_INFO': req['path'], 'QUERY_STRING': req['qs'],
           'SERVER_NAME': 'c12.test', 'SERVER_PORT': '80', 'wsgi.url_scheme': 'http', 'SCRIPT_NAME': '',
           'CONTENT_TYPE': 'text/xml; charset=utf-8'}
    env.update(req.get('env') or {})
    if req['body'] is not None:
        b = req['body'].encode('latin-1')
        env['wsgi.input'] = io.BytesIO(b)
        env['CONTENT_LENGTH'] = str(len(b))
    st = []

    def start_response(status, headers, exc_info=None):
        hs = sorted((str(k), str(v)) for k, v in headers)
        if req['kind'] != 'wsdl':
            note('getCtx', dict(hs).get('Set-Cookie'))       # the transport has just read ctx.transport.resp_headers
        st.append((status, hs))
    out = w(env, start_response)
    try:
        body = b''.join(out)
    finally:
        if hasattr(out, 'close'):
            out.close()
    return (st[0][0] if st else None, st[0][1] if st else None, body)


def show_resp(r):
    if r is None:
        return None
    return {'status': r[0], 'headers': r[1], 'body': r[2].decode('utf-8', 'replace')}


# ====================================================================================== environment

class Env:
    """marker tables (from T1) + per-run observation helpers"""

    def __init__(self, wsdl, roles, val):
        from spyne.interface.wsdl.wsdl11 import Wsdl11
        self.wsdl, self.roles, self.val = wsdl, roles, val
        self.codes = {}
        self.w_codes = wsdl['codes']
        self.publish_line = wsdl['bstmts'].get(wsdl['publish_line'], wsdl['publish_line'])
        for c, st in wsdl['codes'].items():
            self.codes[c] = {'kind': 'wsdl', 'stmts': st, 'name': c.co_name}
        self.codes[wsdl['bcode']] = {'kind': 'build', 'stmts': wsdl['bstmts'], 'name': 'build_interface_document'}
        gd = _func(Wsdl11.get_interface_document)
        self.codes[gd.__code__] = {'kind': 'getdoc', 'stmts': {}, 'name': 'get_interface_document'}
        for nm in ('_get_or_create_port_type', '_get_or_create_service_node'):
            f = _func(getattr(Wsdl11, nm))
            self.codes[f.__code__] = {'kind': 'goc', 'stmts': stmt_map(fn_ast(f)[0]), 'name': nm}
        for r in roles:
            self.codes[r.code] = {'kind': 'role', 'stmts': r.stmts, 'name': r.func.__qualname__, 'role': r}
        self.codes[val['code']] = {'kind': 'validator', 'stmts': val['stmts'], 'name': '__validate_lxml'}
        # skeleton markers
        self.w_line_pc, self.w_calleeline_pc, self.w_return_pc = {}, {}, {}
        self.w_lock_pcs = {'acquire': [], 'release': [], 'release-handler': []}
        b = [None, None, None]
        self.unmarked = []
        for pc, (ins, mk) in enumerate(zip(wsdl['instrs'], wsdl['markers'])):
            op = ins.split()[0]
            if mk is None:
                if op in ('loadCache', 'loadPub', 'storeCache', 'acquire', 'release', 'buildBegin', 'buildPorts',
                          'buildPublish'):
                    self.unmarked.append(pc)
                continue
            if mk[0] == 'line':
                self.w_line_pc[(mk[1], self.w_codes[mk[1]].get(mk[2], mk[2]))] = pc
            elif mk[0] == 'calleeline':
                self.w_calleeline_pc[(mk[1], self.w_codes[mk[1]].get(mk[2], mk[2]))] = pc
            elif mk[0] == 'return':
                self.w_return_pc[(mk[1], self.w_codes[mk[1]].get(mk[2], mk[2]))] = pc
            elif mk[0] == 'lock':
                self.w_lock_pcs[mk[1] if len(mk) < 3 or mk[2] == 'normal' else 'release-handler'].append(pc)
            elif mk == ('call', 'build_interface_document'):
                b[0] = pc
            elif mk == ('call', '_get_or_create_'):
                b[1] = pc
            elif mk == ('publish',):
                b[2] = pc
        self.w_build_pc = tuple(b) if all(x is not None for x in b) else None
        self.begin_pcs = [pc for pc, i in enumerate(wsdl['instrs']) if i == 'buildBegin']
        self.keys = {}
        self.labels = {}
        self.base_codes = dict(self.codes)

    PER_REQUEST_METHODS = ('create_in_document', 'decompose_incoming_envelope', 'deserialize', 'serialize',
                           'create_out_string', 'validate_body', 'generate_method_contexts', 'set_method_descriptor')

    def new_run(self, w):
        """instance-specific tables; the per-request entry points of the protocol classes this instance uses become
        switch points too (statement granularity), so that state parked on a protocol object between two of them, or
        inside one, can be caught red-handed whatever the protocol"""
        self.keys = {}
        self.labels = {}
        codes = dict(self.base_codes)
        for prot in (w.app.in_protocol, w.app.out_protocol) + tuple(ALT_PROT.values()):
            for klass in type(prot).__mro__:
                for nm in self.PER_REQUEST_METHODS:
                    f = klass.__dict__.get(nm)
                    f = _func(f) if f is not None else None
                    code = getattr(f, '__code__', None)
                    if code is not None and code not in codes:
                        try:
                            st = stmt_map(fn_ast(f)[0])
                        except Exception:       # noqa
                            st = {}
                        codes[code] = {'kind': 'plain', 'stmts': st, 'name': '%s.%s' % (klass.__name__, nm)}
        self.codes = codes

    def resolve(self, e):
        """an attrcache hit saw a half-initialised entry iff what it saw differs from the entry's final content"""
        if e[1] == 'r' and len(e) == 8 and isinstance(e[7], list):
            _, container, key, snap = e[7]
            try:
                final = container.get(key)
                val = 'full' if final is not None and dict(final.items()) == snap else 'half'
            except Exception:       # noqa
                val = 'full'
            return e[:7] + (val,)
        return e

    def observe_cache(self, role, op, frame):
        try:
            container = eval(role.c_container, frame.f_globals, frame.f_locals)
            key = eval(role.c_key, frame.f_globals, frame.f_locals)
            hit = bool(role.contains(container, key))
        except Exception as e:      # noqa
            return ('r-error', role.kind, op, type(e).__name__)
        try:
            kid = self.keys.setdefault((role.kind, id(container), key), len(self.keys))
        except TypeError:
            kid = self.keys.setdefault((role.kind, id(container), repr(key)), len(self.keys))
        pa, val = False, 'full'
        if role.kind == 'attr':
            try:
                prot = frame.f_locals['self']
                pas = key.Attributes.prot_attrs
                pa = bool(pas and (pas.get(prot.__class__) or pas.get(prot)))
                if hit and op == 'probe':
                    val = ['pending', container, key, dict(container.get(key).items())]
            except Exception:       # noqa
                pass
        return ('r', op, role.kind, kid, pa, hit, val)


# ====================================================================================== pristine child processes

_CHILD_COV = {}


def _child_coverage_start():
    """under tools/covreport.py: measure this forked child with a sys.monitoring based collector of its own — the
    scheduler owns sys.settrace in the request threads, so the inherited trace-function collector would not see
    the lines executed under a schedule"""
    try:
        import coverage
        old = coverage.Coverage.current()
        if old is not None:
            old.stop()
            old.save()
        os.environ['COVERAGE_CORE'] = 'sysmon'
        cov = coverage.Coverage(config_file=os.environ['COVERAGE_PROCESS_START'], data_suffix=True)
        cov.start()
        _CHILD_COV['cov'] = cov
    except Exception:       # noqa
        _CHILD_COV.clear()


class ChildDied(Exception):
    """the forked interpreter was killed (segfault, abort) before it could answer; args[0] = wait status"""


def in_child(fn, *args):
    """run fn(*args) in a forked child and return its (picklable) result.  Whatever serves requests runs in a
    child, so that state a request leaves behind in the *process* (a class attribute, a module global) cannot
    reach the next measurement — and shows up as a difference between a pristine and a used process."""
    import pickle
    rfd, wfd = os.pipe()
    pid = os.fork()
    if pid == 0:
        code = 0
        try:
            os.close(rfd)
            if os.environ.get('COVERAGE_PROCESS_START'):
                _child_coverage_start()
            try:
                data = pickle.dumps(('ok', fn(*args)))
            except BaseException:      # noqa
                import traceback
                data = pickle.dumps(('error', traceback.format_exc()))
                code = 1
            with os.fdopen(wfd, 'wb') as f:
                f.write(data)
        finally:
            if os.environ.get('COVERAGE_PROCESS_START'):
                try:                    # tools/covreport.py: the forked child reports the lines it executed
                    import coverage
                    cov = _CHILD_COV.get('cov') or coverage.Coverage.current()
                    if cov is not None:
                        cov.stop()
                        cov.save()
                except Exception:       # noqa
                    pass
            os._exit(code)
    os.close(wfd)
    with os.fdopen(rfd, 'rb') as f:
        data = f.read()
    _, status = os.waitpid(pid, 0)
    if not data:
        raise ChildDied(status)
    kind, val = pickle.loads(data)
    if kind == 'error':
        raise core.Infra('child process failed in %s:\n%s' % (getattr(fn, '__name__', fn), val))
    return val


def _oracle_alone(req):
    w = make_instance(req['fx'])
    cold = call(w, req)
    warm = call(w, req)
    return cold, warm


def _oracle_after_others(fx, reqs):
    w = make_instance(fx)
    for r in reqs:
        call(w, r)
    return [call(w, r) for r in reqs]


# ====================================================================================== running cases

def instrument_locks(run, w):
    """replace every lock owned by the shared objects by a scheduler-aware one"""
    from spyne.util.memo import memoize
    names = []
    w._mtx_build_interface_document = SLock(run, 'wsdl_mtx')
    objs = [w, w.app, w.app.in_protocol, w.app.out_protocol, w.app.interface, w.app.interface.docs,
            getattr(w.app.interface.docs, 'wsdl11', None), getattr(w.app.interface.docs, 'xml_schema', None)]
    for o in objs:
        if o is None or not hasattr(o, '__dict__'):
            continue
        for k, v in list(vars(o).items()):
            if isinstance(v, _LOCK_TYPES):
                setattr(o, k, SLock(run, '%s.%s' % (type(o).__name__, k), reentrant=isinstance(v, _LOCK_TYPES[1])))
                names.append('%s.%s' % (type(o).__name__, k))
    for i, m in enumerate(memoize.registry):
        m.lock = SLock(run, 'memo%d' % i, reentrant=True)
    return names


def inject_failures(run, env, w, inject):
    """make the first k executions of the WSDL build raise a transient error.
    inject = ['schema', k]   : build_schema_nodes raises (nothing built yet)            = model `early`
             ['listener', k] : a 'wsdl_document_built' listener raises (elements exist) = model `late`"""
    if not inject:
        return None
    kind, k = inject
    st = {'left': k, 'on': True}
    w11 = w.app.interface.docs.wsdl11

    def fire():
        if st['on'] and st['left'] > 0:
            st['left'] -= 1
            run.log(run.cur, 'inject', kind)
            if kind == 'listener' and env.w_build_pc is not None:
                run.log(run.cur, 'w', env.w_build_pc[2])      # the model's buildPublish step is where a late failure raises
            raise OSError('C12: injected transient failure (%s)' % kind)
    if kind == 'schema':
        orig = w11.build_schema_nodes

        def build_schema_nodes(*a, **kw):
            fire()
            return orig(*a, **kw)
        w11.build_schema_nodes = build_schema_nodes
    else:
        w11.event_manager.add_listener('wsdl_document_built', lambda *a: fire())
    return st


class Harness:
    def __init__(self, ctx, facts):
        self.ctx, self.facts = ctx, facts
        self.env = Env(facts['wsdl'], facts['roles'], facts['val'])
        self.universe = {(r['fx'], r['name']): r for r in request_universe()}
        self._oracle = {}
        self.runs = 0
        self.report = lambda fid, what, obj: (ctx.hit('t3-fail:' + fid), ctx.finding(fid, what, obj))

    # ---- sequential oracle
    def build_oracle(self):
        """the response of every request of the universe when it is processed alone by a fresh instance in a
        pristine process; must not depend on history (same instance again; instance that served the others)"""
        by_fx = {}
        for r in self.universe.values():
            by_fx.setdefault(r['fx'], []).append(r)
        for fx, reqs in by_fx.items():
            others = in_child(_oracle_after_others, fx, reqs)
            for r, other in zip(reqs, others):
                cold, warm = in_child(_oracle_alone, r)
                self._oracle[(r['fx'], r['name'])] = cold
                if not (cold == warm == other):
                    # even without threads the response depends on what the instance served before
                    self.report('history-dependent:' + r['fx'],
                                'request %s gets a different response from a fresh instance, from the same instance again '
                                'and from an instance that has served the other requests (sequentially, one thread)' % r['name'],
                                {'fx': r['fx'], 'reqs': [r['name']], 'mode': 'sequential',
                                 'detail': {'fresh': show_resp(cold), 'again': show_resp(warm), 'after_others': show_resp(other)}})

    def oracle(self, req):
        k = (req['fx'], req['name'])
        if k not in self._oracle:
            self._oracle[k] = in_child(_oracle_alone, req)[0]
        return self._oracle[k]

    # ---- one scheduled run
    def run_case(self, fx, reqs, policy, mode='all', inject=None):
        self.runs += 1
        env = self.env
        w = make_instance(fx)
        run = Run(env, len(reqs), policy, mode)
        env.new_run(w)
        instrument_locks(run, w)
        inj = inject_failures(run, env, w, inject)
        try:
            res = run.go([(lambda r=r: call(w, r)) for r in reqs])
        finally:
            reset_global_caches()
        run.trace[:] = [env.resolve(e) for e in run.trace]
        if inj is not None:
            inj['on'] = False
        out = {'inject': inject, 'fx': fx, 'reqs': [r['name'] for r in reqs], 'responses': res, 'trace': run.trace,
               'failure': run.failure, 'errors': [None if e is None else '%s: %s' % (type(e).__name__, e) for e in run.err],
               'npoints': run.npoints, 'w': w, 'decisions': run.decisions, 'switches': run.switches, 'mode': mode}
        out['builds'] = sum(1 for e in run.trace if (e[1] == 'build') or (e[1] == 'w' and e[2] in env.begin_pcs))
        return out

    # ---- T3: the property on the real run
    def check_property(self, case, sched_desc):
        """returns a list of (finding id, what, detail)"""
        bad = []
        reqs = [self.universe[(case['fx'], n)] for n in case['reqs']]
        raised = [e[0] for e in case['trace'] if e[1] == 'inject']
        if case['failure']:
            live = [i for i, r in enumerate(case['responses']) if r is None]
            bad.append(('deadlock' if case['failure'] == 'deadlock' else 'hang',
                        'threads %s never get an answer: %s (every live thread is blocked)%s' % (
                            [reqs[i]['name'] for i in live], case['failure'],
                            '; the build of thread %s raised an injected transient error' % raised if raised else ''),
                        {'unanswered_threads': live, 'raised_in': raised}))
            return bad
        for i, r in enumerate(reqs):
            exp = self.oracle(r)
            got = case['responses'][i]
            if case['errors'][i]:
                bad.append(('crash:%s' % r['kind'], 'request %s raised %s out of the WSGI callable' % (r['name'], case['errors'][i]),
                            {'thread': i}))
            elif r['kind'] == 'wsdl' and i in raised and got is not None and str(got[0]).startswith('500'):
                pass        # its own build raised: the except clause answers 500
            elif got != exp:
                fid = 'wsdl-differs' if r['kind'] == 'wsdl' else 'response-differs:' + self.classify_diff(r, exp, got)
                bad.append((fid, 'thread %d (%s) received a response that differs from the one it receives alone' % (i, r['name']),
                            {'thread': i, 'expected': show_resp(exp), 'got': show_resp(got)}))
        # the auxiliary method of a request runs exactly once, with that request's arguments
        for i, r in enumerate(reqs):
            if r.get('aux') is not None and case['responses'][i] is not None:
                seen = [list(e[2:]) for e in case['trace'] if e[0] == i and e[1] == 'aux']
                if seen != [list(r['aux'])]:
                    bad.append(('aux-context', 'the auxiliary method of thread %d (%s) ran with %s instead of once with %s' % (
                        i, r['name'], seen, r['aux']), {'thread': i}))
        if case['builds'] - len(raised) > 1:
            bad.append(('wsdl-built-2-times', 'build_interface_document ran %d times (%d of them raised)' % (case['builds'], len(raised)), {}))
        if not bad:
            # the instance must still answer every request of the run correctly afterwards
            w = case['w']
            for i, r in enumerate(reqs):
                again = call(w, r)
                if again != self.oracle(r):
                    fid = 'poisoned:wsdl' if r['kind'] == 'wsdl' else 'poisoned:' + self.classify_diff(r, self.oracle(r), again)
                    bad.append((fid, 'after the run the instance answers %s differently from a fresh one' % r['name'],
                                {'thread': i, 'expected': show_resp(self.oracle(r)), 'got': show_resp(again)}))
                    break
        return bad

    def classify_diff(self, req, exp, got):
        if got is None:
            return 'none'
        if exp[0] != got[0]:
            return 'status'
        if b'SchemaValidationError' in exp[2]:
            return 'schema-error-text'
        return req['fx']

    # ---- T2: the run as the model sees it
    def model_query(self, case):
        """(query for the driver, observation to compare with the answer)"""
        env = self.env
        reqs = [self.universe[(case['fx'], n)] for n in case['reqs']]
        n = len(reqs)
        # threads 0..n-1: the requests; n..2n-1: companions carrying the cache operations a ?wsdl thread performs
        # while it builds the document; 2n: a start-up thread that fills the entries present before the run
        progs = [[] for _ in range(2 * n + 1)]
        obs = [[] for _ in range(n)]
        hits = [[] for _ in range(n)]
        wpcs = [[] for _ in range(n)]
        sched = []
        seen_keys = set()
        for e in case['trace']:
            tid, kind = e[0], e[1]
            if kind == 'w':
                if reqs[tid]['kind'] == 'wsdl':
                    sched.append(tid)
                    wpcs[tid].append(e[2])
            elif kind == 'r':
                op = e[2]
                mt = tid if reqs[tid]['kind'] != 'wsdl' else n + tid
                if op in ('setCtx', 'getCtx'):
                    progs[mt].append([op, e[3]])
                    sched.append(mt)
                    if op == 'getCtx' and mt == tid:
                        obs[tid].append(['scr', e[4]])
                    continue
                if op in ('validate', 'readErr'):
                    if op == 'readErr' and not (mt == tid and self.is_invalid(reqs[tid])):
                        continue        # the value read is discarded unless the validation failed
                    progs[mt].append([op])
                    sched.append(mt)
                    if op == 'readErr' and mt == tid:
                        got = case['responses'][tid]
                        obs[tid].append(['err', fault_text(got[2]) if got else None])
                else:
                    _, _, _, ckind, kid, pa, hit, val = e
                    if (ckind, kid) not in seen_keys:
                        seen_keys.add((ckind, kid))
                        if op == 'probe' and hit:       # present before the run started
                            progs[2 * n] += [['publish', ckind, kid, pa], ['complete', ckind, kid, pa]]
                    progs[mt].append([op, ckind, kid, pa])
                    sched.append(mt)
                    if op == 'publish' and ckind == 'bind' and mt == tid and hit and \
                            case['responses'][tid] != self.oracle(reqs[tid]):
                        obs[tid].append(['exc'])      # binding the already bound instance failed this request
                    if op == 'probe' and mt == tid:
                        hits[tid].append(hit)
                        obs[tid].append(['val', ckind, kid, val if hit else 'full'])
        sched = [2 * n] * len(progs[2 * n]) + sched
        q = {'op': 'sys.run', 'sched': sched, 'reqs': []}
        if case.get('inject'):
            q['fails'] = [{'schema': 'early', 'listener': 'late'}[case['inject'][0]]] * case['inject'][1]
        for i, r in enumerate(reqs):
            if r['kind'] == 'wsdl':
                q['reqs'].append({'kind': 'wsdl'})
            else:
                q['reqs'].append({'kind': 'rpc', 'arg': i, 'invalid': self.is_invalid(r), 'prog': progs[i]})
        for i in range(n, 2 * n + 1):
            q['reqs'].append({'kind': 'rpc', 'arg': i, 'invalid': False, 'prog': progs[i]})
        seqdoc = None
        real = {'builds': case['builds'], 'threads': [],
                'errtext': [fault_text(self.oracle(r)[2]) if self.is_invalid(r) else None for r in reqs],
                'cookie': [dict(self.oracle(r)[1] or []).get('Set-Cookie') for r in reqs]}
        for i, r in enumerate(reqs):
            if r['kind'] == 'wsdl':
                got = case['responses'][i]
                exp = self.oracle(r)
                cls = None if got is None else ('whole' if got == exp else 'truncated' if got[0] == exp[0] else 'error')
                real['threads'].append({'doc': cls, 'wpcs': wpcs[i]})
            else:
                real['threads'].append({'obs': obs[i], 'hits': hits[i]})
        return q, real

    def is_invalid(self, req):
        """the request fails schema validation by lxml (validate() returns False)"""
        return req['fx'] == 'soap' and b'SchemaValidationError' in self.oracle(req)[2]

    def compare(self, q, real, ans):
        """list of differences between the model's answer and the real run"""
        diffs = []
        if ans.get('builds') != real['builds']:
            diffs.append('builds model=%s real=%s' % (ans.get('builds'), real['builds']))
        mw = {}
        for tid, pc, skipped in ans.get('wsteps', []):
            if not skipped:
                mw.setdefault(tid, []).append(pc)
        for i, rt in enumerate(real['threads']):
            rq = q['reqs'][i]
            mresp = ans['responses'][i]
            if rq['kind'] == 'wsdl':
                mdoc = None if mresp is None else mresp.get('doc')
                if mdoc != rt['doc']:
                    diffs.append('thread %d doc model=%s real=%s' % (i, mdoc, rt['doc']))
                if mw.get(i, []) != rt['wpcs']:
                    diffs.append('thread %d wsdl steps model=%s real=%s' % (i, mw.get(i, []), rt['wpcs']))
            else:
                mobs = None if mresp is None else mresp.get('body')
                if mobs is not None:
                    # the model names the payload whose error text is read; the real run shows the text
                    mobs = [['err', 'None' if o[1] is None else (real['errtext'][o[1]] if o[1] < len(real['errtext']) else '?')] if o[0] == 'err' else
                            ['scr', None if o[1] is None else (real['cookie'][o[1]] if o[1] < len(real['cookie']) else '?')] if o[0] == 'scr' else o
                            for o in mobs]
                if mobs != rt['obs']:
                    diffs.append('thread %d observations model=%s real=%s' % (i, mobs, rt['obs']))
                if ans['hits'][i] != rt['hits']:
                    diffs.append('thread %d hit/miss model=%s real=%s' % (i, ans['hits'][i], rt['hits']))
        return diffs


def fault_text(body):
    import re
    m = re.search(rb'<faultstring>(.*?)</faultstring>', body, re.S)
    return m.group(1).decode('utf-8', 'replace') if m else None


# ====================================================================================== T1: shared writes

_PRIM = (int, float, str, bytes, bool, type(None), complex)
CACHES = ('._attrcache', '._sortcache', '<cdict>', '.memo')
WSDL_BUILD = ('transport._wsdl', 'docs.wsdl11', 'docs.xml_schema', 'interface.deps', '.docs.')


def snapshot(w):
    """fingerprint of every location reachable from the shared objects (bounded walk over __dict__,
    dicts, sequences; foreign objects by identity)"""
    import weakref
    from collections import deque
    from spyne.util.cdict import cdict
    from spyne.util.memo import memoize
    out, seen = {}, set()
    docs = w.app.interface.docs
    roots = [('transport', w), ('app', w.app), ('in', w.app.in_protocol), ('out', w.app.out_protocol),
             ('interface', w.app.interface), ('docs', docs)]
    for i, m in enumerate(memoize.registry):
        roots.append(('memoize[%s]' % getattr(m.func, '__name__', i), m))
    for i, pr in enumerate(ALT_PROT.values()):
        roots.append(('altprot%d' % i, pr))

    def walk(o, path, depth):
        if isinstance(o, _PRIM):
            out[path] = ('v', repr(o)[:60])
            return
        if isinstance(o, type) or callable(o) and not hasattr(o, '__dict__'):
            out[path] = ('c', id(o))
            return
        if id(o) in seen or depth > 7:
            out[path] = ('ref', id(o))
            return
        seen.add(id(o))
        if isinstance(o, (dict, weakref.WeakKeyDictionary)):
            tag = '<cdict>' if isinstance(o, cdict) else ''
            items = list(o.items())
            out[path + tag] = ('dict', type(o).__name__, len(items))
            for k, v in items:
                kn = getattr(k, '__name__', None) or repr(k)[:40]
                walk(v, '%s%s[%s#%x]' % (path, tag, kn, id(k) & 0xffff), depth + 1)
            return
        if isinstance(o, (list, tuple, set, frozenset, deque)):
            xs = list(o)
            out[path] = ('seq', type(o).__name__, len(xs), tuple(id(x) if not isinstance(x, _PRIM) else x for x in xs)
                         if not isinstance(o, (set, frozenset)) else
                         tuple(sorted(repr(x)[:60] if isinstance(x, _PRIM) else '%s@%x' % (type(x).__name__, id(x)) for x in xs)))
            if not isinstance(o, (set, frozenset)):
                for i, x in enumerate(xs[:50]):
                    walk(x, '%s[%d]' % (path, i), depth + 1)
            return
        mod = type(o).__module__ or ''
        if hasattr(o, '__dict__') and (mod.startswith('spyne') or mod.startswith('harness')):
            out[path] = ('obj', type(o).__name__, id(o))
            for k, v in list(vars(o).items()):
                walk(v, '%s.%s' % (path, k), depth + 1)
            return
        out[path] = ('o', type(o).__name__, id(o))
    for name, o in roots:
        walk(o, name, 0)
    # model classes: their own attribute tables (a request must not touch them)
    for cname, c in sorted(getattr(w.app.interface, 'classes', {}).items()):
        for k, v in list(vars(c).items()):
            if k.startswith('__') and k.endswith('__'):
                continue
            out['class[%s].%s' % (cname, k)] = ('v', repr(v)[:60]) if isinstance(v, _PRIM) else ('id', id(v)) \
                if not isinstance(v, (dict, list)) else ('len', len(v), id(v))
        a = getattr(c, 'Attributes', None)
        if a is not None:
            for k in dir(a):
                if not k.startswith('__'):
                    v = getattr(a, k, None)
                    out['class[%s].Attributes.%s' % (cname, k)] = ('v', repr(v)[:60]) if isinstance(v, _PRIM) else ('id', id(v))
    return out


def context_classes():
    """the per-request context classes of the loaded spyne modules (MethodContext, TransportContext and its
    HTTP/WSGI subclasses, ProtocolContext, EventContext, … and whatever a protocol or transport adds)"""
    out = {}
    for mn, m in list(sys.modules.items()):
        if m is None or not (mn == 'spyne' or mn.startswith('spyne.')) or mn.startswith('spyne.test'):
            continue
        for k, v in list(vars(m).items()):
            if isinstance(v, type) and k.endswith('Context') and (v.__module__ or '').startswith('spyne'):
                out['%s.%s' % (v.__module__, v.__name__)] = v
    return out


def _content(o, depth=0):
    """content (not identity) of a mutable object hanging off a class"""
    if isinstance(o, dict):
        return ('dict', tuple(sorted((repr(k)[:60], _content(v, depth + 1) if depth < 2 else repr(v)[:60]) for k, v in list(o.items()))))
    if isinstance(o, (list, set, frozenset)) or type(o).__name__ == 'deque':
        xs = list(o)
        return (type(o).__name__, tuple(_content(x, depth + 1) if depth < 2 else repr(x)[:60] for x in xs) if not isinstance(o, (set, frozenset))
                else tuple(sorted(repr(x)[:60] for x in xs)))
    if isinstance(o, _PRIM):
        return repr(o)[:60]
    if hasattr(o, '__dict__') and not isinstance(o, type) and not callable(o) and depth < 2:
        return (type(o).__name__, tuple(sorted((k, _content(v, depth + 1)) for k, v in list(vars(o).items()))))
    return (type(o).__name__,)


def context_class_cells():
    """every mutable object reachable from a context *class*: such a cell is shared by all requests"""
    out = {}
    for cn, c in context_classes().items():
        for k, v in list(vars(c).items()):
            if k.startswith('__') and k.endswith('__'):
                continue
            if isinstance(v, (dict, list, set)) or type(v).__name__ in ('deque', 'defaultdict', 'OrderedDict') or \
                    (hasattr(v, '__dict__') and not isinstance(v, type) and not callable(v)
                     and not isinstance(v, (property, staticmethod, classmethod))):
                out['%s.%s' % (cn, k)] = _content(v)
    return out


def shared_writes():
    """(locations written while serving requests outside the modelled caches,
        context-class cells mutated by a request)"""
    found = {}
    ctx_cells = {}
    universe = request_universe()
    for fx in ('soap', 'soft', 'http', 'xml', 'jrpc', 'yaml'):
        w = make_instance(fx)
        reqs = [r for r in universe if r['fx'] == fx]
        for rnd in ('cold', 'warm'):
            for r in reqs:
                before = snapshot(w)
                cbefore = context_class_cells()
                call(w, r)
                after = snapshot(w)
                cafter = context_class_cells()
                for p in set(cbefore) | set(cafter):
                    if cbefore.get(p) != cafter.get(p):
                        ctx_cells.setdefault(p, '%s request %s:%s' % (rnd, fx, r['name']))
                for p in set(before) | set(after):
                    if before.get(p) != after.get(p):
                        allowed = any(c in p for c in CACHES) or ('altprot' in p and '__app' in p)   # the modelled `bind` cell
                        if r['kind'] == 'wsdl' and any(c in p for c in WSDL_BUILD):
                            allowed = True      # the builder's own state, written inside the locked region
                        if not allowed:
                            loc = '%s:%s' % (fx, _strip_ids(p))
                            found.setdefault(loc, '%s request %s (%s)' % (rnd, r['name'], after.get(p, 'deleted')[0]))
    reset_global_caches()
    return found, ctx_cells


def _strip_ids(p):
    import re
    return re.sub(r'#[0-9a-f]+\]', ']', p)


# ====================================================================================== policies from witnesses

class AfterEvent:
    """run thread `tid` until the segment that executes its j-th event matching `pred` is over, then
    follow `then` (a policy)"""

    def __init__(self, tid, pred, j, then):
        self.tid, self.pred, self.j, self.then = tid, pred, j, then
        self.fired = False
        self.seen = 0
        self.pos = 0

    def __call__(self, run, cur, en):
        if not self.fired:
            tr = run.trace
            while self.pos < len(tr):
                e = tr[self.pos]
                self.pos += 1
                if e[0] == self.tid and self.pred(e):
                    self.seen += 1
            if self.seen >= self.j or self.tid not in en:
                self.fired = True
            else:
                return self.tid
        return self.then(run, cur, en)


def decisions_policy(decisions):
    it = iter(decisions)

    def pol(run, cur, en):
        for t in it:
            if t in en:
                return t
        return cur if cur in en else en[0]
    return pol


# ====================================================================================== facts -> Lean

LEAN_INSTR = {'loadCache': '.loadCache .%s', 'loadPub': '.loadPub .%s', 'storeCache': '.storeCache .%s',
              'mov': '.mov .%s .%s', 'jmpIfSome': '.jmpIfSome .%s %s', 'jmpIfNone': '.jmpIfNone .%s %s', 'jmp': '.jmp %s',
              'acquire': '.acquire', 'release': '.release', 'buildBegin': '.buildBegin', 'buildPorts': '.buildPorts',
              'buildPublish': '.buildPublish', 'respond': '.respond .%s', 'opaque': '.opaque', 'tryEnter': '.tryEnter %s',
              'tryLeave': '.tryLeave', 'respondErr': '.respondErr', 'reraise': '.reraise'}

EXPECTED = ['loadCache t', 'jmpIfSome t 5', 'loadPub t', 'jmpIfNone t 5', 'storeCache t', 'loadCache w', 'jmpIfSome w 22',
            'tryEnter 20', 'acquire', 'loadCache w', 'jmpIfSome w 17', 'buildBegin', 'buildPorts', 'buildPublish', 'loadPub t',
            'mov w t', 'storeCache t', 'tryLeave', 'release', 'respond w', 'release', 'respondErr', 'respond w']


def lean_instr(s):
    p = s.split()
    return LEAN_INSTR[p[0]] % tuple(p[1:])


def measure_facts():
    wsdl = extract_wsdl()
    roles = extract_roles()
    val = extract_validator()
    order = {}
    for r in roles:
        prev = order.get(r.kind)
        # several functions fill the memo tables: the kind is good only if all of them are
        order[r.kind] = r.order if prev in (None, 'afterInit') else prev
    parked, ctx_cells = in_child(shared_writes)
    return {'wsdl': wsdl, 'roles': roles, 'val': val, 'order': order, 'parked': parked, 'ctx_cells': ctx_cells,
            'rebindRaises': in_child(rebind_raises),
            'skeleton': wsdl['instrs'], 'builderResets': wsdl['builder_resets'], 'errRead': val['mode']}


def facts_lean(f):
    o = f['order']

    def po(k):
        return '.afterInit' if o.get(k) == 'afterInit' else '.beforeInit'
    return '''-- GENERATED by harness/c12.py (T1) from /repo on every run. Do not edit.
import SpyneModel.ConcSys
namespace SpyneModel.Generated
open SpyneModel.Conc

def facts12 : Facts12 where
  wsdlSkeleton := [
    %s ]
  builderResets := %s
  attrPublish := %s
  sortPublish := %s
  memoPublish := %s
  cdictPublish := %s
  bindPublish := %s
  rebindRaises := %s
  errRead := %s
  parked := [%s]
  sharedContextCells := [%s]

end SpyneModel.Generated
''' % (',\n    '.join(lean_instr(i) for i in f['skeleton']), 'true' if f['builderResets'] else 'false',
       po('attr'), po('sort'), po('memo'), po('cdict'), po('bind'), 'true' if f['rebindRaises'] else 'false',
       '.underLock' if f['errRead'] == 'underLock' else '.racy',
       ', '.join(json.dumps(p) for p in sorted(f['parked'])), ', '.join(json.dumps(p) for p in sorted(f['ctx_cells'])))


# ====================================================================================== main

GOOD_ORDER = {'attr': 'afterInit', 'sort': 'afterInit', 'memo': 'afterInit', 'cdict': 'afterInit', 'bind': 'afterInit'}
SHARED_OPS = ('loadCache', 'loadPub', 'storeCache', 'acquire', 'release', 'buildBegin', 'buildPorts', 'buildPublish')


def is_val(e):
    return e[1] == 'r' and e[2] == 'validate'


def is_pub(e):
    return e[1] == 'r' and e[2] == 'publish'


def is_pub_pa(e):
    """publication of an entry whose value is completed later: an attrcache entry of a class with protocol
    attributes, or any sortcache entry (the list may still be unsorted)"""
    return e[1] == 'r' and e[2] == 'publish' and ((e[3] == 'attr' and e[5]) or e[3] == 'sort')


def make_policy(spec):
    """schedules are described by JSON-able specs so that a run can be named before it is executed"""
    k = spec[0]
    if k == 'legs':
        return Legs(spec[1])
    if k == 'seq':
        return Seq(spec[1])
    if k == 'decisions':
        return decisions_policy(spec[1])
    if k == 'after-validate':       # thread 0 validates, thread 1 validates, thread 0 reads the error text
        return AfterEvent(0, is_val, 1, AfterEvent(1, is_val, 1, Legs([(0, None), (1, None)])))
    if k == 'after-publish':   # thread 0 stores its j-th cache entry with protocol attributes, thread 1 runs
        return AfterEvent(0, is_pub_pa, spec[1], Legs([(1, None), (0, None)]))
    if k == 'after-bind-probe':
        return AfterEvent(0, lambda e: e[1] == 'r' and e[2] == 'probe' and e[3] == 'bind', 1, Legs([(1, None), (0, None)]))
    if k == 'after-any-publish':
        return AfterEvent(0, is_pub, spec[1], Legs([(1, None), (0, None)]))
    raise core.Infra('unknown schedule spec %r' % (spec,))


class Sink:
    """line-buffered JSON records from a worker process to the check process"""

    def __init__(self, path):
        self.f = open(path, 'w')

    def emit(self, **kw):
        self.f.write(json.dumps(kw, default=str) + '\n')
        self.f.flush()


class Executor:
    def __init__(self, H, sink):
        self.H, self.sink, self.n = H, sink, 0
        H.report = lambda fid, what, obj: sink.emit(t='finding', fid=fid, what=what, obj=obj)

    def execute(self, fx, names, spec, mode, desc, inject=None):
        H = self.H
        U = H.universe
        self.sink.emit(t='start', fx=fx, reqs=names, spec=spec, mode=mode, sched=desc, inject=inject)
        reqs = [U[(fx, n)] for n in names]
        kinds = ['wsdl' if r['kind'] == 'wsdl' else 'schema-invalid' if H.is_invalid(r) else
                 'ok' if H.oracle(r)[0].startswith('200') else 'fault' for r in reqs]
        try:
            case = in_child(self._run, fx, names, spec, mode, desc, inject)     # every run in a pristine process
        except ChildDied as e:
            st = e.args[0]
            sig = st & 0x7f
            case = {'decisions': None, 'switches': 0, 'failure': 'crash', 'npoints': [0] * len(names), 'npub': 0, 'npub_pa': 0,
                    'findings': [('interpreter-crash', 'the Python process was killed (%s) while %d threads served %s under schedule %s'
                                  % ('signal %d' % sig if sig else 'status %d' % st, len(names), names, desc), {'spec': spec})],
                    'q': None, 'real': None}
        self.n += 1
        self.sink.emit(t='case', fx=fx, reqs=names, mode=mode, sched=desc, decisions=case['decisions'], spec=spec, inject=inject,
                       switches=case['switches'], kinds=kinds, findings=case['findings'], q=case['q'], real=case['real'])
        return case

    def _run(self, fx, names, spec, mode, desc, inject=None):
        H = self.H
        reqs = [H.universe[(fx, n)] for n in names]
        case = H.run_case(fx, reqs, make_policy(spec), mode, inject)
        findings = H.check_property(case, desc)
        q = real = None
        if not case['failure']:
            q, real = H.model_query(case)
        tr = case['trace']
        return {'decisions': case['decisions'], 'switches': case['switches'], 'failure': case['failure'],
                'npoints': case['npoints'], 'npub': sum(1 for e in tr if is_pub(e)), 'npub_pa': sum(1 for e in tr if is_pub_pa(e)),
                'findings': findings, 'q': q, 'real': real}


# ---------------------------------------------------------------------------------------- phases (run in worker processes)

def phase_wsdl(E, rng, T, firsts=(0, 1), fx_list=('soap', 'soft')):
    """the WSDL handler alone: schedules over the shared accesses of the extracted skeleton"""
    nsteps = sum(1 for i in E.H.facts['skeleton'] if i.split()[0] in SHARED_OPS) + 1
    wn = ['wsdl', 'wsdl2']
    for fx in fx_list:
        # two requesters: every schedule with at most two pre-emptions
        for first in firsts:
            other = 1 - first
            for a in range(0, nsteps):
                bs = range(0, nsteps) if fx == 'soap' or T > 1 else (0, 1, 2, 3, nsteps - 1)
                for b in bs:
                    E.execute(fx, wn, ['legs', [[first, a], [other, b], [first, None], [other, None]]], 'wsdl',
                              'wsdl-2thr-2preempt')
    for nthr in ((3, 4) if not firsts else ()):
        names = ['wsdl', 'wsdl2', 'wsdl', 'wsdl2'][:nthr]
        for _ in range(60 * T):
            order = list(range(nthr))
            rng.shuffle(order)
            legs = [[order[0], rng.randrange(nsteps)], [order[1], rng.randrange(nsteps)]] + [[t, None] for t in order[2:]] + \
                   [[order[0], None], [order[1], None]]
            E.execute('soap', names, ['legs', legs], 'wsdl', 'wsdl-%dthr' % nthr)
        for _ in range(30 * T):
            E.execute('soap', names, ['seq', [rng.randrange(nthr) for _ in range(rng.randrange(5, 60))]], 'wsdl',
                      'wsdl-%dthr-random' % nthr)


def phase_wsdl_failures(E, rng, T):
    """fault injection: the first k lazy builds raise (before anything is built / after the elements exist) while
    other requesters race or wait for the lock; every single pre-emption, sampled double ones, 3 threads, + an rpc"""
    nsteps = sum(1 for i in E.H.facts['skeleton'] if i.split()[0] in SHARED_OPS) + 1
    wn = ['wsdl', 'wsdl2']
    for fx in (('soap', 'soft') if T > 1 else ('soap',)):
        for kind in ('schema', 'listener'):
            for first in (0, 1):
                other = 1 - first
                for a in range(0, nsteps):
                    E.execute(fx, wn, ['legs', [[first, a], [other, None], [first, None]]], 'wsdl', 'wsdl-fail-1preempt', [kind, 1])
            for _ in range(25 * T):
                a, b = rng.randrange(nsteps), rng.randrange(nsteps)
                E.execute(fx, wn, ['legs', [[0, a], [1, b], [0, None], [1, None]]], 'wsdl', 'wsdl-fail-2preempt',
                          [kind, rng.choice([1, 1, 2])])
            for _ in range(12 * T):
                names = ['wsdl', 'wsdl2', 'wsdl']
                E.execute(fx, names, ['seq', [rng.randrange(3) for _ in range(rng.randrange(5, 50))]], 'wsdl', 'wsdl-fail-3thr',
                          [kind, rng.choice([1, 2, 3])])
            for _ in range(6 * T):
                names = ['wsdl', rng.choice(['add(1,2)', 'echo(n,3)', 'add(x,2)']), 'wsdl2']
                sched = []
                while len(sched) < 300:
                    sched += [rng.randrange(3)] * rng.choice([1, 2, 3, 5, 8, 20])
                E.execute(fx, names, ['seq', sched], 'all', 'mixed-fail-random', [kind, 1])


def phase_witness(E, rng, T, part='errlog'):
    """the witness schedules of the validator and cache theorems, on suitable request pairs"""
    U = E.H.universe
    if part == 'cache':
        return phase_witness_cache(E, rng, T)
    soap_all = [r['name'] for r in U.values() if r['fx'] == 'soap']
    invalid = [n for n in soap_all if E.H.is_invalid(U[('soap', n)])]
    for a in invalid:
        others = [b for b in soap_all if b not in invalid and (T > 1 or U[('soap', b)]['kind'] != 'wsdl')]
        partners = invalid + (others if T > 1 else rng.sample(others, min(6, len(others))))
        for b in partners:
            E.execute('soap', [a, b], ['after-validate'], 'all', 'witness-errlog')


def phase_witness_cache(E, rng, T):
    U = E.H.universe
    # two first users of the not yet bound alternate protocol: the first is pre-empted between its test and its bind
    for a, b in (('asxml(k)', 'asxml(mm)'), ('asxml(mm)', 'asxml(k)'), ('asxml(k)', 'asxml(k)')):
        E.execute('http', [a, b], ['after-bind-probe'], 'all', 'witness-protocol-bind')
    http_all = [r['name'] for r in U.values() if r['fx'] == 'http']
    for a in http_all:
        seqcase = E.execute('http', [a], ['legs', [[0, None]]], 'all', 'sequential')
        npub = seqcase['npub_pa']
        for b in http_all:
            for j in range(1, npub + 1):
                E.execute('http', [a, b], ['after-publish', j], 'all', 'witness-cache-publish')


def phase_publish_sweep(E, rng, T, fx):
    """witness set of the cache theorem: a second request runs right after every single publication of a first one"""
    U = E.H.universe
    names_all = [r['name'] for r in U.values() if r['fx'] == fx and r['kind'] != 'wsdl']
    for a in names_all:
        seqcase = E.execute(fx, [a], ['legs', [[0, None]]], 'all', 'sequential')
        npub = seqcase['npub']
        partners = [a] + [rng.choice(names_all) for _ in range(T - 1)]
        for b in partners:
            for j in range(1, npub + 1):
                E.execute(fx, [a, b], ['after-any-publish', j], 'all', 'witness-every-publish')


CONTEXT_PAIRS = {
    'soap': [('teapot(x)', 'add(1,2)'), ('login(bob)', 'whoami(al)'), ('hdr(T1,x)', 'hdr(T2,y)'), ('gen(3)', 'teapot(x)'),
             ('add(1,2)', 'add(40,2)'), ('hdr(T3,oops)', 'genfault(2)')],
    'jrpc': [('jsay(A,2)', 'jfault'), ('jsay(A,2)', 'jsay(B,3)'), ('jboom(x)', 'jlogin(bob)')],
    'xml': [('xadd(x,2)', 'xtypes'), ('xpart(c7)', 'xboom(e)')],
    'yaml': [('yecho(surrogate)', 'yecho(astral)'), ('yboom(surrogate)', 'yecho(nel)'), ('yecho(astral)', 'yecho(plain)')],
    'http': [('hteapot(y)', 'hadd(1,2)'), ('hlogin(bob)', 'hwhoami(al)'), ('asxml(k)', 'make(a,3)'), ('hgen(2)', 'hlogin(eve)')],
}


def phase_context_sweep(E, rng, T, fx):
    """per-request state (status, response headers, SOAP headers, aux contexts, output protocol, lazily produced body):
    two requests that differ in it; the first is pre-empted at evenly spread points of its whole run (every point in
    the thorough tier), the second runs to completion in between"""
    pairs = [(fx, p) for p in CONTEXT_PAIRS[fx]] if fx != 'other' else \
        [(f, p) for f in ('jrpc', 'xml', 'yaml') for p in CONTEXT_PAIRS[f]]
    for fx, (a, b) in pairs:
        for x, y in ((a, b), (b, a)):
            base = E.execute(fx, [x, y], ['legs', [[0, None], [1, None]]], 'all', 'sequential')
            n_first = max(1, base['npoints'][0])
            stride = 1 if T > 1 and n_first < 400 else max(1, n_first // (20 * T))
            off = rng.randrange(stride)
            for k in range(off, n_first + 1, stride):
                E.execute(fx, [x, y], ['legs', [[0, k], [1, None], [0, None]]], 'all', 'context-1preempt')


def phase_mixed(E, rng, T, fx):
    """mixed requests: 1 and 2 pre-emptions at sampled statement boundaries of the shared-state code, random schedules"""
    U = E.H.universe
    names_all = [r['name'] for r in U.values() if r['fx'] == fx]
    tuples = []
    for n in names_all:                     # every request next to itself (thorough) and to a random partner
        if T > 1:
            tuples.append([n, n])
        tuples.append([n, rng.choice(names_all)])
    for _ in range(6 * T):
        tuples.append([rng.choice(names_all) for _ in range(3)])
    for _ in range(4 * T):
        tuples.append([rng.choice(names_all) for _ in range(4)])
    rng.shuffle(tuples)
    deadline = time.time() + (1500 if T > 1 else 400)   # safety net only (a saturated machine); the counts above are the budget
    for names in tuples:
        if time.time() > deadline:
            E.sink.emit(t='hit', key='budget-cut:' + fx)
            break
        nthr = len(names)
        base = E.execute(fx, names, ['legs', [[t, None] for t in range(nthr)]], 'all', 'sequential')
        n_first = max(1, base['npoints'][0])
        ks = sorted(set([rng.randrange(n_first + 1) for _ in range(3 * T)] + [rng.randrange(min(40, n_first) + 1)]))
        for k in ks:
            rest = list(range(1, nthr))
            rng.shuffle(rest)
            E.execute(fx, names, ['legs', [[0, k]] + [[t, None] for t in rest] + [[0, None]]], 'all', 'mixed-1preempt')
        for _ in range(2 * T - 1):
            k1, k2 = rng.randrange(n_first + 1), rng.randrange(max(1, base['npoints'][1]) + 1)
            E.execute(fx, names, ['legs', [[0, k1], [1, k2]] + [[t, None] for t in range(2, nthr)] + [[0, None], [1, None]]],
                      'all', 'mixed-2preempt')
        for _ in range(2 * T - 1):
            sched = []
            while len(sched) < 400:
                sched += [rng.randrange(nthr)] * rng.choice([1, 1, 2, 3, 5, 8, 13, 40])
            E.execute(fx, names, ['seq', sched], 'all', 'mixed-random')


def _stress_round(H, fx, names):
    U = H.universe
    reqs = [U[(fx, n)] for n in names]
    sys.setswitchinterval(1e-6)
    w = make_instance(fx)
    res = [None] * len(reqs)
    builds = [0]
    w11 = w.app.interface.docs.wsdl11
    orig = w11.build_interface_document

    def counted(url, orig=orig):
        builds[0] += 1
        return orig(url)
    w11.build_interface_document = counted
    bar = threading.Barrier(len(reqs))

    def body(k):
        bar.wait()
        try:
            res[k] = call(w, reqs[k])
        except BaseException as e:      # noqa
            res[k] = ('exception', None, ('%s: %s' % (type(e).__name__, e)).encode())
    ths = [threading.Thread(target=body, args=(k,), daemon=True) for k in range(len(reqs))]
    [t.start() for t in ths]
    [t.join(20) for t in ths]
    findings = []
    for k, r in enumerate(reqs):
        if res[k] != H.oracle(r):
            fid = 'wsdl-differs' if r['kind'] == 'wsdl' else 'response-differs:' + H.classify_diff(r, H.oracle(r), res[k])
            findings.append((fid, 'free-running thread %d (%s) received a response that differs from the sequential one' % (k, r['name']),
                             {'thread': k, 'expected': show_resp(H.oracle(r)), 'got': show_resp(res[k])}))
    if builds[0] > 1:
        findings.append(('wsdl-built-2-times', 'build_interface_document ran %d times (free-running)' % builds[0], {}))
    return findings


def phase_stress(E, rng, T):
    """unscheduled real threads, real locks, tiny switch interval; every round in a pristine process"""
    H = E.H
    U = H.universe
    for i in range(40 * T):
        fx = ('soap', 'soft', 'http', 'xml', 'jrpc', 'yaml')[i % 6]
        names_all = [r['name'] for r in U.values() if r['fx'] == fx]
        names = [rng.choice(names_all) for _ in range(4)]
        if fx in ('soap', 'soft'):
            names[0] = 'wsdl'
            names[1] = rng.choice(['wsdl2', names[1]])
        E.sink.emit(t='start', fx=fx, reqs=names, spec=['free-running'], mode='stress', sched='stress')
        try:
            findings = in_child(_stress_round, H, fx, names)
        except ChildDied as e:
            findings = [('interpreter-crash', 'the Python process was killed (status %s) while 4 free-running threads served %s'
                         % (e.args[0], names), {})]
        E.sink.emit(t='case', fx=fx, reqs=names, mode='stress', sched='stress', decisions=None, switches=0, kinds=[],
                    findings=findings, q=None, real=None, round=i)


def worker(H, path, fn, seed, args):
    import random
    import traceback
    sink = Sink(path)
    try:
        t0 = time.time()
        fn(Executor(H, sink), random.Random(seed), *args)
        sink.emit(t='done', secs=round(time.time() - t0, 1))
    except BaseException:       # noqa
        sink.emit(t='error', tb=traceback.format_exc())
        raise


def run(ctx):
    import multiprocessing
    logging.disable(logging.CRITICAL)       # the code under test logs every fault with a traceback
    T = 6 if ctx.thorough else 1

    # ---------------------------------------------------------------- T1
    f = measure_facts()
    ctx.write_generated('Facts12.lean', facts_lean(f))
    H = Harness(ctx, f)
    env = H.env
    ctx.cov['facts'] = {'skeleton': f['skeleton'], 'skeleton_notes': f['wsdl']['notes'], 'builderResets': f['builderResets'],
                        'order': f['order'], 'rebindRaises': f['rebindRaises'], 'errRead': f['errRead'], 'parked': f['parked'], 'sharedContextCells': f['ctx_cells'],
                        'context_classes': sorted(context_classes()),
                        'skeleton_is_expected': f['skeleton'] == EXPECTED}
    ctx.assumptions += [
        'one modelled step = one Python-level load/store of a shared attribute or one call boundary; the GIL makes those atomic',
        'not covered by the model: CPython atomicity below statement level, lxml releasing the GIL inside XMLSchema.validate, '
        'WeakKeyDictionary internals, memory effects; exception paths of the WSDL handler (a failing build); the locks of '
        'memoize and the validator lock are abstracted (validate+read atomic when both are inside one with-block)',
        'switch points of the real scheduler: statement boundaries, calls and returns inside the anchored functions '
        '(handle_wsdl_request and the methods it delegates to, get/build_interface_document, get_cls_attrs, sort_fields, '
        'memoize.__call__, cdict.__getitem__, __validate_lxml); the locks of the instance are replaced by scheduler-aware locks']
    bad_facts = []
    if f['skeleton'] != EXPECTED:
        bad_facts.append('wsdlSkeleton')
    if not f['builderResets']:
        bad_facts.append('builderResets=false')
    for k, g in GOOD_ORDER.items():
        if f['order'].get(k) != g:
            bad_facts.append('%sPublish=%s' % (k, f['order'].get(k)))
    if f['errRead'] != 'underLock':
        bad_facts.append('errRead=racy')
    if f['rebindRaises']:
        bad_facts.append('rebindRaises')
    if f['parked']:
        bad_facts.append('parked')
    if f['ctx_cells']:
        bad_facts.append('sharedContextCells')
    for b in bad_facts:
        ctx.hit('fact-bad:' + b)
    if env.unmarked:
        ctx.log('T1: shared instructions without a switch point:', env.unmarked)
    ctx.log('T1: skeleton %s, order %s, errRead %s, parked %d, shared context cells %s' % (
        'as expected' if f['skeleton'] == EXPECTED else 'NOT the expected one', f['order'], f['errRead'], len(f['parked']),
        sorted(f['ctx_cells']) or 'none'))

    # ---------------------------------------------------------------- proof
    ctx.prove()
    drv = ctx.model([{'op': 'facts'}])[0]
    if drv.get('skeleton') != f['skeleton'] or drv.get('isExpected') != (f['skeleton'] == EXPECTED) or \
            drv.get('good') != (not bad_facts):
        raise core.Infra('the Lean driver and the harness disagree about the regenerated facts: %r vs %r' % (drv, bad_facts))

    H.build_oracle()

    # ---------------------------------------------------------------- T2/T3 in worker processes (a crash of the interpreter
    # under some schedule must not take the check down)
    scratch = os.path.join(core.VERIF, '.scratch', 'c12-%d' % os.getpid())
    os.makedirs(scratch, exist_ok=True)
    phases = [('wsdl-a', phase_wsdl, ((0,),)), ('wsdl-b', phase_wsdl, ((1,),)), ('wsdl-n', phase_wsdl, ((),)), ('wsdl-fail', phase_wsdl_failures, ()), ('witness-errlog', phase_witness, ('errlog',)), ('witness-cache', phase_witness, ('cache',)), ('mixed-soap', phase_mixed, ('soap',)),
              ('mixed-soft', phase_mixed, ('soft',)), ('mixed-http', phase_mixed, ('http',)), ('mixed-xml', phase_mixed, ('xml',)), ('mixed-jrpc', phase_mixed, ('jrpc',)), ('mixed-yaml', phase_mixed, ('yaml',)),
              ('stress', phase_stress, ()),
              ('publish-soap', phase_publish_sweep, ('soap',)), ('publish-http', phase_publish_sweep, ('http',)),
              ('context-soap', phase_context_sweep, ('soap',)), ('context-http', phase_context_sweep, ('http',)),
              ('context-jrpc', phase_context_sweep, ('jrpc',)), ('context-xml', phase_context_sweep, ('xml',)),
              ('context-yaml', phase_context_sweep, ('yaml',))]
    if ctx.thorough:
        phases.append(('publish-soft', phase_publish_sweep, ('soft',)))
    mp = multiprocessing.get_context('fork')
    procs = []
    t0 = time.time()
    # at most 5/8 of the cores as workers at a time (measured optimum): oversubscribing the machine makes every baton hand-over wait for a CPU
    cap = max(2, min(len(phases), int(os.environ.get('C12_WORKERS') or ((os.cpu_count() or 4) * 5) // 8)))
    limit = 3000 if ctx.thorough else 600
    pending = []
    for name, fn, extra in phases:
        path = os.path.join(scratch, name + '.jsonl')
        seed = ctx.rng.getrandbits(64)
        p = mp.Process(target=worker, args=(H, path, fn, seed, (T,) + extra), daemon=True)
        pending.append((name, p, path))
        procs.append((name, p, path))
    running = []
    while pending or running:
        while pending and len(running) < cap:
            item = pending.pop(0)
            item[1].start()
            running.append(item)
        time.sleep(0.05)
        for item in list(running):
            if not item[1].is_alive():
                item[1].join(1)
                running.remove(item)
        if time.time() - t0 > limit:
            for item in running:
                item[1].kill()
                item[1].join(5)
            for item in pending:
                pass        # never started: reported below as not finished
            break
    ctx.log('T2/T3 workers finished (%.1fs)' % (time.time() - t0))

    queries, reals = [], []
    nruns = 0
    for name, p, path in procs:
        recs = [json.loads(l) for l in open(path)] if os.path.exists(path) else []
        last_start = None
        n_here = 0
        for r in recs:
            t = r['t']
            if t == 'start':
                last_start = r
            elif t == 'hit':
                ctx.hit(r['key'])
            elif t == 'finding':
                ctx.hit('t3-fail:' + r['fid'])
                ctx.finding(r['fid'], r['what'], r['obj'])
            elif t == 'error':
                raise core.Infra('worker %s failed:\n%s' % (name, r['tb']))
            elif t == 'case':
                last_start = None
                n_here += 1
                d = {'fx': r['fx'], 'reqs': r['reqs'], 'mode': r['mode'], 'decisions': r['decisions'], 'inject': r.get('inject')}
                if r.get('inject'):
                    ctx.hit('inject:%s x%d' % tuple(r['inject']))
                ctx.case({'fx': r['fx'], 'reqs': r['reqs'], 'mode': r['mode'], 'round': r.get('round'),
                          'decisions': hashlib.sha1(repr(r['decisions']).encode()).hexdigest()[:12]},
                         nontrivial=r['switches'] > 0)
                ctx.hit('threads:%d' % len(r['reqs']))
                ctx.hit('sched:' + r['sched'])
                ctx.hit('fx:' + r['fx'])
                for k in r['kinds']:
                    ctx.hit('req:' + k)
                ctx.hit('switches:%s' % (r['switches'] if r['switches'] < 3 else '3+'))
                for fid, what, detail in r['findings']:
                    ctx.hit('t3-fail:' + fid)
                    ctx.finding(fid, what, dict(d, sched=r['sched'], spec=r.get('spec'), detail=detail))
                if r['q'] is not None:
                    queries.append(r['q'])
                    reals.append((r['real'], d))
        nruns += n_here
        done = bool(recs) and recs[-1]['t'] == 'done'
        ctx.log('  %-14s %5d runs %6.1fs%s' % (name, n_here, recs[-1].get('secs', 0) if done else 0, '' if done else '  (did not finish: exit code %s)' % p.exitcode))
        if not done:
            # the interpreter died (or hung) while executing the run announced last
            sig = p.exitcode
            fid = 'interpreter-crash' if (sig is not None and sig < 0 and sig != -9) else 'hang'
            ctx.hit('t3-fail:' + fid)
            ls = last_start or {}
            ctx.finding(fid, 'the Python process %s while %d threads served %s under schedule %s' % (
                'was killed by signal %s' % (-sig) if fid == 'interpreter-crash' else 'did not finish in time', len(ls.get('reqs', [])),
                ls.get('reqs'), ls.get('sched')),
                {'fx': ls.get('fx'), 'reqs': ls.get('reqs'), 'mode': ls.get('mode'), 'spec': ls.get('spec'), 'sched': ls.get('sched')})
    try:
        import shutil
        shutil.rmtree(scratch)
    except OSError:
        pass

    # ---------------------------------------------------------------- T2: every run replayed through the Lean model
    t0 = time.time()
    nchunk = max(1, min(6, len(queries) // 300))
    chunks = [queries[k::nchunk] for k in range(nchunk)]
    outs = [None] * nchunk
    errs = []

    def ask(k):
        try:
            outs[k] = ctx.model(chunks[k])
        except BaseException as e:      # noqa
            errs.append(e)
    ths = [threading.Thread(target=ask, args=(k,)) for k in range(nchunk)]
    [t.start() for t in ths]
    [t.join() for t in ths]
    if errs:
        raise errs[0]
    answers = [None] * len(queries)
    for k in range(nchunk):
        answers[k::nchunk] = outs[k]
    ndis = 0
    for q, (real, d), ans in zip(queries, reals, answers):
        if 'driver_error' in ans:
            raise core.Infra('driver error %r' % (ans,))
        ctx.cov['traces_validated_against_impl'] += 1
        diffs = H.compare(q, real, ans)
        if diffs:
            ndis += 1
            ctx.disagree('sys.run', dict(d, query=q if len(json.dumps(q)) < 4000 else '(large)'), diffs[:4], '(see impl)')
    ctx.log('T2 model replay of %d traces: %d disagreements (%.1fs)' % (len(queries), ndis, time.time() - t0))

    if bad_facts:
        ctx.cov['bad_facts'] = bad_facts
        if not ctx.found_input:
            ctx.proof_broken.append('facts:' + ','.join(bad_facts))
    ctx.cov['scheduled_runs'] = nruns
    ctx.cov['rule'] = (
        'a case = one execution of 2..4 real request threads against a fresh WsgiApplication under a deterministic '
        'schedule (or one free-running stress round). WSDL handler: every schedule of two requesters with <= 2 '
        'pre-emptions at the shared accesses of the extracted skeleton, sampled 3/4-thread and random schedules; '
        'witness schedules of the validator and cache theorems (error read after a foreign validation; a reader right '
        'after every publication of a cache entry) on request pairs; mixed tuples of rpc ok / fault / soft+lxml validation failure / ?wsdl with 1 and 2 pre-emptions '
        'at sampled statement boundaries of the shared-state code and random run-length schedules. distinct = distinct '
        '(fixture, requests, sequence of scheduler decisions); non-trivial = at least one pre-emption happened')


# ====================================================================================== replay

def replay(ctx, obj):
    logging.disable(logging.CRITICAL)
    print('replay of finding', obj.get('finding_id'), '-', obj.get('what'))
    if obj.get('mode') in ('stress', 'sequential') or not (obj.get('decisions') or obj.get('spec')) or not obj.get('reqs'):
        print('no deterministic schedule recorded (%s); broken: %s %s' % (
            obj.get('mode', 'n/a'), obj.get('broken_theorems'), obj.get('broken_correspondence')))
        if obj.get('detail'):
            print(json.dumps(obj['detail'], indent=1)[:3000])
        return 0
    f = measure_facts()
    H = Harness(ctx, f)
    U = H.universe
    fx, names = obj['fx'], obj['reqs']
    reqs = [U[(fx, n)] for n in names]
    for r in reqs:
        H.oracle(r)         # in a pristine child process, before this process serves anything
    spec = ['decisions', obj['decisions']] if obj.get('decisions') else obj['spec']
    case = H.run_case(fx, reqs, make_policy(spec), obj.get('mode', 'all'), obj.get('inject'))
    print('fixture %s, requests %s, %d scheduler decisions, %d context switches%s' % (
        fx, names, len(case['decisions']), case['switches'],
        ', injected: the first %d WSDL build(s) raise in %s' % (obj['inject'][1], obj['inject'][0]) if obj.get('inject') else ''))
    if case['failure']:
        print(' RUN DID NOT FINISH: %s; unanswered threads: %s' % (case['failure'], [i for i, r in enumerate(case['responses']) if r is None]))
    for i, r in enumerate(reqs):
        got, exp = case['responses'][i], H.oracle(r)
        print(' thread %d %-12s status=%s bytes=%s  %s' % (i, r['name'], got and got[0], got and len(got[2]),
                                                          'same as alone' if got == exp else 'DIFFERS from the response it gets alone (%s, %d bytes)' % (exp[0], len(exp[2]))))
        if got != exp and got is not None:
            if (got[0], got[1]) != (exp[0], exp[1]):
                print('    got      status/headers:', got[0], got[1])
                print('    expected status/headers:', exp[0], exp[1])
            if got[2] != exp[2] and r['kind'] != 'wsdl':
                print('    got      body:', got[2][-300:])
                print('    expected body:', exp[2][-300:])
    print(' build_interface_document executions:', case['builds'])
    bad = H.check_property(case, 'replay')
    for fid, what, _ in bad:
        print(' PROPERTY FAILS:', fid, '-', what)
    if case['failure']:
        return 1
    q, real = H.model_query(case)
    if len(q['sched']) < 5000:
        ans = ctx.model([q])[0]
        print(' model (instantiated with the facts of this tree): builds=%s responses=%s' % (
            ans.get('builds'), [str(r)[:120] for r in ans.get('responses', [])[:len(reqs)]]))
        print(' model vs real:', H.compare(q, real, ans) or 'agree')
    return 1 if bad else 0
