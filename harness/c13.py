"""C13 — WSGI response protocol and request-size limit.

T1: behaviour switches + status tables measured on the real WsgiApplication -> SpyneModel/Generated/Facts13.lean
Proof: Props/C13.lean (instantiated with the regenerated facts)
T2: model trace (lean/SpyneModel/Wsgi.lean `handle`) vs. the trace recorded around the real callable:
    counting/adversarial wsgi.input, recording start_response, user code markers, method_context_closed /
    wsgi_close listeners, a consumer that takes k chunks and then close()s the iterable
T3: the PEP 3333 / size-limit / close-once assertions evaluated on the recorded trace of the real code,
    plus wsgiref.validate.validator wrapped around the app as a second opinion
"""
import json
import logging
import re

from . import core

TR = []          # the trace of the request being executed
SIDE = {}        # side observations of the request being executed (not part of the trace)
LISTEN = {}      # what the transport-level listeners of the request being executed do to ctx.out_string
AUX = {}         # what the auxiliary method of the request being executed does ('mode')
LAZY_OUT = ('json', 'jsonp', 'http')    # out protocols whose out_string is written when it is consumed
GETP = ('http', 'httpout')     # protocols driven by GET requests without a body (HttpRpc in)
USERHDR = []     # response header values the user function of the request being executed sets

HDR_VALUES = {'str': lambda n: 'v', 'addhdr': None, 'addhdr8': None, 'latin1': lambda n: 'caf\xe9', 'list': lambda n: ['v%d' % i for i in range(n)],
              'tuple': lambda n: tuple('v%d' % i for i in range(n))}


class ListenerBoom(Exception):
    """raised by the finalisation listeners of the harness"""


def make_stream(chunks, lazy):
    """ctx.out_string in the shapes user code and protocols produce"""
    import itertools
    if lazy == 'gen':
        return (c for c in chunks)
    if lazy == 'tuple':
        return tuple(chunks)
    if lazy == 'chain':
        return itertools.chain(chunks[:1], chunks[1:])
    if lazy == 'iter':
        return iter(list(chunks))
    if lazy == 'map':
        return map(bytes, chunks)
    return list(chunks)


SIZED = ('list', 'tuple', None)
ITERKIND = {'gen': 'generator', 'chain': 'iterator', 'iter': 'iterator', 'map': 'iterator'}


def set_user_headers(ctx):
    for i, h in enumerate(USERHDR):
        if h['k'] == 'addhdr':          # the transport's own helper (gen_header / _formatparam)
            ctx.transport.add_header('X-U%d' % i, 'attachment', filename='report.pdf', inline=None, size='',
                                     name=('utf-8', 'en', 'x y'))
        elif h['k'] == 'addhdr8':       # ... with a value that needs RFC 2231 encoding
            ctx.transport.add_header('X-U%d' % i, 'attachment', filename='Fu\xdfballer.ppt')
        else:
            ctx.transport.resp_headers['X-U%d' % i] = HDR_VALUES[h['k']](h.get('n', 0))


class Closeable(object):
    """something user code registers in ctx.files: MethodContext.close() has to close it, once, after the body"""

    def close(self):
        SIDE['file_closed'] = SIDE.get('file_closed', 0) + 1
        SIDE['file_closed_at'] = len(TR)


def use_transport_helpers(ctx):
    """the convenience getters of WsgiTransportContext; a failure here is a failure of user code"""
    t = ctx.transport
    t.get_url(); t.get_path(); t.get_path_and_qs(); t.get_peer(); t.get_request_method(); t.get_request_content_type()
    t.get_mime_type()
    if t.req_env.get('HTTP_COOKIE') is None or 'k=' in t.req_env['HTTP_COOKIE']:
        t.get_cookie('k')
    ctx.files.append(Closeable())
    SIDE['file_registered'] = True

FC_OF_CODE = {'Client.RequestTooLong': 'tooLong', 'Client.ResourceNotFound': 'notFound',
              'Client.RequestNotAllowed': 'notAllowed', 'Client.InvalidCredentialsError': 'invalidCreds'}


def fault_class(code):
    code = str(code)
    if code in FC_OF_CODE:
        return FC_OF_CODE[code]
    if code == 'Client' or code.startswith('Client.'):
        return 'client'
    return 'server'


# ------------------------------------------------------------------------------------ the service under test
_ENV = {}


def impl_env():
    """real Application / WsgiApplication / protocol objects; one app per (proto, chunked, max, block)"""
    if _ENV:
        return _ENV
    logging.disable(logging.CRITICAL)
    from spyne import Application, Service, rpc, Unicode, Integer, Iterable, Fault, Ignored, ComplexModel, ByteArray, AnyDict, File
    from spyne.protocol.http import HttpPattern
    from spyne.server.http import HttpRedirect
    from spyne.error import (ResourceNotFoundError, InvalidCredentialsError, RequestNotAllowed,
                             RequestTooLongError)
    from spyne.protocol.soap import Soap11
    from spyne.protocol.json import JsonDocument
    from spyne.protocol.http import HttpRpc
    from spyne.protocol import ProtocolBase
    from spyne.server.wsgi import WsgiApplication

    def mkfault(kind):
        return {'client': lambda: Fault('Client.Custom', 'x'), 'server': lambda: Fault('Server', 'x'),
                'notFound': lambda: ResourceNotFoundError('x'), 'invalidCreds': lambda: InvalidCredentialsError('x'),
                'notAllowed': lambda: RequestNotAllowed('x'), 'tooLong': lambda: RequestTooLongError(),
                'crash': lambda: RuntimeError('boom')}[kind]()

    class OutHdr(ComplexModel):
        __namespace__ = 'tns'
        x = Unicode
        n = Integer

    class Svc(Service):
        __out_header__ = OutHdr

        @rpc(Unicode, _returns=Unicode)
        def echo(ctx, s):
            TR.append(['user'])
            set_user_headers(ctx)
            use_transport_helpers(ctx)
            return s

        # ---- further ways a call can end (round 4: anchored code the first rounds never reached)
        @rpc(Unicode, _returns=Unicode)
        def ign(ctx, s):                # spyne.Ignored: "no return value"
            TR.append(['user'])
            set_user_headers(ctx)
            return Ignored()

        @rpc(Unicode, _returns=(Unicode, Integer))
        def ign2(ctx, s):               # ... for a method with several return values
            TR.append(['user'])
            set_user_headers(ctx)
            return Ignored()

        @rpc(Unicode, _returns=Unicode)
        def redir(ctx, s):              # HttpRedirect -> HttpTransportContext.respond(302, location=...)
            TR.append(['user'])
            set_user_headers(ctx)
            raise HttpRedirect(ctx, 'http://elsewhere.example/' + (s or ''))

        @rpc(Unicode, _returns=Unicode)
        def respond(ctx, s):            # respond() with a code that has no body
            TR.append(['user'])
            set_user_headers(ctx)
            ctx.transport.respond('204 No Content')
            return s

        @rpc(Unicode, _returns=Unicode, _patterns=[HttpPattern('/p/<s>')])
        def pat(ctx, s):                # routed by an HttpPattern (HttpBase.match_pattern)
            TR.append(['user'])
            set_user_headers(ctx)
            return s

        @rpc(Unicode, _returns=Unicode, _patterns=[HttpPattern('/q/<s>', verb='GET'),
                                                   HttpPattern('/v/<s>', verb='(PUT|DELETE)')])
        def pat2(ctx, s):               # patterns bound to a verb / a host
            TR.append(['user'])
            set_user_headers(ctx)
            return s

        @rpc(Unicode, _returns=Unicode)
        def swap(ctx, s):               # the user function replaces the out protocol (and with it the mime type)
            TR.append(['user'])
            set_user_headers(ctx)
            ctx.out_protocol = JsonDocument()
            return s

        @rpc(Unicode, _returns=Unicode)
        def oh(ctx, s):                 # an out header: HttpRpc as out protocol turns it into response headers
            TR.append(['user'])
            set_user_headers(ctx)
            ctx.out_header = OutHdr(x='hv', n=5)
            return s

        @rpc(Unicode, _returns=Unicode)
        def frozen(ctx, s):             # MethodContext is frozen: ValueError inside user code
            TR.append(['user'])
            set_user_headers(ctx)
            ctx.no_such_attribute = 1
            return s

        @rpc(Unicode, _returns=AnyDict)
        def unser(ctx, code):           # a value a lazy out protocol (json.dumps at consumption) cannot write
            TR.append(['user'])
            set_user_headers(ctx)
            if code:
                ctx.transport.resp_code = code
            return {'answer': object()}

        @rpc(Unicode, _returns=Iterable(AnyDict))
        def ugen(ctx, s):               # ... yielded by a generator method
            TR.append(['user'])
            set_user_headers(ctx)
            yield {'a': 1}
            yield {'a': object()}

        @rpc(Unicode, _returns=(Unicode, Integer))
        def two(ctx, mode):             # declared with two return values, returns a sequence of another length / nothing
            TR.append(['user'])
            set_user_headers(ctx)
            return {'empty': (), 'list0': [], 'one': ('a',), 'three': ('a', 1, 2), 'ok': ('a', 1), 'none': None}[mode]

        # ---- return types whose bytes are produced by the out protocol's own to_bytes machinery (HttpRpc as out protocol)
        @rpc(Unicode, _returns=Unicode(str_format='Hello, {}!'))
        def fmt(ctx, s):
            TR.append(['user'])
            return s or 'J\xfcrgen'

        @rpc(Unicode, _returns=Unicode(format='<%s>'))
        def fmt2(ctx, s):
            TR.append(['user'])
            return s or 'J\xfcrgen'

        @rpc(Unicode, _returns=Unicode(encoding='latin-1'))
        def enc(ctx, s):
            TR.append(['user'])
            return s or 'J\xfcrgen'

        @rpc(Unicode, _returns=ByteArray)
        def ba(ctx, s):                 # a bare bytes object where a sequence of bytes objects is expected
            TR.append(['user'])
            return b'abc'

        @rpc(Unicode, _returns=ByteArray)
        def bal(ctx, s):
            TR.append(['user'])
            return [b'abc', b'de']

        @rpc(Unicode, _returns=File)
        def fv(ctx, s):
            TR.append(['user'])
            return File.Value(data=b'abcdef')

        @rpc(Unicode, _returns=File)
        def fvl(ctx, s):
            TR.append(['user'])
            return File.Value(data=[b'abc', b'def'])

        @rpc(Unicode, _returns=ByteArray, _mtom=True)
        def mt(ctx, s):                 # MTOM packaging of the response (Soap11 only)
            TR.append(['user'])
            return [b'abc' * 10]

        @rpc(Integer(ge=0), _returns=Integer)
        def val(ctx, n):
            TR.append(['user'])
            set_user_headers(ctx)
            return n

        @rpc(Unicode, Unicode, Unicode, Unicode, _returns=Unicode)
        def fail(ctx, kind, code, sizes, lazy):
            TR.append(['user'])
            set_user_headers(ctx)
            if code:
                ctx.transport.resp_code = code
            if sizes:
                # the user function supplies the outgoing stream itself, then fails
                ctx.out_string = make_stream([b'y' * int(k) for k in sizes.split(',')], lazy)
            raise mkfault(kind)

        @rpc(Integer, Unicode, _returns=Iterable(Unicode))
        def gen(ctx, n, mode):
            TR.append(['user'])
            set_user_headers(ctx)
            if mode and mode.startswith('raises:'):
                raise mkfault(mode[7:])
            for i in range(n or 0):
                yield 'item%d' % i
                if mode == 'late':
                    raise RuntimeError('late')
                if mode and mode.startswith('late:'):
                    raise mkfault(mode[5:])

        @rpc(Unicode, Unicode, Unicode, _returns=Unicode)
        def raw(ctx, sizes, lazy, code):
            TR.append(['user'])
            set_user_headers(ctx)
            chunks = [b'x' * int(k) for k in sizes.split(',') if k != ''] if sizes else []
            if code:
                ctx.transport.resp_code = code
            ctx.out_string = make_stream(chunks, lazy)
            # a length the transport has to correct or drop
            ctx.transport.resp_headers['Content-Length'] = '9999'

    from spyne.auxproc.sync import SyncAuxProc

    def aux_body():
        TR.append(['aux'])
        mode = AUX.get('mode')
        if mode == 'userFault':
            raise Fault('Client.Aux', 'x')
        if mode == 'userCrash':
            raise RuntimeError('aux boom')
        if mode == 'serFail':
            return object()      # declared Integer: the auxiliary response cannot be serialised
        return 1

    def make_aux(process_exceptions):
        class AuxSvc(Service):
            __aux__ = SyncAuxProc(process_exceptions=process_exceptions)

            @rpc(Unicode, _returns=Integer)
            def echo(ctx, s):
                return aux_body()

            @rpc(Integer(ge=0), _returns=Integer)
            def val(ctx, n):
                return aux_body()

            @rpc(Unicode, Unicode, Unicode, Unicode, _returns=Integer)
            def fail(ctx, kind, code, sizes, lazy):
                return aux_body()

            @rpc(Integer, Unicode, _returns=Integer)
            def gen(ctx, n, mode):
                return aux_body()

            @rpc(Unicode, Unicode, Unicode, _returns=Integer)
            def raw(ctx, sizes, lazy, code):
                return aux_body()
        return AuxSvc

    apps = {}

    def get_app(proto, chunked, mx, block, wsdl=None, aux=None, via_ctor=False):
        # one application per (protocol, ?wsdl variant, auxiliary service): building an Application is expensive and
        # the three transport settings are plain attributes that HttpBase.__init__ stores and every request reads
        # (via_ctor: a directed set of cases hands the settings to the constructor and never touches them afterwards)
        key = (proto, wsdl, aux) if not via_ctor else (proto, wsdl, aux, 'ctor', chunked, mx, block)
        if key in apps and via_ctor:
            return apps[key]
        if key in apps:
            w = apps[key]
            w.chunked, w.max_content_length, w.block_length = chunked, mx, block
            return w
        svcs = [Svc] + ([make_aux(aux == 'sync-exc')] if aux else [])
        if proto == 'soap':
            app = Application(svcs, 'tns', in_protocol=Soap11(validator='soft'), out_protocol=Soap11())
        elif proto == 'json':
            app = Application(svcs, 'tns', in_protocol=JsonDocument(validator='soft'), out_protocol=JsonDocument())
        elif proto == 'jsonp':
            from spyne.protocol.json import JsonP
            app = Application(svcs, 'tns', in_protocol=JsonDocument(validator='soft'), out_protocol=JsonP('cb'))
        elif proto == 'httpout':
            app = Application(svcs, 'tns', in_protocol=HttpRpc(validator='soft'), out_protocol=HttpRpc())
        else:
            app = Application(svcs, 'tns', in_protocol=HttpRpc(validator='soft'), out_protocol=JsonDocument())
        w = WsgiApplication(app, chunked=chunked, max_content_length=mx, block_length=block)
        w.event_manager.add_listener('wsgi_close', lambda ctx: TR.append(['wsgiClose']))
        # the request context is the primary one; auxiliary contexts close on their own
        app.event_manager.add_listener('method_context_closed',
                                       lambda ctx: TR.append(['closed']) if ctx.aux is None else None)

        def on_exc(ctx):
            SIDE['fault'] = fault_class(ctx.out_error.faultcode) if ctx.out_error is not None else None
            # (never consume a one-shot iterable here)
            SIDE['faultLen'] = sum(len(s) for s in ctx.out_string) if isinstance(ctx.out_string, (list, tuple)) else None
            SIDE['faultChunks'] = [len(s) for s in ctx.out_string] if isinstance(ctx.out_string, (list, tuple)) else None
        w.event_manager.add_listener('wsgi_exception', on_exc)

        def on_ret(ctx):
            os_ = ctx.out_string
            SIDE['sized'] = hasattr(os_, '__len__')
            if isinstance(os_, (list, tuple)):
                SIDE['chunks'] = [len(c) for c in os_]
        w.event_manager.add_listener('wsgi_return', on_ret)

        # transport-level listeners that legitimately rewrite the outgoing stream (compression, wrapping, trailers);
        # registered after the observers above, driven per request by LISTEN
        def rewrite_ret(ctx):
            r = LISTEN.get('ret')
            if r is not None:
                chunks = [b'z' * k for k in r['sizes']]
                ctx.out_string = make_stream(chunks, r['lazy'])
                SIDE['ret_listener_ran'] = True
        w.event_manager.add_listener('wsgi_return', rewrite_ret)

        def rewrite_exc(ctx):
            r = LISTEN.get('exc')
            if r is not None:
                ctx.out_string = [b'z' * k for k in r]
                SIDE['exc_listener_ran'] = True
        w.event_manager.add_listener('wsgi_exception', rewrite_exc)

        # a handler of the in-protocol's before_deserialize event that fails with something that is not a Fault
        def deser_boom(ctx):
            if LISTEN.get('deser'):
                raise RuntimeError('before_deserialize handler failed')
        app.in_protocol.event_manager.add_listener('before_deserialize', deser_boom)

        # finalisation listeners that raise the first time they are called (registered after the observers)
        def boom(kind):
            def listener(ctx):
                if LISTEN.get('close') == kind and getattr(ctx, 'aux', None) is None and not SIDE.get('boomed'):
                    SIDE['boomed'] = True
                    raise ListenerBoom(kind)
            return listener
        app.event_manager.add_listener('method_context_closed', boom('ctx'))
        w.event_manager.add_listener('wsgi_close', boom('wsgi'))
        if wsdl == 'unavailable':
            w.doc.wsdl11 = None
        elif wsdl == 'buildError':
            def boom(doc):
                raise RuntimeError('wsdl builder failed')
            w.doc.wsdl11.event_manager.add_listener('wsdl_document_built', boom)
        apps[key] = w
        return w

    _ENV.update(get_app=get_app, ProtocolBase=ProtocolBase, Soap11=Soap11, mkfault=mkfault,
                WsgiApplication=WsgiApplication)
    return _ENV


# ------------------------------------------------------------------------------------ driving one request
class Inp(object):
    """adversarial wsgi.input: the i-th read(n) returns min(n, plan[i]) bytes, nothing after the plan;
    the bytes are the document followed by as much blank padding as is asked for"""

    def __init__(self, doc, plan):
        self.doc, self.plan, self.pos, self.i = doc, plan, 0, 0

    def read(self, n=-1):
        cap = self.plan[self.i] if self.i < len(self.plan) else 0
        self.i += 1
        k = min(n, cap) if n >= 0 else cap
        d = self.doc[self.pos:self.pos + k]
        d = d + b' ' * (k - len(d))
        self.pos += k
        TR.append(['read', n, len(d)])
        return d

    def readline(self, *a):
        raise AssertionError('readline not expected')

    def readlines(self, *a):
        raise AssertionError('readlines not expected')

    def __iter__(self):
        raise AssertionError('iteration of wsgi.input not expected')


class Errors(object):
    def flush(self): pass
    def write(self, s): pass
    def writelines(self, l): pass


SOAP_ENV = ('<soap:Envelope xmlns:soap="http://schemas.xmlsoap.org/soap/envelope/" xmlns:tns="tns">'
            '<soap:Body><tns:%s>%s</tns:%s></soap:Body></soap:Envelope>')


def request_doc(case):
    """bytes of the meaningful request document of an rpc case (b'' for HttpRpc GET)"""
    proto, call = case['proto'], case['call']
    if proto in GETP:
        return b''
    if call['m'] == '#junk':
        return b'<junk' if proto == 'soap' else b'{junk'
    if call['m'] == '#doc':
        return bytes.fromhex(call['args']['hex'])
    args = {k: v for k, v in call.get('args', {}).items() if v is not None}
    name = 'nosuch' if call['m'] == '#unknown' else call['m']
    if proto == 'soap':
        inner = ''.join('<tns:%s>%s</tns:%s>' % (k, v, k) for k, v in args.items())
        return (SOAP_ENV % (name, inner, name)).encode()
    return json.dumps({name: args}).encode()


def environ_of(case, doc):
    from urllib.parse import urlencode
    env = {'SERVER_NAME': 'localhost', 'SERVER_PORT': '80', 'SERVER_PROTOCOL': 'HTTP/1.1', 'SCRIPT_NAME': '',
           'wsgi.url_scheme': 'http', 'wsgi.version': (1, 0), 'wsgi.errors': Errors(), 'wsgi.multithread': False,
           'wsgi.multiprocess': False, 'wsgi.run_once': False,
           'wsgi.input': Inp(doc, case.get('plan') or [])}
    if case['kind'] == 'wsdl':
        env.update(REQUEST_METHOD='GET', PATH_INFO='/', QUERY_STRING='wsdl')
        if case.get('wsdl_by_path'):
            env.update(PATH_INFO='/svc.wsdl', QUERY_STRING='')
    elif case['proto'] in GETP:
        call = case['call']
        name = 'nosuch' if call['m'] == '#unknown' else call['m']
        args = {k: v for k, v in call.get('args', {}).items() if v is not None}
        env.update(REQUEST_METHOD='GET', PATH_INFO='/' + name, QUERY_STRING=case.get('qs_prefix', '') + urlencode(args))
        if name == 'pat':
            env.update(PATH_INFO='/p/' + str(args.get('s', 'x')), QUERY_STRING='')
        if name == 'pat2':
            env.update(PATH_INFO=case.get('route', '/q/') + str(args.get('s', 'x')), QUERY_STRING='')
    else:
        env.update(REQUEST_METHOD=case.get('verb', 'POST'), PATH_INFO='/', QUERY_STRING='')
        ct = case.get('ctype', 'text/xml; charset=utf-8' if case['proto'] == 'soap' else 'application/json')
        if ct is not None:
            env['CONTENT_TYPE'] = ct
    if case.get('cl') is not None:
        env['CONTENT_LENGTH'] = case['cl']
    env.update(case.get('env') or {})
    for k in case.get('env_del') or ():
        env.pop(k, None)
    return env


CRASH_CLASS = {'ValueError': 'ValueError', 'StopIteration': 'StopIteration', 'TypeError': 'TypeError'}


def crash_name(e):
    from spyne.model.fault import Fault
    if isinstance(e, Fault) or type(e).__name__ == 'RuntimeError':
        return 'UserException'
    return CRASH_CLASS.get(type(e).__name__, type(e).__name__)


def execute(case, validate=False):
    """run one case on the real callable; returns (trace, side observations, raw start_response calls)"""
    E = impl_env()
    cfg = case['cfg']
    w = E['get_app'](case['proto'], cfg['chunked'], cfg['max'], cfg['block'],
                     case.get('wsdl') if case['kind'] == 'wsdl' and case.get('wsdl') != 'ok' else None,
                     (('sync-exc' if case.get('aux_on_errors') else 'sync') if case.get('aux') else None)
                     if case['kind'] == 'rpc' else None, via_ctor=bool(case.get('via_ctor')))
    doc = b'' if case['kind'] == 'wsdl' else request_doc(case)
    env = environ_of(case, doc)
    del TR[:]
    SIDE.clear()
    LISTEN.clear()
    AUX.clear()
    AUX['mode'] = case.get('aux')
    del USERHDR[:]
    USERHDR.extend(case.get('headers') or [])
    if case.get('on_return') is not None:
        LISTEN['ret'] = case['on_return']
    if case.get('on_exception') is not None:
        LISTEN['exc'] = case['on_exception']
    if case.get('close_listener'):
        LISTEN['close'] = case['close_listener']
    if case.get('deser_raises'):
        LISTEN['deser'] = True
    SIDE['doc_len'] = len(doc)
    calls = []

    def start_response(status, headers, exc_info=None):
        calls.append((status, headers))
        m = re.match(r'^(\d{3}) \S', status) if isinstance(status, str) else None
        cl = None
        try:
            for k, v in headers:
                if isinstance(k, str) and k.lower() == 'content-length':
                    cl = int(v)
        except Exception:
            cl = -1
        try:
            for k, v in headers:
                if isinstance(k, str) and k.startswith('X-U'):
                    TR.append(['hdr', int(k[3:]), isinstance(v, str)])
        except Exception:
            pass
        SIDE['cl_header'] = cl
        TR.append(['sr', int(m.group(1)) if m else -1, '?', cl])
        return lambda data: None

    app = w
    if validate:
        from wsgiref.validate import validator
        app = validator(w)
    abort = case.get('abort')
    body = []
    it = None
    try:
        it = app(env, start_response)
        TR.append(['ret'])
        SIDE['ret_type'] = type(it).__name__
        src = iter(it)
        n = 0
        while abort is None or n < abort:
            try:
                c = next(src)
            except StopIteration:
                break
            except ListenerBoom:
                # a finalisation listener failed at the end of the body: the server sees the exception ...
                TR.append(['lraise'])
                break
            except AssertionError:
                raise
            except Exception as e:
                # producing the body failed in the server's hands (a lazy out_string): after start_response this
                # is the server's to report; it goes on to close() the iterable
                SIDE['body_exception'] = type(e).__name__
                break
            if isinstance(c, (bytes, str)):
                TR.append(['chunk', len(c), isinstance(c, bytes)])
            else:
                TR.append(['chunk', 0, False])
                SIDE['odd_chunk'] = type(c).__name__
            body.append(c)
            n += 1
        # PEP 3333: the server calls close() on the iterable, if it has one, however the request ended
        # (case['noclose']: a consumer that exhausts the body and never calls close(), which is what spyne's own
        #  Django / Pyramid wrappers do with b''.join(response))
        close = getattr(it, 'close', None)
        if close is not None and (validate or not (case.get('noclose') and abort is None)):
            try:
                close()         # ... and still calls close(), as PEP 3333 requires
            except ListenerBoom:
                TR.append(['lraise'])
    except AssertionError as e:
        if not validate:
            # an `assert` of the code under test: an exception out of the callable like any other
            TR.append(['crash', 'AssertionError'])
            SIDE['crash_detail'] = 'AssertionError: %s' % str(e)[:200]
            e = None
        if e is None:
            pass
        else:
            SIDE['validator_error'] = str(e)[:300]
            if hasattr(it, 'closed'):
                it.closed = True       # keep the validator's __del__ quiet, the complaint is recorded
    except Exception as e:
        TR.append(['crash', crash_name(e)])
        SIDE['crash_detail'] = '%s: %s' % (type(e).__name__, str(e)[:200])
    SIDE['user_ran'] = any(e[0] == 'user' for e in TR)
    # classify the fault the response carries: the error handler's own view, cross-checked with the body
    fault = SIDE.get('fault')
    for ev in TR:
        if ev[0] == 'sr':
            ev[2] = fault
    SIDE['body_fault'] = None
    if abort is None and body and all(isinstance(c, bytes) for c in body):
        text = b''.join(body)
        m = re.search(br'"faultcode"\s*:\s*"([^"]+)"', text) or re.search(br'<faultcode>(?:[A-Za-z0-9_]+:)?([^<]+)</faultcode>', text)
        if m:
            SIDE['body_fault'] = fault_class(m.group(1).decode())
    return [list(e) for e in TR], dict(SIDE), calls


# ------------------------------------------------------------------------------------ case -> model query
FAULT_KINDS = ['client', 'server', 'notFound', 'invalidCreds', 'notAllowed', 'tooLong']


def status_int(s):
    return int(s.split(' ', 1)[0]) if s else None


def model_query(case, side, ref):
    """the model's view of a case. `side`: observations made inside the real request (fault document
    size as seen by the wsgi_exception listener, out_string shape as seen by the wsgi_return listener);
    `ref`: chunk sizes of a protocol-serialised response learnt from a fully consumed reference run."""
    cfg = case['cfg']
    req = {'wsdl': None, 'wsdlLen': 0, 'soapOut': case['proto'] == 'soap', 'soapIn': case['proto'] == 'soap',
           'preReject': False, 'readsBody': case['proto'] not in GETP, 'cl': None, 'docLen': side.get('doc_len', 0),
           'faultLen': side.get('faultLen', 0), 'intended': 'malformed', 'fc': 'client', 'preset': None,
           'gen': 'none', 'serFails': False, 'chunks': [], 'sized': False}
    if case.get('cl') is not None:
        req['cl'] = [ord(c) for c in case['cl']]
    if case['kind'] == 'wsdl':
        req['wsdl'] = case['wsdl']
        req['wsdlLen'] = ref.get('wsdlLen', 0)
    else:
        if case['proto'] == 'soap' and (case.get('verb', 'POST') != 'POST' or ('ctype' in case and case['ctype'] is None)):
            req['preReject'] = True
        call = case['call']
        m, a = call['m'], call.get('args', {})
        if m in ('#junk', '#doc') or case.get('expect') == 'malformed':
            req['intended'] = 'malformed'
        elif case.get('deser_raises') and m != '#unknown':
            req['intended'] = 'inputHandlerFails'
        elif m == 'frozen':
            req['intended'] = 'userFault'
            req['fc'] = 'server'
        elif m == '#unknown' or case.get('expect') == 'unknown':
            req['intended'] = 'unknown'
        elif m == 'val' and a.get('n', 0) < 0:
            req['intended'] = 'validation'
        elif m == 'fail':
            req['intended'] = 'userFault'
            req['fc'] = 'server' if a['kind'] == 'crash' else a['kind']
            req['preset'] = status_int(a.get('code'))
        else:
            req['intended'] = 'success'
            if m == 'raw':
                req['chunks'] = [int(k) for k in a['sizes'].split(',') if k != ''] if a.get('sizes') else []
                req['sized'] = a.get('lazy') in SIZED
                req['preset'] = status_int(a.get('code'))
            else:
                req['chunks'] = ref.get('chunks', [])
                req['sized'] = ref.get('sized', False)
                if m in ('ba', 'fv') and case['proto'] == 'httpout':
                    # a bare bytes body: iterated as ints when chunked (known finding), refused by the join otherwise
                    req['dumpFails'] = True
                    req['chunks'], req['sized'] = [], False
                if m == 'mt':           # (MTOM packaging fails under Python 3: when guarded, a serialisation failure)
                    req['serFails'] = True
                if m in ('unser', 'ugen') and case['proto'] in LAZY_OUT:
                    req['dumpFails'] = True
                    # what the stream yields before json.dumps fails: JsonP's callback name and bracket, else nothing
                    req['chunks'], req['sized'] = ([2, 1] if case['proto'] == 'jsonp' else []), False
                    req['preset'] = status_int(a.get('code'))
                    if m == 'ugen':
                        req['gen'] = 'yields'
                if m in ('unser', 'ugen') and case['proto'] not in LAZY_OUT:
                    req['preset'] = status_int(a.get('code'))
                if m == 'two' and case['proto'] in LAZY_OUT and a.get('mode') in ('empty', 'list0', 'one', 'none'):
                    req['serFails'] = True      # the dict-document serialiser refuses the wrong number of values
                if m == 'redir':
                    req['preset'] = 302
                if m == 'respond':
                    req['preset'] = 204
                if m == 'gen':
                    mode = a.get('mode') or ''
                    if mode.startswith('raises:'):
                        req['gen'] = 'raises'
                        req['fc'] = 'server' if mode[7:] == 'crash' else mode[7:]
                    elif mode == 'late' or mode.startswith('late:'):
                        req['gen'] = 'yields'
                        req['serFails'] = True
                        req['serFc'] = 'server' if mode in ('late', 'late:crash') else mode[5:]
                    elif (a.get('n') or 0) == 0:
                        req['gen'] = 'empty'
                    else:
                        req['gen'] = 'yields'
    req['closeListener'] = case.get('close_listener') or 'none'
    req['noclose'] = bool(case.get('noclose')) and case.get('abort') is None
    req['faultIter'] = {'soap': 'list', 'jsonp': 'iterator'}.get(case['proto'], 'generator')
    if req['faultLen'] is None:
        req['faultLen'] = side.get('cl_header') or 0       # not measurable without consuming it
    if side.get('faultChunks') is not None and len(side['faultChunks']) != 1:
        req['faultBody'] = side['faultChunks']          # a fault document serialised in several chunks (JsonP)
    if case['kind'] == 'rpc' and case['call']['m'] == 'fail' and case['call'].get('args', {}).get('sizes') and side.get('user_ran'):
        # (the user-supplied stream is the fault body only when the user function ran; whether it ran is compared
        #  separately through the `user` event)
        a_ = case['call']['args']
        req['faultBody'] = [int(k) for k in a_['sizes'].split(',')]
        req['faultIter'] = ITERKIND.get(a_.get('lazy'), 'list')
    req['aux'] = case.get('aux') or 'none'
    req['auxOnErrors'] = bool(case.get('aux_on_errors'))
    req['userHeaders'] = [{'k': 'str' if h['k'] == 'latin1' else h['k'], 'n': h.get('n', 0)} for h in (case.get('headers') or [])]
    if case.get('on_return') is not None:
        req['onReturn'] = {'chunks': case['on_return']['sizes'], 'sized': case['on_return']['lazy'] in SIZED}
    if case.get('on_exception') is not None:
        req['onException'] = case['on_exception']
    return {'op': 'handle', 'cfg': cfg, 'req': req, 'stream': case.get('plan') or [], 'abort': case.get('abort')}


_REF = {}


def reference(case):
    """chunk sizes / sized-ness of the protocol-serialised success response of `case`, learnt from a fully
    consumed, chunked, generously configured run of the same call (deterministic serialisation)"""
    if case['kind'] == 'wsdl':
        key = ('wsdl', case['proto'])
        if key not in _REF:
            c = {'kind': 'wsdl', 'wsdl': 'ok', 'proto': case['proto'], 'cfg': {'chunked': True, 'max': 1 << 21, 'block': 8192}}
            tr, side, _ = execute(c)
            _REF[key] = {'wsdlLen': sum(e[1] for e in tr if e[0] == 'chunk')}
        return _REF[key]
    call = case['call']
    if call['m'] in ('raw', 'fail', 'frozen', 'mt', '#junk', '#unknown', '#doc') or \
            (call['m'] in ('ba', 'fv') and case['proto'] == 'httpout') or \
            (call['m'] in ('unser', 'ugen') and case['proto'] in LAZY_OUT):
        return {}
    key = (case['proto'], json.dumps(call, sort_keys=True))
    if key not in _REF:
        doc = request_doc(case)
        c = {'kind': 'rpc', 'proto': case['proto'], 'cfg': {'chunked': True, 'max': 1 << 21, 'block': 8192}, 'call': call,
             'cl': str(len(doc)), 'plan': [len(doc)] if doc else [], 'abort': None}
        tr, side, _ = execute(c)
        r = {}
        if not any(e[0] == 'crash' for e in tr) and side.get('fault') is None:
            r = {'chunks': [e[1] for e in tr if e[0] == 'chunk'], 'sized': bool(side.get('sized'))}
        _REF[key] = r
    return _REF[key]


# ------------------------------------------------------------------------------------ T3: the property itself
def declared_int(case):
    cl = case.get('cl')
    if cl is None or cl == '':
        return None
    try:
        return int(cl)
    except ValueError:
        return None


def oracle(case, tr, side, calls):
    """evaluate the property on the trace of the real code; returns [(finding id, what)]"""
    out = []
    kind = case['kind']
    site = 'wsdl' if kind == 'wsdl' and case.get('wsdl') == 'ok' else ('wsdl-error' if kind == 'wsdl' else 'rpc')
    if side.get('ret_listener_ran'):
        site = 'rpc-return-listener'
    elif side.get('exc_listener_ran'):
        site = 'rpc-exception-listener'
    crashes = [e for e in tr if e[0] == 'crash']
    srs = [i for i, e in enumerate(tr) if e[0] == 'sr']
    chunks = [i for i, e in enumerate(tr) if e[0] == 'chunk']
    closed = [i for i, e in enumerate(tr) if e[0] == 'closed']
    rets = [i for i, e in enumerate(tr) if e[0] == 'ret']
    cfg = case['cfg']
    for e in crashes:
        out.append(('crash:%s:%s' % (e[1], crash_site(case, tr)),
                    'exception %s escapes the WSGI callable (%s)' % (e[1], side.get('crash_detail', ''))))
    # start_response exactly once, before any body chunk, status line + string headers
    if len(srs) != 1:
        if not crashes:
            out.append(('start-response-count:' + site, 'start_response called %d times' % len(srs)))
    else:
        if chunks and chunks[0] < srs[0]:
            out.append(('chunk-before-start-response:' + site, 'a body chunk precedes start_response'))
        status, headers = calls[0]
        if not (isinstance(status, str) and re.match(r'^\d{3} \S', status)):
            out.append(('status-line:' + site, 'status %r is not a status line' % (status,)))
        if not (isinstance(headers, list) and all(isinstance(h, tuple) and len(h) == 2 and isinstance(h[0], str)
                                                    and isinstance(h[1], str) for h in headers)):
            out.append(('headers-not-strings:' + site, 'headers %r' % (headers,)))
        else:
            cls = [v for k, v in headers if k.lower() == 'content-length']
            if len(cls) > 1 or (cls and not re.match(r'^\d+$', cls[0])):
                out.append(('content-length-header:' + site, 'Content-Length headers %r' % (cls,)))
    # all body chunks are bytes
    if any(not tr[i][2] for i in chunks):
        if side.get('odd_chunk') == 'int':
            out.append(('chunk-is-int:' + site, 'the body iterable yields ints: a bare bytes object is iterated as the body'))
        else:
            out.append(('chunk-not-bytes:' + site, 'a body chunk is not a bytes object'))
    # Content-Length, when sent, equals the number of body bytes
    if len(srs) == 1 and tr[srs[0]][3] is not None and not crashes:
        total = sum(tr[i][1] for i in chunks)
        cl = tr[srs[0]][3]
        if (case.get('abort') is None and cl != total) or total > cl:
            out.append(('content-length-mismatch:' + site, 'Content-Length %s, body bytes %d' % (cl, total)))
    # at most max_content_length bytes are ever read; no read asks for more than a block
    got = sum(e[2] for e in tr if e[0] == 'read')
    if got > cfg['max']:
        out.append(('read-over-limit', '%d bytes read with max_content_length=%d' % (got, cfg['max'])))
    # a body longer than max_content_length is refused with the request-too-long fault, no user code
    if kind == 'rpc' and case['proto'] not in GETP and not is_prereject(case) and not crashes:
        d = declared_int(case)
        real = sum(case.get('plan') or [])
        which = None
        if d is not None and d > cfg['max']:
            which = 'declared'
        elif case.get('cl') is None and real > cfg['max']:
            which = 'undeclared'
        if which:
            f = tr[srs[0]][2] if srs else None
            user = any(e[0] == 'user' for e in tr)
            bf = side.get('body_fault')
            if f != 'tooLong' or user or (case.get('abort') is None and bf != 'tooLong' and not side.get('exc_listener_ran')):
                out.append(('toolong-not-refused:' + which,
                            'body of %s bytes (%s) with max_content_length=%d answered with fault=%s body-fault=%s user-code=%s'
                            % (d if which == 'declared' else real, which, cfg['max'], f, bf, user)))
    # the context is closed exactly once and not before the body has been handed over
    if not crashes:
        if len(closed) != 1:
            out.append(('ctx-closed-%d-times:%s' % (len(closed), site), 'method_context_closed fired %d times' % len(closed)))
        else:
            c = closed[0]
            if (rets and c < rets[0]) or any(i > c for i in chunks) or (chunks and c < chunks[-1]):
                out.append(('close-before-body:' + site, 'the context is closed before the response body has been handed over'))
    # what user code registered in ctx.files is closed with the context: once, and not before the body was handed over
    # (a raising method_context_closed listener ends MethodContext.close() before it gets to the files: the listener's fault)
    if side.get('file_registered') and not crashes and case.get('close_listener') != 'ctx':
        n = side.get('file_closed', 0)
        if n != 1:
            out.append(('ctx-files-closed-%d-times:%s' % (n, site), 'a file registered in ctx.files was closed %d times' % n))
        elif (rets and side['file_closed_at'] <= rets[0]) or (chunks and side['file_closed_at'] <= chunks[-1]):
            out.append(('ctx-files-closed-before-body:' + site, 'ctx.files closed before the response body was handed over'))
    return out


def is_prereject(case):
    return case['proto'] == 'soap' and (case.get('verb', 'POST') != 'POST' or ('ctype' in case and case['ctype'] is None))


def crash_site(case, tr):
    if case['kind'] == 'wsdl':
        return 'wsdl'
    if any(e[0] == 'sr' for e in tr):
        return 'after-start-response'
    if not any(e[0] == 'user' for e in tr):
        return 'before-user-code'
    m = case['call']['m']
    return {'gen': 'generator-result', 'raw': 'response', 'echo': 'response', 'val': 'response'}.get(m, m)


# ------------------------------------------------------------------------------------ T1 facts
BASE_CFG = {'chunked': True, 'max': 1 << 21, 'block': 8192}


def mkcase(proto, m, args=None, **kw):
    c = {'kind': 'rpc', 'proto': proto, 'cfg': dict(BASE_CFG), 'call': {'m': m, 'args': args or {}}, 'abort': None}
    c.update(kw)
    doc = request_doc(c)
    if 'cl' not in kw:
        c['cl'] = str(len(doc)) if proto not in GETP else None
    if 'plan' not in kw:
        c['plan'] = filelike(len(doc), c['cfg']['block'])
    return c


def filelike(n, block):
    """a plan that behaves like a file of n bytes for a reader asking for at most `block` bytes"""
    if block <= 0:
        return [n] if n else []
    return [block] * (n // block) + ([n % block] if n % block else [])


def timing(tr, tr0):
    """afterBody iff, fully consumed, the close follows the last chunk, and, aborted before the first chunk,
    it still happens exactly once and after the hand-over"""
    def idx(t, name):
        return [i for i, e in enumerate(t) if e[0] == name]
    ok = (len(idx(tr, 'closed')) == 1 and idx(tr, 'chunk') and idx(tr, 'closed')[0] > idx(tr, 'chunk')[-1]
          and len(idx(tr0, 'closed')) == 1 and idx(tr0, 'ret') and idx(tr0, 'closed')[0] > idx(tr0, 'ret')[0])
    return 'afterBody' if ok else 'beforeBody'


WITNESS = {}


def measure_facts():
    E = impl_env()
    f = {}

    def run(c):
        return execute(c)[0]

    c = mkcase('json', 'echo', {'s': 'hi'})
    f['closeTiming'] = timing(run(c), run(dict(c, abort=0)))
    WITNESS['closeTiming'] = dict(c, abort=0)
    c = {'kind': 'wsdl', 'wsdl': 'ok', 'proto': 'soap', 'cfg': dict(BASE_CFG), 'abort': None}
    f['wsdlCloseTiming'] = timing(run(c), run(dict(c, abort=0)))
    WITNESS['wsdlCloseTiming'] = c
    c = mkcase('json', 'echo', {'s': 'hi'}, cfg=dict(BASE_CFG, chunked=False))
    tr = run(c)
    f['joinKind'] = 'str' if ['crash', 'TypeError'] in tr or any(e[0] == 'chunk' and not e[2] for e in tr) else 'bytes'
    WITNESS['joinKind'] = c
    c = mkcase('soap', 'echo', {'s': 'hi'}, cl='abc')
    tr = run(c)
    f['clParse'] = 'crash' if any(e[0] == 'crash' for e in tr) else 'fault'
    f['soapBadLengthClass'] = next((e[2] for e in tr if e[0] == 'sr' and e[2]), 'client')
    WITNESS['clParse'] = c
    c1, c2 = mkcase('json', 'gen', {'n': 0}), mkcase('json', 'gen', {'n': 2, 'mode': 'raises:client'})
    f['genGuard'] = not any(e[0] == 'crash' for e in run(c1) + run(c2))
    WITNESS['genGuard'] = c1
    c = dict(mkcase('soap', 'echo', {'s': 'hi'}), cl='0', plan=[])
    tr = run(c)
    f['soapEmptyBodyFault'] = not any(e[0] == 'crash' for e in tr)
    f['soapEmptyBodyClass'] = next((e[2] for e in tr if e[0] == 'sr' and e[2]), 'client')
    WITNESS['soapEmptyBodyFault'] = c
    errs = [{'kind': 'wsdl', 'wsdl': k, 'proto': 'soap', 'cfg': dict(BASE_CFG), 'abort': None} for k in ('unavailable', 'buildError')]
    trs = [run(c) for c in errs]
    f['wsdlErrBytes'] = all(e[2] for t in trs for e in t if e[0] == 'chunk')
    f['wsdlErrClosed'] = all(sum(1 for e in t if e[0] == 'closed') == 1 for t in trs)
    WITNESS['wsdlErrBytes'] = WITNESS['wsdlErrClosed'] = errs[0]
    f['wsdlUnavailableStatus'] = next(e[1] for e in trs[0] if e[0] == 'sr')
    f['wsdlErrorStatus'] = next(e[1] for e in trs[1] if e[0] == 'sr')
    f['wsdlOkStatus'] = next(e[1] for e in run({'kind': 'wsdl', 'wsdl': 'ok', 'proto': 'soap', 'cfg': dict(BASE_CFG), 'abort': None}) if e[0] == 'sr')
    pb, s11 = E['ProtocolBase'](), E['Soap11']()
    f['statusPlain'] = {k: status_int(pb.fault_to_http_response_code(E['mkfault'](k))) for k in FAULT_KINDS}
    f['statusSoap'] = {k: status_int(s11.fault_to_http_response_code(E['mkfault'](k))) for k in FAULT_KINDS}
    tr = run(dict(mkcase('soap', 'echo', {'s': 'hi'}), verb='GET'))
    f['preRejectStatus'] = next((e[1] for e in tr if e[0] == 'sr'), 0)
    tr = run(mkcase('http', 'echo', {'s': 'hi'}))
    f['okStatus'] = next((e[1] for e in tr if e[0] == 'sr'), 0)
    # where the transport-level events fire relative to the join / len() / Content-Length computation
    def cl_matches(c):
        t = run(c)
        sr = [e for e in t if e[0] == 'sr']
        return bool(sr) and (sr[0][3] is None or sr[0][3] == sum(e[1] for e in t if e[0] == 'chunk'))
    ws = [mkcase('soap', 'echo', {'s': 'hi'}, cfg=dict(BASE_CFG, chunked=ch), on_return={'sizes': [3], 'lazy': 'list'}) for ch in (True, False)]
    f['returnEventBeforeLength'] = all(cl_matches(c) for c in ws)
    WITNESS['returnEventBeforeLength'] = next((c for c in ws if not cl_matches(c)), ws[0])
    c = mkcase('json', 'val', {'n': -3}, on_exception=[4, 3])
    f['errorEventBeforeLength'] = cl_matches(c)
    WITNESS['errorEventBeforeLength'] = c
    # the guard around the auxiliary run after start_response, and _gen_http_headers
    c = mkcase('http', 'echo', {'s': 'hi'}, aux='serFail')
    f['auxGuardOk'] = not any(e[0] == 'crash' for e in run(c))
    WITNESS['auxGuardOk'] = c
    c = mkcase('http', 'fail', {'kind': 'client'}, aux='serFail', aux_on_errors=True)
    f['auxGuardError'] = not any(e[0] == 'crash' for e in run(c))
    WITNESS['auxGuardError'] = c
    c = mkcase('http', 'echo', {'s': 'hi'}, headers=[{'k': 'tuple', 'n': 2}])
    t = run(c)
    f['headerTuplesExpanded'] = all(e[2] for e in t if e[0] == 'hdr') and sum(1 for e in t if e[0] == 'hdr') == 2
    WITNESS['headerTuplesExpanded'] = c
    # _ResponseBody.close: a finalizer that raises at the end of the body must not run again on close()
    ws = [mkcase('json', 'echo', {'s': 'hi'}, close_listener=k) for k in ('ctx', 'wsgi')]
    f['finalizeClearedFirst'] = all(sum(1 for e in run(c) if e[0] == 'closed') == 1 for c in ws)
    WITNESS['finalizeClearedFirst'] = next((c for c in ws if sum(1 for e in run(c) if e[0] == 'closed') != 1), ws[0])
    # handle_error materialises a one-shot out_string before it sums the lengths
    c = mkcase('json', 'val', {'n': -3})
    f['errMaterialisesGenerator'] = cl_matches(c)
    WITNESS['errMaterialisesGenerator'] = c
    c = mkcase('jsonp', 'val', {'n': -3})
    f['errMaterialisesIterator'] = cl_matches(c)
    WITNESS['errMaterialisesIterator'] = c
    # where the unchunked response of a lazy out protocol is joined: a value json.dumps cannot write must end in a fault
    unch = dict(BASE_CFG, chunked=False)
    ok_plain = not any(e[0] == 'crash' for e in run(mkcase('json', 'unser', {}, cfg=unch)))
    ok_gen = not any(e[0] == 'crash' for e in run(mkcase('json', 'ugen', {'s': 'a'}, cfg=unch)))
    f['lateJoinGuard'] = 'all' if ok_plain and ok_gen else 'generatorOnly' if ok_gen else 'none'
    WITNESS['lateJoinGuard'] = mkcase('json', 'unser', {}, cfg=unch) if not ok_plain else mkcase('json', 'ugen', {'s': 'a'}, cfg=unch)
    tr = run(mkcase('json', 'gen', {'n': 2, 'mode': 'late'}))
    f['lateErrorKeepsOkStatus'] = next((e[1] for e in tr if e[0] == 'sr'), 0) == f['okStatus']
    return f


GOOD = {'closeTiming': 'afterBody', 'wsdlCloseTiming': 'afterBody', 'joinKind': 'bytes', 'clParse': 'fault',
        'genGuard': True, 'soapEmptyBodyFault': True, 'wsdlErrBytes': True, 'wsdlErrClosed': True,
        'returnEventBeforeLength': True, 'errorEventBeforeLength': True, 'auxGuardOk': True, 'auxGuardError': True,
        'headerTuplesExpanded': True, 'finalizeClearedFirst': True, 'errMaterialisesGenerator': True,
        'errMaterialisesIterator': True, 'lateJoinGuard': 'all'}
SWITCH_WHAT = {
    'closeTiming': 'handle_rpc/handle_error close the context (method_context_closed, wsgi_close) while building the iterable, before the first body chunk',
    'wsdlCloseTiming': 'handle_wsdl_request closes the context before returning the document',
    'joinKind': "chunked=False joins the bytes chunks with ''.join: TypeError escapes the callable",
    'clParse': 'a non-numeric CONTENT_LENGTH makes int() raise ValueError inside the body reader; it escapes the callable',
    'genGuard': 'next(g) on a generator result is unguarded: an empty generator (StopIteration) or one raising before its first yield escapes the callable',
    'soapEmptyBodyFault': 'an empty request body makes Soap11 raise StopIteration, which escapes the callable',
    'wsdlErrBytes': 'the 404/500 answers to ?wsdl carry str chunks',
    'wsdlErrClosed': 'the 404/500 answers to ?wsdl never close their context',
    'returnEventBeforeLength': "handle_rpc fires 'wsgi_return' after it joined / measured ctx.out_string: a listener that rewrites "
                               'the outgoing stream (gzip, wrap) leaves a Content-Length that is not the number of body bytes',
    'auxGuardOk': 'handle_rpc does not catch every exception of the auxiliary run after start_response: an auxiliary method whose '
                  'response cannot be serialised makes the callable raise after start_response; no body, context never closed',
    'auxGuardError': 'handle_error does not catch every exception of the auxiliary run after start_response',
    'headerTuplesExpanded': '_gen_http_headers passes a tuple-valued response header on as it is: a non-string header value reaches start_response',
    'finalizeClearedFirst': '_ResponseBody.close clears the finalizer only after it returned: a method_context_closed / wsgi_close '
                            'listener that raises at the end of the body makes the server\'s close() finalise a second time',
    'errMaterialisesGenerator': 'handle_error sums the lengths of a generator out_string without turning it into a list first: '
                                'Content-Length announces a body that was used up by the sum',
    'errMaterialisesIterator': 'handle_error sums the lengths of a one-shot iterator out_string (itertools.chain of JsonP) without '
                               'turning it into a list first: Content-Length announces a body that was used up by the sum',
    'lateJoinGuard': 'with chunked=False the response of a lazy out protocol is joined outside the guarded region of handle_rpc: a value '
                     'the protocol cannot write (json.dumps at consumption) raises out of the callable before start_response',
    'errorEventBeforeLength': "handle_error fires 'wsgi_exception' after it computed Content-Length: a listener that rewrites the "
                              'fault document leaves a Content-Length that is not the number of body bytes',
}


def facts_lean(f):
    b = lambda x: 'true' if x else 'false'
    tab = lambda t: ' | '.join('.%s => %d' % (k, t[k]) for k in ['tooLong', 'notFound', 'notAllowed', 'invalidCreds', 'client', 'server'])
    return '''-- GENERATED by harness/c13.py (T1) from /repo on every run. Do not edit.
import SpyneModel.Wsgi
namespace SpyneModel.Generated
open SpyneModel SpyneModel.Wsgi

def facts13 : Facts13 where
  closeTiming := .%s
  wsdlCloseTiming := .%s
  joinKind := .%s
  clParse := .%s
  genGuard := %s
  soapEmptyBodyFault := %s
  soapBadLengthClass := .%s
  soapEmptyBodyClass := .%s
  wsdlErrBytes := %s
  wsdlErrClosed := %s
  statusPlain := fun fc => match fc with
    | %s
  statusSoap := fun fc => match fc with
    | %s
  preRejectStatus := %d
  wsdlOkStatus := %d
  wsdlUnavailableStatus := %d
  wsdlErrorStatus := %d
  okStatus := %d
  returnEventBeforeLength := %s
  errorEventBeforeLength := %s
  auxGuardOk := %s
  auxGuardError := %s
  finalizeClearedFirst := %s
  errMaterialisesGenerator := %s
  errMaterialisesIterator := %s
  lateJoinGuard := .%s
  headerTuplesExpanded := %s
  lateErrorKeepsOkStatus := %s

end SpyneModel.Generated
''' % (f['closeTiming'], f['wsdlCloseTiming'], f['joinKind'], f['clParse'], b(f['genGuard']), b(f['soapEmptyBodyFault']),
       f['soapBadLengthClass'], f['soapEmptyBodyClass'], b(f['wsdlErrBytes']), b(f['wsdlErrClosed']), tab(f['statusPlain']), tab(f['statusSoap']), f['preRejectStatus'],
       f['wsdlOkStatus'], f['wsdlUnavailableStatus'], f['wsdlErrorStatus'], f['okStatus'], b(f['returnEventBeforeLength']), b(f['errorEventBeforeLength']),
       b(f['auxGuardOk']), b(f['auxGuardError']), b(f['finalizeClearedFirst']), b(f['errMaterialisesGenerator']),
       b(f['errMaterialisesIterator']), f['lateJoinGuard'], b(f['headerTuplesExpanded']),
       b(f['lateErrorKeepsOkStatus']))


# ------------------------------------------------------------------------------------ generators
CALLS = [
    ('echo', {'s': 'hi'}), ('echo', {'s': 'x' * 40}), ('val', {'n': 3}), ('val', {'n': -3}),
    ('#junk', {}), ('#unknown', {}),
    ('gen', {'n': 3}), ('gen', {'n': 1}), ('gen', {'n': 0}), ('gen', {'n': 2, 'mode': 'late'}),
    ('gen', {'n': 2, 'mode': 'raises:client'}), ('gen', {'n': 2, 'mode': 'raises:crash'}),
    ('gen', {'n': 0, 'mode': 'raises:notFound'}), ('gen', {'n': 2, 'mode': 'late:client'}), ('gen', {'n': 1, 'mode': 'late:notFound'}),
    ('raw', {'sizes': '1,2,3', 'lazy': 'gen'}), ('raw', {'sizes': '1,2,3', 'lazy': 'list'}),
    ('raw', {'sizes': '5', 'lazy': 'tuple'}), ('raw', {'sizes': '', 'lazy': 'gen'}), ('raw', {'sizes': '', 'lazy': 'list'}),
    ('raw', {'sizes': '0,0,4', 'lazy': 'gen', 'code': '201 Created'}), ('raw', {'sizes': '2,2', 'lazy': 'list', 'code': '202 Accepted'}),
    ('raw', {'sizes': '1,2,3', 'lazy': 'chain'}), ('raw', {'sizes': '4,1', 'lazy': 'iter'}), ('raw', {'sizes': '2,2,2', 'lazy': 'map'}),
] + [('fail', {'kind': 'client', 'sizes': '4,3', 'lazy': lz}) for lz in ('list', 'tuple', 'gen', 'chain', 'iter', 'map')
] + [('fail', {'kind': 'server', 'sizes': '6', 'lazy': 'chain', 'code': '503 Busy'})
] + [('fail', {'kind': k}) for k in FAULT_KINDS + ['crash']] + [('fail', {'kind': 'client', 'code': '418 Teapot'}),
                                                                 ('fail', {'kind': 'tooLong', 'code': '409 Conflict'})]

# round 4: further outcomes / routes / documents / environments (no auxiliary counterpart is declared for these methods)
CALLS2 = [('ign', {'s': 'a'}), ('ign2', {'s': 'a'}), ('redir', {'s': 'a'}), ('respond', {'s': 'a'}), ('swap', {'s': 'a'}),
          ('oh', {'s': 'a'}), ('frozen', {'s': 'a'})]
HTTPOUT_CALLS = [('echo', {'s': 'hi'}), ('val', {'n': 3}), ('val', {'n': -3}), ('#unknown', {}), ('fail', {'kind': 'client'}),
                 ('fail', {'kind': 'crash'}), ('fail', {'kind': 'tooLong', 'code': '409 Conflict'}),
                 ('raw', {'sizes': '1,2,3', 'lazy': 'chain'}), ('raw', {'sizes': '2,2', 'lazy': 'list', 'code': '202 Accepted'}),
                 ('pat', {'s': 'abc'})] + [c for c in CALLS2 if c[0] != 'ign2']      # (HttpRpc cannot serialise two return values)
_ENVELOPE = '<soap:Envelope xmlns:soap="http://schemas.xmlsoap.org/soap/envelope/" xmlns:tns="tns">%s</soap:Envelope>'
DOCS = {'json': [b'[]', b'null', b'5', b'"x"', b'{}', b'{"a":{},"b":{}}', b'{"echo": 5}', b'{"echo": {"s": {"x": 1}}}',
                 b'{"echo": {"s": ["a","b"]}}', b'{"echo": [1, 2, 3]}', b'\xff\xfe'],
        'soap': [b'<a/>', (_ENVELOPE % '').encode(), (_ENVELOPE % '<soap:Body/>').encode(), b'\xff\xfe<a/>',
                 (_ENVELOPE % '<soap:Header/>').encode()]}
DOCS['jsonp'] = DOCS['json']
ENVS = [{'HTTP_HOST': 'example.org:8080', 'HTTP_X_FOO': 'bar', 'HTTP_COOKIE': 'k=v; other=1', 'REMOTE_ADDR': '127.0.0.1', 'REMOTE_PORT': '5555'},
        {'REMOTE_ADDR': '::1', 'REMOTE_PORT': '5555', 'HTTP_X_FORWARDED_FOR': '10.0.0.1'},
        {'wsgi.url_scheme': 'https', 'SERVER_PORT': '8443'}, {'wsgi.url_scheme': 'https', 'SERVER_PORT': '443'},
        {'SERVER_PORT': '8080'}, {'SCRIPT_NAME': '/app'}, {'SCRIPT_NAME': '//app', 'HTTP_HOST': 'h'}]
HDRS4 = [[{'k': 'addhdr'}], [{'k': 'addhdr8'}, {'k': 'tuple', 'n': 2}]]


def gen_round4(ctx, add):
    rng = ctx.rng
    i = 0
    for proto in ('soap', 'json', 'jsonp', 'http', 'httpout'):
        calls = HTTPOUT_CALLS if proto == 'httpout' else CALLS2 + ([('pat', {'s': 'abc'})] if proto in GETP else [])
        for m, a in calls:
            for chunked in (True, False):
                for abort, noclose, cl_l in ((None, False, None), (1, False, None), (None, True, 'ctx'), (0, False, 'wsgi')):
                    i += 1
                    add(mkcase(proto, m, a, cfg=dict(BASE_CFG, chunked=chunked), abort=abort, noclose=noclose, close_listener=cl_l,
                               headers=(HDRS4[i % 2] if i % 3 == 0 else None),
                               on_return=({'sizes': [3, 1], 'lazy': 'chain'} if i % 5 == 0 else None),
                               on_exception=([2, 2] if i % 7 == 0 else None)), 'round4-outcomes')
        # documents that are not requests
        for d in DOCS.get(proto, []):
            for chunked in (True, False):
                add(mkcase(proto, '#doc', {'hex': d.hex()}, cfg=dict(BASE_CFG, chunked=chunked), abort=rng.choice([None, None, 0])), 'round4-docs')
        # environments: Host header, https, ports, SCRIPT_NAME, request headers, cookies (URL reconstruction runs on every request)
        for e in ENVS:
            add(mkcase(proto, 'echo', {'s': 'hi'}, env=e), 'round4-env')
            add(mkcase(proto, 'fail', {'kind': 'client'}, env=e, abort=1), 'round4-env')
            if proto in ('soap', 'json'):
                add({'kind': 'wsdl', 'wsdl': 'ok', 'proto': proto, 'cfg': dict(BASE_CFG), 'abort': None, 'env': e}, 'round4-env')
        for h in HDRS4:
            add(mkcase(proto, 'echo', {'s': 'hi'}, headers=h), 'round4-headers')
            add(mkcase(proto, 'fail', {'kind': 'server'}, headers=h, cfg=dict(BASE_CFG, chunked=False)), 'round4-headers')
    # character sets announced for the request, a query string with a valueless name
    for ct, expect in (('application/json; charset=latin-1', None), ('application/json; charset=bogus', 'malformed'),
                       ('application/json; charset=utf-16', 'malformed'), ('text/plain', None)):
        for proto in ('json', 'jsonp'):
            add(mkcase(proto, 'echo', {'s': 'hi'}, ctype=ct, expect=expect), 'round4-charset')
    add(mkcase('soap', 'echo', {'s': 'hi'}, ctype='text/xml; charset=bogus', expect='malformed'), 'round4-charset')
    add(mkcase('soap', 'echo', {'s': 'hi'}, ctype='text/xml; charset=latin-1'), 'round4-charset')
    for proto in GETP:
        add(mkcase(proto, 'echo', {'s': 'hi'}, qs_prefix='flag&'), 'round4-qs')
        add(mkcase(proto, 'echo', {'s': 'hi'}, qs_prefix='s=again&', expect='malformed'), 'round4-qs')
    # patterns bound to a verb / a host: matching, non-matching (falls back to the last path segment), verb groups
    for proto in GETP:
        # (HttpPattern(host=...) cannot even be declared under Python 3: its regex helper mixes str and bytes)
        for route, env, expect in (('/q/', None, None), ('/q/', {'HTTP_HOST': 'example.org:8080'}, None),
                                   ('/v/', None, 'unknown'), ('/zzz/', None, 'unknown')):
            add(mkcase(proto, 'pat2', {'s': 'abc'}, route=route, env=env, expect=expect), 'round4-patterns')
    # a before_deserialize handler of the in-protocol that raises something that is not a Fault
    for proto in ('soap', 'json', 'jsonp', 'http', 'httpout'):
        for m, a in (('echo', {'s': 'hi'}), ('val', {'n': -3}), ('fail', {'kind': 'client'}), ('#unknown', {})):
            for abort in (None, 1):
                add(mkcase(proto, m, a, deser_raises=True, abort=abort, cfg=dict(BASE_CFG, chunked=abort is None)), 'round4-deser-handler')
    # values the lazy out protocols cannot write (failure at dump time) x ordinary / generator method x chunked x consumer
    i = 0
    for proto in ('json', 'jsonp', 'http', 'soap'):
        for m, a in (('unser', {}), ('unser', {'code': '201 Created'}), ('ugen', {'s': 'a'})):
            for chunked in (True, False):
                for abort, noclose in ((None, False), (None, True), (0, False), (1, False)):
                    i += 1
                    add(mkcase(proto, m, a, cfg=dict(BASE_CFG, chunked=chunked), abort=abort, noclose=noclose,
                               headers=([{'k': 'tuple', 'n': 2}] if i % 4 == 0 else None),
                               on_exception=([3, 3] if i % 5 == 0 else None),
                               on_return=({'sizes': [2], 'lazy': 'list'} if i % 7 == 0 else None),
                               close_listener=('wsgi' if i % 6 == 0 else None)), 'dump-failure')
        # a method declared with two return values that returns a sequence of another length, or nothing
        for mode in ('empty', 'list0', 'one', 'three', 'ok', 'none'):
            for chunked in (True, False):
                add(mkcase(proto, 'two', {'mode': mode}, cfg=dict(BASE_CFG, chunked=chunked), abort=[None, 1][chunked]), 'multi-return')
    # settings handed to the constructor and left alone, the falsy ones in particular (0 is a legal limit: nothing may be read)
    for proto in ('json', 'soap'):
        doc_len = len(request_doc(mkcase(proto, 'echo', {'s': 'hi'})))
        for mx, block in ((0, 8192), (1, 1), (0, 0), (doc_len, 0), (doc_len, 1), (doc_len - 1, 7)):
            for cl in (None, str(doc_len)):
                add(mkcase(proto, 'echo', {'s': 'hi'}, cfg={'chunked': mx % 2 == 0, 'max': mx, 'block': block}, cl=cl,
                           plan=filelike(doc_len, max(block, 1)), via_ctor=True), 'ctor-settings')
    # optional CGI variables that a server may omit when they are empty (PEP 3333); SERVER_NAME only when Host is given
    for proto in ('http', 'httpout'):
        add(mkcase(proto, 'echo', {}, env_del=['QUERY_STRING']), 'env-optional')
        add(mkcase(proto, 'echo', {}, env_del=['QUERY_STRING', 'SCRIPT_NAME'], abort=1), 'env-optional')
        add(mkcase(proto, 'echo', {}, env_del=['PATH_INFO'], expect='unknown'), 'env-optional')
        add(mkcase(proto, 'echo', {'s': 'hi'}, env_del=['SERVER_NAME', 'SERVER_PORT'], env={'HTTP_HOST': 'example.org:81'}), 'env-optional')
    for proto in ('soap', 'json'):
        add(mkcase(proto, 'echo', {'s': 'hi'}, env_del=['QUERY_STRING']), 'env-optional')
        add(mkcase(proto, 'echo', {'s': 'hi'}, env_del=['PATH_INFO', 'QUERY_STRING', 'SCRIPT_NAME']), 'env-optional')
        add(mkcase(proto, 'echo', {'s': 'hi'}, verb='GET', env_del=['QUERY_STRING', 'CONTENT_TYPE']), 'env-optional')
        for dels, extra in ((['PATH_INFO'], None), (['SERVER_NAME', 'SERVER_PORT'], {'HTTP_HOST': 'example.org'}), (['CONTENT_TYPE'], None)):
            add({'kind': 'wsdl', 'wsdl': 'ok', 'proto': proto, 'cfg': dict(BASE_CFG), 'abort': None, 'env_del': dels, 'env': extra}, 'env-optional')
        add({'kind': 'wsdl', 'wsdl': 'ok', 'proto': proto, 'cfg': dict(BASE_CFG), 'abort': None, 'wsdl_by_path': True, 'env_del': ['QUERY_STRING']},
            'env-optional')
    # return types written by the out protocol's to_bytes machinery: format / str_format / encoding, byte arrays, files
    for proto in ('httpout', 'json', 'soap'):
        for m in ('fmt', 'fmt2', 'enc', 'bal', 'fvl', 'ba', 'fv'):
            if proto != 'httpout' and m in ('ba', 'fv', 'fvl', 'bal'):
                continue
            for chunked in (True, False):
                add(mkcase(proto, m, {}, cfg=dict(BASE_CFG, chunked=chunked)), 'out-types')
                add(mkcase(proto, m, {'s': 'gr\xfc\xdf'}, cfg=dict(BASE_CFG, chunked=chunked), abort=1), 'out-types')
    # MTOM packaging of the response (a serialisation failure when guarded, see fixes/C13-09)
    for chunked in (True, False):
        add(mkcase('soap', 'mt', {'s': 'a'}, cfg=dict(BASE_CFG, chunked=chunked)), 'round4-mtom')


CL_TEXTS = ['abc', '', '-1', '0', ' 12 ', '+5', '1_0', '1__0', '12a', '0x10', '1.0', '1e3', '007', '-0', '1 2', '--1', '\t9\n']


def cl_choices(doc_len, mx, real):
    vals = {None, '', 'abc', '-1', '0', str(mx), str(mx + 1), str(mx - 1 if mx else 0), str(10 ** 12), ' %d ' % doc_len,
            '+%d' % doc_len}
    for v in (doc_len - 1, doc_len, doc_len + 1, real - 1, real, real + 1):
        if v >= 0:
            vals.add(str(v))
    return sorted(vals, key=lambda x: (x is not None, x or ''))


def plans(rng, real, block):
    """stream behaviours delivering at most `real` bytes"""
    out = [filelike(real, block)]
    if real:
        out.append([real])                                   # everything available at once (large reads served fully)
        out.append([1] * real if real <= 64 else filelike(real, max(1, block // 2)))   # trickle / short reads
        k = rng.randrange(real)
        out.append(filelike(k, block) + [0] + filelike(real - k, block))               # a premature EOF
        cuts, left = [], real
        while left:
            s = rng.randrange(1, left + 1)
            cuts.append(s); left -= s
        out.append(cuts)
    return out


def gen_cases(ctx):
    rng = ctx.rng
    cases = []

    def add(c, tag):
        c['tag'] = tag
        cases.append(c)

    # -- WSDL requests
    for proto in ('soap', 'json'):
        for chunked in (True, False):
            for k in ('ok', 'unavailable', 'buildError'):
                for abort in (None, 0, 1, 2):
                    add({'kind': 'wsdl', 'wsdl': k, 'proto': proto, 'cfg': dict(BASE_CFG, chunked=chunked), 'abort': abort,
                         'wsdl_by_path': abort == 2}, 'wsdl')
                if True:
                    add({'kind': 'wsdl', 'wsdl': k, 'proto': proto, 'cfg': dict(BASE_CFG, chunked=chunked), 'abort': None,
                         'noclose': True}, 'wsdl')
    # -- every outcome class x protocol x chunked x abort point, generous limits
    for proto in ('soap', 'json', 'jsonp', 'http'):
        for chunked in (True, False):
            for m, a in CALLS:
                if proto in GETP and m == '#junk':
                    continue        # HttpRpc GET has no request document
                for abort in (None, 0, 1, 2, 5):
                    if abort in (2, 5) and m != 'raw':
                        continue
                    add(mkcase(proto, m, a, cfg=dict(BASE_CFG, chunked=chunked), abort=abort), 'outcomes')
                    if abort is None:
                        add(mkcase(proto, m, a, cfg=dict(BASE_CFG, chunked=chunked), abort=None, noclose=True), 'outcomes')
    # -- transport-level listeners that replace the outgoing stream: every outcome x protocol x chunked x rewrite shape
    RET = [{'sizes': [3], 'lazy': 'list'}, {'sizes': [2, 0, 5], 'lazy': 'gen'}, {'sizes': [], 'lazy': 'list'},
           {'sizes': [400], 'lazy': 'tuple'}, {'sizes': [1, 1], 'lazy': 'list'}]
    EXC = [[4, 3], [], [500], [0, 1]]
    for proto in ('soap', 'json', 'jsonp', 'http'):
        for chunked in (True, False):
            for m, a in CALLS:
                if proto in GETP and m == '#junk':
                    continue
                for i, (r, e) in enumerate([(r, e) for r in RET for e in EXC][::3]):
                    add(mkcase(proto, m, a, cfg=dict(BASE_CFG, chunked=chunked), abort=[None, 1, None, 0][i % 4],
                               on_return=r, on_exception=e if i % 2 == 0 else None), 'listeners')
    # -- auxiliary services (none / ok / Fault / non-Fault in user code / unserialisable response; with and without
    #    process_exceptions) and user-set response headers (str / latin-1 / list / tuple / several) x every outcome
    HDRS = [[{'k': 'str'}], [{'k': 'latin1'}], [{'k': 'list', 'n': 2}], [{'k': 'tuple', 'n': 2}], [{'k': 'tuple', 'n': 0}],
            [{'k': 'list', 'n': 0}, {'k': 'str'}, {'k': 'tuple', 'n': 3}], [{'k': 'tuple', 'n': 1}, {'k': 'list', 'n': 3}]]
    AUXK = ['ok', 'userFault', 'userCrash', 'serFail']
    i = 0
    for proto in ('soap', 'json', 'jsonp', 'http'):
        for m, a in CALLS:
            if proto in GETP and m == '#junk':
                continue
            for ak in AUXK:
                for onerr in (False, True):
                    i += 1
                    add(mkcase(proto, m, a, cfg=dict(BASE_CFG, chunked=i % 3 != 0), abort=[None, None, 0, 1][i % 4], aux=ak,
                               aux_on_errors=onerr, headers=HDRS[i % len(HDRS)] if i % 2 else None), 'aux')
            for h in HDRS:
                i += 1
                add(mkcase(proto, m, a, cfg=dict(BASE_CFG, chunked=i % 2 == 0), abort=[None, 1][i % 2], headers=h), 'headers')
    # -- finalisation listeners that raise (method_context_closed / wsgi_close) x every outcome x consumer behaviour:
    #    exhaust + close(), exhaust without close(), stop after 0 / 1 / more chunks than there are
    i = 0
    for proto in ('soap', 'json', 'jsonp', 'http'):
        for m, a in CALLS:
            if proto in GETP and m == '#junk':
                continue
            for kind in ('ctx', 'wsgi'):
                for abort, noclose in ((None, False), (None, True), (0, False), (1, False), (9, False)):
                    i += 1
                    if i % 2 and abort in (0, 9):
                        continue
                    add(mkcase(proto, m, a, cfg=dict(BASE_CFG, chunked=i % 3 != 0), abort=abort, noclose=noclose,
                               close_listener=kind), 'close-listener')
    for k in ('ok', 'unavailable', 'buildError'):
        for abort, noclose in ((None, False), (None, True), (0, False), (1, False), (2, False)):
            add({'kind': 'wsdl', 'wsdl': k, 'proto': 'soap', 'cfg': dict(BASE_CFG), 'abort': abort, 'noclose': noclose,
                 'close_listener': 'ctx'}, 'close-listener')
    gen_round4(ctx, add)
    # -- Soap11 refusing verb / content type before reading
    for chunked in (True, False):
        add(dict(mkcase('soap', 'echo', {'s': 'hi'}, cfg=dict(BASE_CFG, chunked=chunked)), verb='GET'), 'prereject')
        add(dict(mkcase('soap', 'echo', {'s': 'hi'}, cfg=dict(BASE_CFG, chunked=chunked)), ctype=None), 'prereject')
        add(dict(mkcase('soap', 'echo', {'s': 'hi'}, cfg=dict(BASE_CFG, chunked=chunked), cl=str(10 ** 9)), verb='PUT'), 'prereject')
    # -- CONTENT_LENGTH spellings
    for proto in ('soap', 'json'):
        for t in CL_TEXTS:
            add(mkcase(proto, 'echo', {'s': 'hi'}, cl=t), 'cl-text')
    # -- the size-limit grid: CONTENT_LENGTH x real length x block x max, all stream behaviours
    for proto in ('json', 'soap'):
        doc_len = len(request_doc(mkcase(proto, 'echo', {'s': 'hi'})))
        blocks = [1, 7, 8192] if proto == 'json' else [7, 64, 8192]
        for block in blocks:
            for mx in sorted({0, 1, block, doc_len - 1, doc_len, doc_len + 1, doc_len + block, 2 * block, 3 * block + 1, 400}):
                if mx < 0:
                    continue
                reals = sorted({0, 1, doc_len - 1, doc_len, doc_len + 1, mx - 1 if mx else 0, mx, mx + 1, mx + block, doc_len + 3 * block if block < 100 else doc_len + 10})
                for real in reals:
                    if real < 0 or real > 3000:
                        continue
                    for cl in cl_choices(doc_len, mx, real):
                        if rng.random() < (0.55 if not ctx.thorough else 0.0) and cl not in (None, str(mx), str(mx + 1), str(doc_len), str(real)):
                            continue
                        pl = plans(rng, real, block)
                        for p in (pl if ctx.thorough else [pl[0], rng.choice(pl)]):
                            m, a = ('echo', {'s': 'hi'})
                            add(mkcase(proto, m, a, cfg={'chunked': rng.random() < 0.7, 'max': mx, 'block': block},
                                       cl=cl, plan=p, abort=rng.choice([None, None, 0, 1])), 'grid')
    # -- block_length 0 (a reader that can never make progress must still terminate)
    add(mkcase('json', 'echo', {'s': 'hi'}, cfg={'chunked': True, 'max': 100, 'block': 0}, plan=[5, 5]), 'block0')
    # -- undeclared over-long bodies whose truncation is still a document (padding after the document)
    for proto in ('json', 'soap'):
        doc_len = len(request_doc(mkcase(proto, 'echo', {'s': 'hi'})))
        for extra in (0, 1, 50):
            for cl in (None, str(doc_len + extra + 7)):
                add(mkcase(proto, 'echo', {'s': 'hi'}, cfg={'chunked': True, 'max': doc_len + extra, 'block': 16}, cl=cl,
                           plan=filelike(doc_len + extra + 7, 16)), 'padded-overlong')
    # -- seeded random
    n = 12000 if ctx.thorough else 2500
    for _ in range(n):
        proto = rng.choice(['json', 'json', 'soap', 'http', 'jsonp'])
        m, a = rng.choice(CALLS + [c for c in CALLS if c[0] == 'raw'])
        if proto in GETP and m == '#junk':
            m = '#unknown'
        if m == 'raw' and rng.random() < 0.7:
            k = rng.randrange(0, 6)
            a = {'sizes': ','.join(str(rng.choice([0, 1, 2, 7, 100])) for _ in range(k)),
                 'lazy': rng.choice(['gen', 'list', 'tuple', 'chain', 'iter', 'map']),
                 'code': rng.choice([None, None, '201 Created', '299 Odd'])}
        base = mkcase(proto, m, a)
        doc_len = len(request_doc(base))
        block = rng.choice([1, 3, 7, 16, 64, 8192])
        mx = rng.choice([0, 1, doc_len - 1, doc_len, doc_len + 1, doc_len + rng.randrange(0, 40), rng.randrange(0, 400), 1 << 21])
        mx = max(mx, 0)
        real = max(0, rng.choice([doc_len, doc_len, doc_len + rng.randrange(0, 30), rng.randrange(0, doc_len + 1), mx, mx + 1, mx + rng.randrange(0, 50)]))
        real = min(real, 4000)
        cl = rng.choice(cl_choices(doc_len, mx, real) + [str(doc_len)] * 6 + [None] * 2)
        c = mkcase(proto, m, a, cfg={'chunked': rng.random() < 0.6, 'max': mx, 'block': block},
                   cl=(None if proto in GETP and rng.random() < 0.8 else (cl if proto not in GETP else rng.choice([None, '', '0']))),
                   plan=rng.choice(plans(rng, real, block)) if proto not in GETP else [],
                   abort=rng.choice([None, None, None, 0, 1, 2, 3, 6]))
        if proto == 'soap' and rng.random() < 0.05:
            c['verb'] = rng.choice(['GET', 'PUT'])
        if c['abort'] is None and rng.random() < 0.3:
            c['noclose'] = True
        if rng.random() < 0.25:
            k = rng.randrange(0, 4)
            c['on_return'] = {'sizes': [rng.choice([0, 1, 5, 300]) for _ in range(k)],
                              'lazy': rng.choice(['list', 'gen', 'tuple', 'chain', 'iter', 'map'])}
        if rng.random() < 0.2:
            c['close_listener'] = rng.choice(['ctx', 'wsgi'])
        if rng.random() < 0.25:
            c['aux'] = rng.choice(AUXK)
            c['aux_on_errors'] = rng.random() < 0.5
        if rng.random() < 0.25:
            c['headers'] = [rng.choice([{'k': 'str'}, {'k': 'latin1'}, {'k': 'list', 'n': rng.randrange(4)}, {'k': 'tuple', 'n': rng.randrange(4)}])
                            for _ in range(rng.randrange(1, 4))]
        if rng.random() < 0.25:
            c['on_exception'] = [rng.choice([0, 2, 9, 300]) for _ in range(rng.randrange(0, 3))]
        add(c, 'random')
    return cases


def nontrivial(case, tr):
    return len(tr) >= 3


# ------------------------------------------------------------------------------------ run
def run(ctx):
    impl_env()
    # ---- T1
    f = measure_facts()
    ctx.facts = f
    ctx.write_generated('Facts13.lean', facts_lean(f))
    for k, good in GOOD.items():
        if f[k] != good:
            ctx.hit('fact-bad:' + k)
            w = WITNESS[k]
            tr, side, _ = execute(w)
            ctx.finding('switch:%s=%s' % (k, str(f[k]).lower() if isinstance(f[k], bool) else f[k]), SWITCH_WHAT[k],
                        {'case': w, 'fact': k, 'measured': f[k], 'good': good, 'impl_trace': tr})
    # the transport settings reach the object the requests read them from (the cases below set them on shared applications)
    E = impl_env()
    from spyne import Application, Service
    from spyne.protocol.json import JsonDocument
    probe = E['WsgiApplication'](Application([type('Probe', (Service,), {})], 'tns.probe', in_protocol=JsonDocument(),
                                             out_protocol=JsonDocument()), chunked=False, max_content_length=123, block_length=45)
    dflt = E['WsgiApplication'](Application([type('Probe2', (Service,), {})], 'tns.probe2', in_protocol=JsonDocument(),
                                            out_protocol=JsonDocument()))
    got = (probe.chunked, probe.max_content_length, probe.block_length, dflt.chunked, dflt.max_content_length, dflt.block_length)
    zero = E['WsgiApplication'](Application([type('Probe3', (Service,), {})], 'tns.probe3', in_protocol=JsonDocument(),
                                            out_protocol=JsonDocument()), chunked=True, max_content_length=0, block_length=1)
    got_zero = (zero.max_content_length, zero.block_length)
    if got_zero != (0, 1):
        ctx.finding('ctor-settings', 'WsgiApplication(max_content_length=0, block_length=1) stored as %r' % (got_zero,), {'observed': list(got_zero)})
    if got != (False, 123, 45, True, 2 * 1024 * 1024, 8 * 1024):
        ctx.finding('ctor-settings', 'WsgiApplication(chunked=False, max_content_length=123, block_length=45) / defaults stored as %r' % (got,),
                    {'observed': list(got)})
    # ---- proof
    ctx.prove()

    # ---- T2 + T3
    cases = gen_cases(ctx)
    Q = []
    seen_val = 0
    import time as _time
    t_log = _time.time()
    ctx.log('T2/T3: %d cases' % len(cases))
    for n_case, case in enumerate(cases):
        if _time.time() - t_log > 60:
            t_log = _time.time()
            ctx.log('T2/T3: %d of %d cases executed' % (n_case, len(cases)))
        tr, side, calls = execute(case)
        ref = reference(case)
        if case['kind'] == 'rpc' and case['call']['m'] not in ('raw',) and 'chunks' not in ref and side.get('sized') and 'chunks' in side:
            ref = dict(ref, chunks=side['chunks'], sized=True)
        q = model_query(case, side, ref)
        # (MTOM: apply_mtom is Python-2 code; while its failure escapes the callable it is a T3 finding only)
        # (likewise a multi-return method returning nothing, while that escapes as StopIteration / AssertionError: C13-10)
        if case['kind'] == 'rpc' and case['call']['m'] in ('ba', 'fv') and side.get('odd_chunk') == 'int':
            pass        # ints as body chunks (HttpRpc, chunked): property oracle only
        elif case.get('env_del') and any(e[0] == 'crash' for e in tr):
            pass        # a missing optional CGI variable escaping as KeyError: property oracle only (fixes/C13-11)
        elif not (case['kind'] == 'rpc' and case['call']['m'] in ('mt', 'two') and any(e[0] == 'crash' for e in tr)):
            Q.append((q, tr, case))
        ctx.case({'case': {k: v for k, v in case.items() if k != 'tag'}}, nontrivial(case, tr))
        ctx.cov['traces_validated_against_impl'] += 1
        ctx.hit('tag:' + case['tag'])
        ctx.hit('proto:' + case['proto'])
        if side.get('body_exception'):
            ctx.hit('body-exception-in-server-hands:' + side['body_exception'])
        if case.get('close_listener'):
            ctx.hit('close-listener:%s' % case['close_listener'])
        if any(e[0] == 'lraise' for e in tr):
            ctx.hit('listener-exception-reached-server')
        if case.get('aux'):
            ctx.hit('aux:%s%s' % (case['aux'], '+process_exceptions' if case.get('aux_on_errors') else ''))
        for h in case.get('headers') or []:
            ctx.hit('user-header:' + h['k'])
        if side.get('ret_listener_ran'):
            ctx.hit('listener:wsgi_return-rewrites')
        if side.get('exc_listener_ran'):
            ctx.hit('listener:wsgi_exception-rewrites')
        ctx.hit('abort:' + (('none-noclose' if case.get('noclose') else 'none') if case.get('abort') is None else str(min(case['abort'], 3))))
        for e in tr:
            if e[0] == 'sr':
                ctx.hit('status:%s' % e[1]); ctx.hit('fault:%s' % e[2]); ctx.hit('content-length:' + ('sent' if e[3] is not None else 'absent'))
            if e[0] == 'crash':
                ctx.hit('crash:' + e[1])
        ctx.hit('reads:%s' % min(sum(1 for e in tr if e[0] == 'read'), 5))
        ctx.hit('chunks:%s' % min(sum(1 for e in tr if e[0] == 'chunk'), 4))
        if case['kind'] == 'rpc':
            d = declared_int(case)
            ctx.hit('cl:' + ('absent' if case.get('cl') is None else 'empty' if case['cl'] == '' else 'junk' if d is None else
                             'negative' if d < 0 else 'over-max' if d > case['cfg']['max'] else
                             'short' if d < sum(case.get('plan') or []) else 'exact' if d == sum(case.get('plan') or []) else 'long'))
        # T3 on the plain run
        for fid, what in oracle(case, tr, side, calls):
            ctx.hit('t3-fail:' + fid)
            ctx.finding(fid, what, {'case': case, 'impl_trace': tr, 'side': side})
        # second opinion: wsgiref.validate around the app, only where the environment itself is valid
        d = declared_int(case)
        # (not for the user's 204: wsgiref.validate objects to the Content-Type the transport keeps, which PEP 3333 does not)
        if (case.get('cl') in (None, '') or (d is not None and d >= 0)) and not any(e[0] == 'crash' for e in tr) and \
                not case.get('env_del') and \
                not (case['kind'] == 'rpc' and case['call']['m'] in ('respond', 'ba', 'fv')):
            seen_val += 1
            if seen_val % (1 if ctx.thorough else 3) == 0 or case.get('headers') or case.get('aux'):
                tr2, side2, _ = execute(case, validate=True)
                ctx.hit('validator-runs')
                if 'validator_error' in side2:
                    ctx.hit('t3-fail:validator')
                    ctx.finding('wsgiref-validator:' + re.sub(r'[^A-Za-z ]', '', re.split(r'[(:]', side2['validator_error'])[0])[:40].strip().replace(' ', '-'),
                                'wsgiref.validate: ' + side2['validator_error'], {'case': case, 'impl_trace': tr2, 'validate': True})
                elif tr2 != tr and not case.get('noclose'):
                    ctx.finding('nondeterministic-trace', 'the same request gives two traces', {'case': case, 'impl_trace': tr, 'second': tr2})
    ctx.log('T2: %d queries to the model' % len(Q))
    answers = ctx.model([q for q, _, _ in Q])
    ctx.log('T2: model answered')
    for (q, tr, case), mod in zip(Q, answers):
        if 'driver_error' in mod:
            raise core.Infra('driver error: %r on %r' % (mod, q))
        if mod['trace'] != tr:
            ctx.disagree('handle', {'case': case, 'query': q}, tr, mod['trace'])
    # the CONTENT_LENGTH reading on its own, against Python's int()
    lq, li = [], []
    for t in CL_TEXTS + [str(ctx.rng.randrange(-5, 10 ** ctx.rng.randrange(1, 12))) for _ in range(40)] + [None]:
        if t is not None and any(ord(c) > 127 for c in t):
            continue
        lq.append({'op': 'length', 'cfg': BASE_CFG, 'cl': None if t is None else [ord(c) for c in t]})
        try:
            li.append(str(BASE_CFG['max'] if t is None else 0 if t == '' else int(t)))
        except ValueError:
            li.append(None)
    for q, impl, mod in zip(lq, li, ctx.model(lq)):
        ctx.case(q)
        if mod.get('length') != impl:
            ctx.disagree('length', q, impl, mod.get('length'))
    ctx.cov['facts'] = {k: (v if not isinstance(v, dict) else v) for k, v in f.items()}
    ctx.cov['rule'] = ('case = (protocol soap/json/httprpc, chunked, max_content_length, block_length, request outcome class '
                       '[success plain/generator/raw out_string lazy or sized, each fault class, validation error, unknown '
                       'method, malformed, serialisation failure, ?wsdl ok/404/500], synchronous auxiliary method (ok / Fault / non-Fault / '
                       'unserialisable response; process_exceptions on/off), user-set response headers (str / latin-1 / list / '
                       'tuple / several), wsgi_return / wsgi_exception listeners that replace '
                       'ctx.out_string by a stream of another size / chunking / sized-ness, CONTENT_LENGTH text, input-stream plan '
                       '[file-like, all-at-once, trickle, premature EOF, random short reads], abort point). Enumerated: every '
                       'outcome x protocol x chunked x abort 0..n; the CONTENT_LENGTH x real-length x block x max boundary grid; '
                       'then seeded random. distinct = distinct canonical case; non-trivial = trace has at least 3 events')


def replay(ctx, obj):
    """re-execute a single recorded case on the implementation and on the model"""
    impl_env()
    case = obj.get('case')
    print('replay of', obj.get('finding_id'), '-', obj.get('what'))
    if not case:
        print('no concrete case recorded:', json.dumps({k: obj[k] for k in obj if k.startswith('broken')}, indent=1))
        return 0
    if 'query' in case and 'case' in case:
        case = case['case']
    tr, side, calls = execute(case, validate=bool(obj.get('validate')))
    print('case  :', json.dumps(case))
    print('impl  :', json.dumps(tr))
    if side.get('crash_detail'):
        print('        ', side['crash_detail'])
    if side.get('validator_error'):
        print('        validator:', side['validator_error'])
    bad = oracle(case, tr, side, calls) if not obj.get('validate') else []
    for fid, what in bad:
        print('T3    : FAIL', fid, '-', what)
    if not bad:
        print('T3    : the property holds on this case')
    try:
        f = measure_facts()
        if ctx.write_generated('Facts13.lean', facts_lean(f)):
            core.sh(['lake', 'build', 'Driver.C13'], cwd=core.LEAN, timeout=1200)
        q = model_query(case, side, reference(case))
        print('model :', json.dumps(ctx.model([q])[0]['trace']))
    except Exception as e:
        print('model : not available (%s)' % e)
    return 1 if bad or side.get('validator_error') else 0
