"""C01 — XML/SOAP wire fidelity: sent values reach the function, results reach the client.

T1: behaviour switches of spyne/protocol/xml.py -> SpyneModel/Generated/Facts01.lean
Proof: Props/C01.lean
T2: model-vs-implementation on request decoding (server pipeline) and response encoding
T3: captured arguments == sent values; response decoded by an independent schema-driven decoder == returned value
"""
from . import core, xmlblock as xb


def run(ctx):
    from . import c08
    c08.refresh_facts(ctx)      # leaf switches -> Generated/Facts08.lean (Props import Facts08Good)
    xb.t1(ctx)
    ctx.prove()
    xb.part_c01(ctx)
    xb.part_c01_ext(ctx)
    xb.part_c01_client(ctx)
    xb.part_c01_attrs(ctx)


def replay(ctx, obj):
    return xb.replay(ctx, obj)
