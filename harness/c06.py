"""C06 — the published XML Schema is truthful about the wire.

T1: leaf switches (c08.refresh_facts) and XML-codec switches (xmlblock.t1) -> Generated/Facts08.lean, Facts01.lean;
    schema-generator facts (type-name suffixes, built-in type names, urlsafe -> xs:string) -> Generated/Facts06.lean
Proof: Props/C06.lean
T2: Schema.gen vs the real XmlSchema documents (structural, namespace by namespace);
    Schema.compiles vs etree.XMLSchema accepting spyne's files;
    Schema.valid vs lxml validate on emitted / boundary / mutated documents;
    XSD lexical recognisers vs lxml per built-in type
T3: every request / response document spyne emits for conformant values validates against spyne's own
    schema (XmlDocument, Soap11, Soap12; polymorphic responses too); verdicts of the lxml validator and the soft
    validator agree on documents in the common form.
"""
import copy, itertools, json, re

from . import core
from . import xmlblock as xb

XS, XSI = xb.XS, xb.XSI
XSI_NIL, XSI_TYPE = xb.XSI_NIL, xb.XSI_TYPE
cps, uncps = xb.cps, xb.uncps


# ====================================================================================== real schema -> canonical form
class Unmodelled(Exception):
    pass


def _qn(el, v):
    """QName attribute value -> [ns, local]"""
    if ':' in v:
        pref, local = v.split(':', 1)
    else:
        pref, local = None, v
    ns = el.nsmap.get(pref)
    if ns is None:
        raise Unmodelled('unbound prefix in %r' % v)
    return [ns, local]


def _occ(el):
    mx = el.get('maxOccurs', '1')
    return [int(el.get('minOccurs', '1')), None if mx == 'unbounded' else int(mx), el.get('nillable', 'false') == 'true']


def canon_real_schema(docs, nsmap):
    """{prefix: <xs:schema> element} -> canonical dict (what the model's `gen` is compared with)"""
    from lxml import etree
    out = {'simple': {}, 'complex': {}, 'elements': {}, 'imports': set(), 'order': {}, 'raw': []}
    x = lambda n: '{%s}%s' % (XS, n)

    def qn(el, v):
        k = _qn(el, v)
        if k[0] != XS:
            out['raw'].append((tns, tuple(k), v))       # the QName as written, for the prefix check
        return k
    for pref, root in docs.items():
        tns = root.get('targetNamespace')
        if root.get('elementFormDefault') != 'qualified' or nsmap[pref] != tns:
            raise Unmodelled('schema header')
        if tns in out['order']:
            raise Unmodelled('two documents for one namespace')
        out['order'][tns] = [el.get('namespace') for el in root if el.tag == x('import')]
        for el in root:
            if not isinstance(el.tag, str):
                continue
            if el.tag == x('import'):
                out['imports'].add((tns, el.get('namespace')))
            elif el.tag == x('simpleType'):
                (r,) = list(el)
                if r.tag != x('restriction'):
                    raise Unmodelled('simpleType child %s' % r.tag)
                bns, base = qn(r, r.get('base'))
                if bns != XS:
                    raise Unmodelled('restriction of a non-builtin')
                facets = []
                for f in r:
                    name = etree.QName(f).localname
                    v = f.get('value')
                    facets.append([name, cps(v) if name in ('enumeration', 'pattern') else str(int(v))])
                key = (tns, el.get('name'))
                if key in out['simple']:
                    raise Unmodelled('duplicate simpleType')
                out['simple'][key] = [base, facets]
            elif el.tag == x('complexType'):
                base, seqp = None, el
                kids = list(el)
                if kids and kids[0].tag == x('complexContent'):
                    (ext,) = list(kids[0])
                    if ext.tag != x('extension'):
                        raise Unmodelled('complexContent child')
                    base = qn(ext, ext.get('base'))
                    seqp = ext
                    kids = list(ext)
                if len(kids) > 1 or (kids and kids[0].tag != x('sequence')):
                    raise Unmodelled('complexType content %r' % [k.tag for k in kids])
                parts = []
                for p in (list(kids[0]) if kids else []):
                    if p.tag != x('element') or set(p.attrib) - {'name', 'type', 'minOccurs', 'maxOccurs', 'nillable'}:
                        raise Unmodelled('particle %s %r' % (p.tag, dict(p.attrib)))
                    parts.append([p.get('name'), qn(p, p.get('type')), _occ(p)])
                key = (tns, el.get('name'))
                if key in out['complex']:
                    raise Unmodelled('duplicate complexType')
                out['complex'][key] = [base, parts]
            elif el.tag == x('element'):
                out['elements'][(tns, el.get('name'))] = qn(el, el.get('type'))
            else:
                raise Unmodelled('global %s' % el.tag)
    return out


def canon_model_schema(s):
    out = {'simple': {}, 'complex': {}, 'elements': {}, 'imports': set()}
    for key, base, facets in s['simple']:
        out['simple'][tuple(key)] = [base, [[f[0], f[1]] for f in facets]]
    for key, base, parts in s['complex']:
        out['complex'][tuple(key)] = [base, [[p[0], p[1], p[2]] for p in parts]]
    for key, tk in s['elements']:
        out['elements'][tuple(key)] = tk
    for a, b in s['imports']:
        out['imports'].add((a, b))
    return out


def _sort_enums(facets):
    """enumeration facets form a set: compare them irrespective of order (xmlblock reports `values` sorted)"""
    en = sorted(f for f in facets if f[0] == 'enumeration')
    it = iter(en)
    return [next(it) if f[0] == 'enumeration' else f for f in facets]


def schema_diff(real, model):
    """list of differences (component kind, key, real, model)"""
    diffs = []
    for kind in ('simple', 'complex', 'elements'):
        for k in sorted(set(real[kind]) | set(model[kind])):
            r, m = real[kind].get(k), model[kind].get(k)
            if kind == 'simple' and r and m:
                r, m = [r[0], _sort_enums(r[1])], [m[0], _sort_enums(m[1])]
            if r != m:
                diffs.append((kind, list(k), real[kind].get(k), model[kind].get(k)))
    if real['imports'] != model['imports']:
        diffs.append(('imports', None, sorted(real['imports'] - model['imports']), sorted(model['imports'] - real['imports'])))
    return diffs


def set_diff(real, mset):
    """the set of documents: one per namespace, <xs:import> order, QNames as written (model: Schema.docs / qnameOf)"""
    diffs = []
    mdocs = dict((d[0], d[1]) for d in mset['docs'])
    if len(mdocs) != len(mset['docs']):
        diffs.append(('docs', 'model lists a namespace twice', None, mset['docs']))
    if real['order'] != mdocs:
        diffs.append(('documents/import-order', None, real['order'], mdocs))
    want = {}
    for doc, key, q, rt in mset['qnames']:
        want[(doc, tuple(key))] = q
        if not rt:
            diffs.append(('qname-roundtrip', [doc, key], None, q))
    for doc, key, raw in real['raw']:
        if want.get((doc, key), 'missing') != raw:
            diffs.append(('qname', [doc, list(key)], raw, want.get((doc, key), 'missing')))
    have = set((doc, key) for doc, key, _ in real['raw'])
    for dk in want:
        if dk not in have:
            diffs.append(('qname', list(dk), None, want[dk]))
    for ns, imps in real['order'].items():
        for i in imps:
            if i not in real['order']:
                diffs.append(('import-without-document', ns, i, None))
    return diffs


def real_schema(app):
    from spyne.interface.xml_schema import XmlSchema
    sch = XmlSchema(app.interface)
    sch.build_interface_document()
    return sch, sch.get_interface_document()


def compile_real(app):
    """does lxml accept spyne's own schema files? (the path validator='lxml' takes)"""
    from spyne.interface.xml_schema import XmlSchema
    import logging
    sch = XmlSchema(app.interface)
    try:
        sch.build_validation_schema()
        return True, sch.validation_schema
    except Exception as e:
        return False, '%s: %s' % (type(e).__name__, str(e)[:300])


def app_json(b, app):
    """input of the model's generator: the introspected interface + names/namespaces of the Enum classes in use"""
    from spyne.model.enum import EnumBase
    enums = {}
    real_schema(app)        # prefixes are handed out (s0, s1, ...) while the documents are built
    for key, cls in sorted(app.interface.classes.items()):
        if key.startswith('{') and isinstance(cls, type) and issubclass(cls, EnumBase):
            enums[tuple(cls.__values__)] = [list(cls.__values__), cls.get_namespace(), cls.get_type_name()]
    return {'iface': b.iface, 'enums': [enums[k] for k in sorted(enums)], 'values': values_table(b, app),
            'prefixes': sorted([ns, p] for ns, p in app.interface.prefmap.items())}


# ====================================================================================== `values=` on non-string primitives
VALUE_KINDS = ('int', 'date', 'time', 'dt', 'dur')


def _pkey(p):
    return json.dumps({k: v for k, v in p.items() if not k.startswith('_')}, sort_keys=True)


def values_table(b, app):
    """the `values` facet of the non-string primitive classes in use, introspected from the live classes:
    [[PrimTy JSON, [Val JSON ...]] ...] — one list per primitive (the model's grain)"""
    from spyne.model import SimpleModel
    from spyne.model.primitive import Unicode
    from spyne.model.enum import EnumBase
    from spyne.model.binary import ByteArray
    table = {}
    for key, cls in sorted(app.interface.classes.items()):
        if not (key.startswith('{') and isinstance(cls, type) and issubclass(cls, SimpleModel)):
            continue
        if issubclass(cls, (Unicode, EnumBase, ByteArray)) or not cls.Attributes.values:
            continue
        p = xb.prim_of(b, cls)
        ty = {'k': 'prim', 'p': p, 'o': xb.default_occ()}
        vals = [xb.from_native_one(b, ty, v) for v in cls.Attributes.values]
        k = _pkey(p)
        if k in table and table[k][1] != vals:
            raise core.Infra('generator bug: two value lists for one primitive %s' % k)
        table[k] = [p, vals]
    return [table[k] for k in sorted(table)]


def _walk_prims(t, depth, out):
    """(prim dict, array depth) of the primitive a type reference ends in"""
    if t['k'] == 'prim':
        out.append((t['p'], depth))
    elif t['k'] == 'arr':
        _walk_prims(t['elem'], depth + 1, out)


def add_values(rng, u, prob=0.45, force_kind=None):
    """declare `values=[...]` on one or two non-string primitives of the universe — on EVERY member whose primitive is
    that one (the model's grain); primitives that also occur as items of nested arrays are left alone"""
    occ = []
    for c in u['classes']:
        for _, t in c['own']:
            _walk_prims(t, 0, occ)
    for m in u['methods']:
        for _, t in m['args']:
            _walk_prims(t, 0, occ)
        for t in m['rets']:
            _walk_prims(t, 0, occ)
    deep = set(_pkey(p) for p, d in occ if d >= 2)
    cand = sorted(set(_pkey(p) for p, d in occ if p['t'] in VALUE_KINDS and (force_kind is None or p['t'] == force_kind)) - deep)
    if not cand or (force_kind is None and rng.random() > prob):
        return {}
    chosen = rng.sample(cand, min(len(cand), rng.choice([1, 1, 2])))
    table = {}
    for k in chosen:
        p = json.loads(k)
        vals = []
        for _ in range(rng.choice([1, 2, 3])):
            v = xb.gen_prim_val(rng, p)
            if v is not None and v not in vals:
                vals.append(v)
        if vals:
            table[k] = vals
    for p, d in occ:
        if _pkey(p) in table:
            p['_values'] = table[_pkey(p)]
    return table


_ORIG_BUILD_PRIM = xb.build_prim


def _build_prim_with_values(b, p, occ):
    vals = p.get('_values')
    if not vals:
        return _ORIG_BUILD_PRIM(b, p, occ)
    from spyne.model import primitive as P
    kw = xb._occ_kwargs(occ)
    t = p['t']
    if t == 'int':
        for f in ('ge', 'gt', 'le', 'lt'):
            if p.get(f) is not None:
                kw[f] = int(p[f])
        base = xb._int_classes()[p['kind']]
    else:
        base = {'bool': P.Boolean, 'date': P.Date, 'time': P.Time, 'dt': P.DateTime, 'dur': P.Duration}[t]
    ty = {'k': 'prim', 'p': p, 'o': occ}
    kw['values'] = [xb.to_native_one(b, ty, v) for v in vals]
    return base(**kw)


def build_classes(u):
    """xmlblock.build_classes with `values=` honoured on the non-string primitives"""
    xb.build_prim = _build_prim_with_values
    try:
        return xb.build_classes(u)
    finally:
        xb.build_prim = _ORIG_BUILD_PRIM


def enforce_values(rng, ty, v, table, fields_of=None):
    """make a generated value respect the declared `values` (xmlblock's generator does not know them)"""
    if v is None or not isinstance(v, dict) or not table:
        return v
    if 'l' in v:
        et = ty if (xb.repeated(ty['o']) and ty['k'] != 'arr') else ty.get('elem', ty)
        return {'l': [enforce_values(rng, et, i, table, fields_of) for i in v['l']]}
    if 'o' in v:
        if ty['k'] != 'obj':
            return v
        cls, fs = v['o']
        fields = ty['fields']
        if cls != ty['name'] and fields_of and cls in fields_of:
            fields = fields_of[cls]          # a subclass instance: its own (longer) member list
        return {'o': [cls, [[k, enforce_values(rng, t, fv, table, fields_of)] for (k, t), (_, fv) in zip(fields, fs)]]}
    if ty['k'] == 'prim' and _pkey(ty['p']) in table:
        return rng.choice(table[_pkey(ty['p'])])
    return v


_CANON = {}


def canonical_literal(b, p, text):
    """is `text` the literal spyne itself writes for the value it denotes (round trip through the real codec)"""
    from spyne.protocol.xml import XmlDocument
    key = _pkey(p)
    if key not in _CANON:
        _CANON[key] = (_ORIG_BUILD_PRIM(b, {k: v for k, v in p.items() if not k.startswith('_')}, xb.default_occ()), XmlDocument())
    cls, prot = _CANON[key]
    try:
        return prot.to_unicode(cls, prot.from_unicode(cls, text)) == text
    except Exception:
        return False


# ====================================================================================== T1: facts of the generator
def measure_facts06():
    """what the model of the schema generator assumes about /repo, re-measured"""
    import warnings
    import spyne.const as const
    from spyne.model import primitive as P
    from spyne.model.binary import ByteArray
    f = {'typeSuffix': const.TYPE_SUFFIX, 'arrayPrefix': const.ARRAY_PREFIX, 'arraySuffix': const.ARRAY_SUFFIX,
         'parentSuffix': const.PARENT_SUFFIX}

    def xs_name(cls):
        return cls.get_type_name() if cls.get_namespace() == XS else '?%s:%s' % (cls.get_namespace(), cls.get_type_name())
    f['intName'] = {k: xs_name(c) for k, c in xb._int_classes().items()}
    f['boolName'], f['unicodeName'] = xs_name(P.Boolean), xs_name(P.Unicode)
    f['dateName'], f['timeName'], f['dateTimeName'] = xs_name(P.Date), xs_name(P.Time), xs_name(P.DateTime)
    f['durationName'] = xs_name(P.Duration)
    f['bytesName'] = {'base64': xs_name(ByteArray(encoding='base64')), 'hex': xs_name(ByteArray(encoding='hex')),
                      'urlsafe': xs_name(ByteArray(encoding='urlsafe_base64'))}
    # behaviour switch clampFacets + header of the documents: a fixed witness universe
    u = clamp_witness_universe()
    with warnings.catch_warnings():
        warnings.simplefilter('ignore')
        b = build_classes(u)
        app, _ = xb.make_app(b, 'xml', None)
    sch, docs = real_schema(app)
    f['qualified'] = all(d.get('elementFormDefault') == 'qualified' for d in docs.values())
    facets = [etree_local(e) for d in docs.values() for st in d.iter('{%s}simpleType' % XS)
              if st.get('name') == 'W_u' + const.TYPE_SUFFIX for e in st[0]]
    ok, why = compile_real(app)
    f['clampFacets'] = (facets == [] and ok)
    f['_clamp_observed'] = {'facets_of_W_uType': facets, 'schema_compiles': ok, 'error': None if ok else why}
    # behaviour switch mergeBounds: Integer(gt=1, ge=3, lt=10, le=12)
    u = merge_witness_universe()
    with warnings.catch_warnings():
        warnings.simplefilter('ignore')
        b = build_classes(u)
        app, _ = xb.make_app(b, 'xml', None)
    sch, docs = real_schema(app)
    facets = [etree_local(e) for d in docs.values() for st in d.iter('{%s}simpleType' % XS)
              if st.get('name') == 'W_v' + const.TYPE_SUFFIX for e in st[0]]
    ok, why = compile_real(app)
    f['mergeBounds'] = (facets == [['minInclusive', '3'], ['maxExclusive', '10']] and ok)
    f['_merge_observed'] = {'facets_of_W_vType': facets, 'schema_compiles': ok, 'error': None if ok else why}
    # behaviour switch choiceInPlace: one(g), two(g), punk -> is the <xs:choice> before `punk`?
    u = choice_witness_universe()
    with warnings.catch_warnings():
        warnings.simplefilter('ignore')
        b = build_classes_x(u)
        app, _ = xb.make_app(b, 'xml', None)
    sch, docs = real_schema(app)
    seqs = [[etree_local_name(e) for e in seq] for d in docs.values() for ct in d.iter('{%s}complexType' % XS)
            if ct.get('name') == 'W' for seq in ct.iter('{%s}sequence' % XS)]
    f['choiceInPlace'] = seqs == [['choice', 'element']]
    f['_choice_observed'] = {'sequence_of_W': seqs}
    # behaviour switch dataTypeDefined: XmlData(Integer8(ge=3))
    u = xmldata_witness_universe()
    with warnings.catch_warnings():
        warnings.simplefilter('ignore')
        b = build_classes_x(u)
        app, _ = xb.make_app(b, 'xml', None)
    sch, docs = real_schema(app)
    names = [st.get('name') for d in docs.values() for st in d.iter('{%s}simpleType' % XS)]
    ok, why = compile_real(app)
    f['dataTypeDefined'] = ('Money_amount' + const.TYPE_SUFFIX in names) and ok
    f['_data_observed'] = {'simple_types': names, 'schema_compiles': ok, 'error': None if ok else why}
    # behaviour switch bareRootIsSubName: f() -> Integer, _body_style='bare', XmlDocument
    u = bare_prim_witness_universe()
    with warnings.catch_warnings():
        warnings.simplefilter('ignore')
        b = build_classes(u)
        app0, _ = xb.make_app(b, 'xml', None)
        xb.finish_built(b, app0)
        app, server = _make_app(b, 'xml', 'lxml', False)
    b.ret['f'] = 5
    r = xb.run_request(b, server, xb.to_bytes(xb.mk_node(u['tns'], 'f')))
    root = body_el('xml', r.out) if r.out else None
    f['bareRootIsSubName'] = root is not None and root.tag == '{%s}fResponse' % u['tns']
    f['_bare_observed'] = {'response': (r.out or b'').decode('utf-8', 'replace'), 'fault': r.fault, 'crash': r.crash}
    return f


def bare_prim_witness_universe():
    """f() -> Integer with _body_style='bare': the response element the schema declares is <tns:fResponse>"""
    occ = {'nillable': True, 'min': 0, 'max': 1}
    return {'tns': 'urn:w9', 'idx': 6997, 'classes': [],
            'methods': [{'name': 'f', 'args': [], 'rets': [{'k': 'prim', 'p': _prim('int'), 'o': occ}], 'style': 'bare'}]}


def etree_local_name(e):
    from lxml import etree
    return etree.QName(e).localname


def choice_witness_universe():
    """W(one = Integer(xml_choice_group='numbers'), two = Integer(xml_choice_group='numbers'), punk = Unicode): the class of
    spyne's own test_choice_tag"""
    occ = lambda **kw: dict({'nillable': True, 'min': 0, 'max': 1}, **kw)
    i = lambda: {'k': 'prim', 'p': _prim('int'), 'o': occ(choice='numbers')}
    s = {'k': 'prim', 'p': {'t': 'str', 'min': 0, 'max': None, 'pat': None, 'values': []}, 'o': occ()}
    return {'tns': 'urn:w8', 'idx': 6998, 'classes': [{'name': 'W', 'ns': 'urn:w8', 'base': None, 'depth': 0,
                                                     'own': [['one', i()], ['two', i()], ['punk', s]]}],
            'methods': [{'name': 'm0', 'args': [['a0', {'k': 'ref', 'cls': 'W', 'o': occ()}]], 'rets': []}]}


def merge_witness_universe():
    """Integer(gt=1, ge=3, lt=10, le=12): a legal, satisfiable declaration (3 <= x < 10); XSD forbids minExclusive
    together with minInclusive (maxExclusive with maxInclusive) in one restriction"""
    o = xb.default_occ()
    return {'tns': 'urn:w7', 'idx': 9997, 'classes': [
        {'name': 'W', 'ns': 'urn:w7', 'base': None, 'depth': 0,
         'own': [['v', {'k': 'prim', 'p': _prim('int', gt='1', ge='3', lt='10', le='12'), 'o': o}]]}],
        'methods': [{'name': 'm0', 'args': [['a0', {'k': 'ref', 'cls': 'W', 'o': o}]], 'rets': []}]}


def etree_local(e):
    from lxml import etree
    return [etree.QName(e).localname, e.get('value')]


def _prim(t, **kw):
    p = {'t': t}
    if t == 'int':
        p.update(kind='unbounded', ge=None, gt=None, le=None, lt=None)
    if t == 'str':
        p.update(min=0, max=None, pat=None, values=[])
    p.update(kw)
    return p


def clamp_witness_universe():
    """UnsignedInteger8(gt=-1): accepted by the model class (NumberLimitsWarning), redundant, and — unless the
    generator leaves it out — written as <xs:minExclusive value="-1"/> under base xs:unsignedByte, which libxml2
    refuses, so that validator='lxml' cannot even be constructed"""
    o = xb.default_occ()
    return {'tns': 'urn:w6', 'idx': 9996, 'classes': [
        {'name': 'W', 'ns': 'urn:w6', 'base': None, 'depth': 0,
         'own': [['u', {'k': 'prim', 'p': _prim('int', kind='u8', gt='-1'), 'o': o}]]}],
        'methods': [{'name': 'm0', 'args': [['a0', {'k': 'ref', 'cls': 'W', 'o': o}]], 'rets': []}]}


# the name affixes (spyne.const) are free parameters of the model: whatever they measure flows into `gen`
GOOD06 = {'qualified': True,
          'boolName': 'boolean', 'unicodeName': 'string', 'dateName': 'date', 'timeName': 'time',
          'dateTimeName': 'dateTime', 'durationName': 'duration',
          'intName': {'unbounded': 'integer', 'i8': 'byte', 'i16': 'short', 'i32': 'int', 'i64': 'long',
                      'u8': 'unsignedByte', 'u16': 'unsignedShort', 'u32': 'unsignedInt', 'u64': 'unsignedLong'},
          'bytesName': {'base64': 'base64Binary', 'hex': 'hexBinary', 'urlsafe': 'string'}}


def _lean_str(s):
    return '"%s".toList' % s.replace('\\', '\\\\').replace('"', '\\"')


def facts06_lean(f):
    ints = f['intName']
    return '''-- GENERATED by harness/c06.py (T1) from /repo on every run. Do not edit.
import SpyneModel.Schema
namespace SpyneModel.Generated
open SpyneModel SpyneModel.Schema

def facts06 : Facts06 where
  typeSuffix := %s
  arrayPrefix := %s
  arraySuffix := %s
  parentSuffix := %s
  intName := fun k => match k with
    | .unbounded => %s | .i8 => %s | .i16 => %s | .i32 => %s
    | .i64 => %s | .u8 => %s | .u16 => %s
    | .u32 => %s | .u64 => %s
  boolName := %s
  unicodeName := %s
  dateName := %s
  timeName := %s
  dateTimeName := %s
  durationName := %s
  bytesName := fun e => match e with
    | .base64 => %s | .hex => %s | .urlsafe => %s
  qualified := %s
  clampFacets := %s
  mergeBounds := %s
  choiceInPlace := %s
  dataTypeDefined := %s
  bareRootIsSubName := %s

end SpyneModel.Generated
''' % tuple([_lean_str(f[k]) for k in ('typeSuffix', 'arrayPrefix', 'arraySuffix', 'parentSuffix')] +
            [_lean_str(ints[k]) for k in ('unbounded', 'i8', 'i16', 'i32', 'i64', 'u8', 'u16', 'u32', 'u64')] +
            [_lean_str(f[k]) for k in ('boolName', 'unicodeName', 'dateName', 'timeName', 'dateTimeName', 'durationName')] +
            [_lean_str(f['bytesName'][k]) for k in ('base64', 'hex', 'urlsafe')] +
            [str(bool(f[k])).lower() for k in ('qualified', 'clampFacets', 'mergeBounds', 'choiceInPlace', 'dataTypeDefined', 'bareRootIsSubName')])


# ====================================================================================== emitting documents with the real code
def emit_request(app, key, native_args):
    """the request document spyne itself emits as a client of `app` (out_protocol.serialize(REQUEST))"""
    from spyne.client import RemoteProcedureBase

    class _RP(RemoteProcedureBase):
        def __call__(self, *args):
            ctx = self.contexts[0]
            self.get_out_object(ctx, args, {})
            self.get_out_string(ctx)
            return b''.join(ctx.out_string)
    return _RP('', app, key)(*native_args)


def body_el(proto, data, proto_obj=None):
    from lxml import etree
    root = xb.parse_like_spyne(data, proto_obj) if proto_obj is not None else etree.fromstring(data)
    return None if root is None else xb.unwrap_envelope(proto, root)


def subclasses_of(b, name):
    return [c for c in b.base_of if c != name and xb.is_sub(b, c, name)]


def polymorphise(rng, b, ty, v, p=0.5, bare_p=0.4):
    """replace instances by instances of registered subclasses (extra members filled conformantly, or — `bare_p` —
    all left unset when they are optional: then nothing but the xsi:type value mentions the subclass's namespace)"""
    if v is None or not isinstance(v, dict):
        return v
    if 'l' in v:
        et = ty if (xb.repeated(ty['o']) and ty['k'] != 'arr') else ty.get('elem', ty)
        return {'l': [polymorphise(rng, b, et, i, p, bare_p) for i in v['l']]}
    if 'o' in v and ty['k'] == 'obj':
        cls, fs = v['o']
        out = [[k, polymorphise(rng, b, t, fv, p, bare_p)] for (k, t), (_, fv) in zip(ty['fields'], fs)]
        subs = subclasses_of(b, cls)
        if subs and rng.random() < p:
            d = rng.choice(sorted(subs))
            extra = b.fields_of[d][len(ty['fields']):]
            if rng.random() < bare_p and all(t['o']['min'] == 0 for _, t in extra):
                if rng.random() < 0.5:      # only inherited members set / nothing set at all
                    out = [[k, fv if t['o']['min'] > 0 else None] for (k, t), (_, fv) in zip(ty['fields'], out)]
                return {'o': [d, out + [[k, None] for k, _ in extra]]}
            more = [[k, xb.gen_field(rng, t)] for k, t in extra]
            if all(xb.py_conforms(t, x) or x is None for (k, t), (_, x) in zip(extra, more)):
                return {'o': [d, out + more]}
        return {'o': [cls, out]}
    return v


def lengthen(rng, ty, v, done=None):
    """blow one unbounded list of the value up to more than 100 occurrences (maxOccurs='unbounded' must mean it)"""
    done = done if done is not None else [False]
    if v is None or not isinstance(v, dict) or done[0]:
        return v
    if 'l' in v:
        rep_field = xb.repeated(ty['o']) and ty['k'] != 'arr'
        et = ty if rep_field else ty.get('elem', ty)
        unbounded = ty['o']['max'] is None if rep_field else True
        items = v['l']
        if unbounded and items:
            done[0] = True
            n = rng.randint(101, 130)
            return {'l': (items * (n // len(items) + 1))[:n]}
        return {'l': [lengthen(rng, et, i, done) for i in items]}
    if 'o' in v and ty['k'] == 'obj':
        cls, fs = v['o']
        return {'o': [cls, [[k, lengthen(rng, t, fv, done)] for (k, t), (_, fv) in zip(ty['fields'], fs)] + fs[len(ty['fields']):]]}
    return v


# ====================================================================================== document mutations
def leaves(v):
    return xb.count_leaves(v)


def node_leaves(n):
    return 1 if (not n['c'] and n['x'] is not None) else sum(node_leaves(c) for c in n['c'])


def match_children(b, ty, node):
    """pair the children of a node with their declared types: [(child, child_ty or None)]"""
    if ty['k'] == 'obj':
        fields = dict((k, t) for k, t in ty['fields'] if not t.get('mk'))
        return [(c, fields.get(c['n'])) for c in node['c']]
    if ty['k'] == 'arr':
        return [(c, ty['elem']) for c in node['c']]
    return [(c, None) for c in node['c']]


def typed_nodes(b, ty, node, acc=None, depth=0):
    """all (type, node, parent) triples of a document whose elements are declared"""
    acc = [] if acc is None else acc
    acc.append((ty, node))
    if any(k == XSI_NIL for k, _ in node['a']):
        return acc
    for c, ct in match_children(b, ty, node):
        if ct is not None:
            typed_nodes(b, ct, c, acc, depth + 1)
    return acc


def _int_lits(rng, p):
    lo, hi = xb._int_window(p)
    klo, khi = xb.INT_BOUNDS[p['kind']]
    out = []
    for x in (lo, hi):
        if x is not None:
            out += [x - 1, x, x + 1]
    for x in (klo, khi):
        if x is not None:
            out += [x - 1, x, x + 1]
    out += [0, -1, 1, 10 ** 25, -10 ** 25, rng.randint(-300, 300)]
    return [str(x) for x in out]


LEX_VARIANTS = {
    'int': [' 5', '5 ', '\n5\t', '+5', '05', '-0', '1_0', '5.0', '1e1', '', ' ', '--1', '0x1', '٥', '1' * 30, '1' * 1025],
    'bool': ['true', 'false', '1', '0', 'True', 'FALSE', ' true ', '2', 'yes', ''],
    'date': ['2020-02-29', '2021-02-29', '2020-1-1', '2020-01-01Z', '2020-01-01+05:00', '2020-01-01+14:00',
             '2020-01-01+14:01', '2020-01-01-15:00', ' 2020-01-01', '2020-13-01', '0000-01-01', '2020-01-01T00:00:00', ''],
    'time': ['00:00:00', '23:59:59.999999', '24:00:00', '12:00:00Z', '12:00:00+05:00', '12:00', '1:00:00', '12:00:60',
             '12:00:00.', '12:00:00.1234567', ' 12:00:00 ', ''],
    'dt': ['2020-01-01T00:00:00', '2020-01-01 00:00:00', '2020-01-01T24:00:00', '2020-01-01T00:00:00Z',
           '2020-01-01T00:00:00z', '2020-01-01T00:00:00+14:00', '2020-01-01T00:00:00+14:01', '2020-01-01T00:00:00-23:59',
           '2020-01-01T00:00:00.5', '2020-01-01T00:00:00.', '2021-02-29T00:00:00', '2020-01-01', ' 2020-01-01T00:00:00', ''],
    'dur': ['P1D', 'PT0S', 'P', 'PT', 'P1DT', '-P1DT2H3M4.000005S', 'P1Y2M', 'P1M2Y', '+P1D', 'PT1H1S1M', 'P1.5D',
            ' P1D ', 'P999999999D', 'P1000000000D', ''],
    'hex': ['', '0a', '0A', '0aF', '0g', 'ff ', ' ff'], 'base64': ['', 'YWJj', 'YQ==', 'YR==', 'YWJ', 'YW Jj', '-_8=', 'YWJj\n'],
    'urlsafe': ['', 'YWJj', '-_8=', '+/8=', 'YWJ', '!!'],
}


def leaf_literals(rng, p):
    """candidate literals for a leaf of primitive p: boundary neighbours of every facet + lexical variants"""
    t = p['t']
    if t == 'int':
        return _int_lits(rng, p) + LEX_VARIANTS['int']
    if t == 'str':
        out = ['', ' ', 'a', 'ab', 'abc', 'x y', 'Z', ' a ', 'aaaaaaaaaaaa', '0', 'é', 'A' * 40]
        for n in {p['min'] - 1, p['min'], p['min'] + 1} | ({p['max'] - 1, p['max'], p['max'] + 1} if p['max'] is not None else set()):
            if n >= 0:
                ch = chr(p['pat']['ranges'][0][0]) if p['pat'] else 'a'
                out.append(ch * n)
        if p['pat']:
            pt = p['pat']
            a, z = pt['ranges'][0]
            for n in {pt['min'] - 1, pt['min'], pt['min'] + 1} | ({pt['max'], pt['max'] + 1} if pt['max'] is not None else set()):
                if n >= 0:
                    out.append(chr(a) * n)
            out += [chr(a) * max(1, pt['min']) + '!', chr(z + 1) * max(1, pt['min']), chr(max(33, a - 1)) * max(1, pt['min'])]
        out += [uncps(v) for v in p['values']] + [uncps(v) + 'x' for v in p['values']]
        return out
    if t == 'enum':
        return list(p['names']) + [n + 'x' for n in p['names']] + ['', 'RED', ' ' + p['names'][0]]
    if t == 'bytes':
        return LEX_VARIANTS[p['enc']]
    return LEX_VARIANTS[t]


def boundary_docs(b, root_ty, root, cap=24):
    """directed (not sampled) neighbours of every declared bound: for each integer leaf with ge/gt/le/lt the literals
    bound-1, bound, bound+1; for each string leaf with min_len/max_len the lengths around them"""
    out = []
    tn = typed_nodes(b, root_ty, root)
    for idx, (ty, n) in enumerate(tn):
        if ty['k'] != 'prim' or n['x'] is None or any(k == XSI_NIL for k, _ in n['a']):
            continue
        p = ty['p']
        lits = []
        if p['t'] == 'int':
            for f in ('ge', 'gt', 'le', 'lt'):
                if p.get(f) is not None:
                    lits += [(str(int(p[f]) + d), '%s%+d' % (f, d)) for d in (-1, 0, 1)]
        elif p['t'] == 'str' and not p['values']:
            ch = chr(p['pat']['ranges'][0][0]) if p['pat'] else 'a'
            for f, v in (('min', p['min']), ('max', p['max'])):
                if v:
                    lits += [(ch * (v + d), '%s_len%+d' % (f, d)) for d in (-1, 0, 1) if v + d >= 0]
        for s, what in lits:
            doc = copy.deepcopy(root)
            tgt = typed_nodes(b, root_ty, doc)[idx][1]
            tgt['x'] = cps(s) if s else None
            out.append((doc, 'boundary:%s:%s' % (p['t'], what)))
            if len(out) >= cap:
                return out
    return out


def mutate_enum(rng, b, root_ty, root, vt):
    """replace the literal of one enumerated (values=) leaf by another member / by a conformant non-member"""
    doc = copy.deepcopy(root)
    tn = [(ty, n) for ty, n in typed_nodes(b, root_ty, doc)
          if ty['k'] == 'prim' and _pkey(ty['p']) in vt and n['x'] is not None and not any(k == XSI_NIL for k, _ in n['a'])]
    if not tn:
        return None
    ty, n = rng.choice(tn)
    members = vt[_pkey(ty['p'])]
    if rng.random() < 0.4:
        v, tag = rng.choice(members), 'enum-member'
    else:
        v, tag = None, 'enum-nonmember'
        for _ in range(8):
            c = xb.gen_prim_val(rng, ty['p'])
            if c is not None and c not in members:
                v = c
                break
        if v is None:
            return None
    cls = _ORIG_BUILD_PRIM(b, {k: x for k, x in ty['p'].items() if not k.startswith('_')}, xb.default_occ())
    from spyne.protocol.xml import XmlDocument
    n['x'] = cps(XmlDocument().to_unicode(cls, xb.to_native_one(b, ty, v)))
    return doc, tag + ':' + ty['p']['t']


def mutate(rng, b, root_ty, root):
    """one structure-aware mutation of a request body; returns (node, tag) or None"""
    doc = copy.deepcopy(root)
    tn = typed_nodes(b, root_ty, doc)
    ty, n = rng.choice(tn)
    is_root = n is doc
    ops = []
    nil = any(k == XSI_NIL for k, _ in n['a'])
    if ty['k'] == 'prim':
        ops += ['literal'] * 6 + ['empty', 'child-in-leaf']
    else:
        ops += ['drop', 'dup', 'swap', 'unknown', 'child-ns', 'text', 'add-optional', 'drop', 'dup']
        if ty['k'] == 'arr':
            ops += ['rename-item', 'add-item']
    if not is_root:
        ops += ['nil', 'nil-keep', 'nil-false', 'nil-junk', 'attr']
    op = rng.choice(ops)
    if nil and op not in ('nil-false', 'nil-junk', 'attr'):
        op = 'un-nil'
    if op == 'literal':
        s = rng.choice(leaf_literals(rng, ty['p']))
        n['x'] = cps(s) if s != '' else None
        return doc, 'literal:' + ty['p']['t']
    if op == 'empty':
        n['x'] = None
        return doc, 'empty:' + ty['p']['t']
    if op == 'child-in-leaf':
        n['c'] = [xb.mk_node(n['ns'], 'zz', text=cps('1'))]
        return doc, 'child-in-leaf'
    if op == 'un-nil':
        n['a'] = [a for a in n['a'] if a[0] != XSI_NIL]
        if ty['k'] == 'prim':
            s = rng.choice(leaf_literals(rng, ty['p']))
            n['x'] = cps(s) if s != '' else None
        return doc, 'un-nil:' + ty['k']
    if op in ('nil', 'nil-keep'):
        n['a'] = [a for a in n['a'] if a[0] != XSI_NIL] + [[XSI_NIL, cps(rng.choice(['true', '1', 'true', ' true ']))]]
        if op == 'nil':
            n['x'], n['c'] = None, []
        return doc, op + ':' + ('nillable' if ty['o']['nillable'] else 'non-nillable')
    if op == 'nil-false':
        n['a'] = [a for a in n['a'] if a[0] != XSI_NIL] + [[XSI_NIL, cps(rng.choice(['false', '0']))]]
        return doc, 'nil-false:' + ('nillable' if ty['o']['nillable'] else 'non-nillable')
    if op == 'nil-junk':
        n['a'] = [a for a in n['a'] if a[0] != XSI_NIL] + [[XSI_NIL, cps(rng.choice(['junk', '', 'TRUE']))]]
        return doc, 'nil-junk'
    if op == 'attr':
        n['a'] = n['a'] + [[rng.choice(['foo', '{urn:q}bar']), cps('1')]]
        return doc, 'attr'
    kids = n['c']
    if op == 'drop' and kids:
        i = rng.randrange(len(kids))
        tag = 'drop'
        if ty['k'] == 'obj':
            ft = dict(ty['fields']).get(kids[i]['n'])
            cnt = sum(1 for c in kids if c['n'] == kids[i]['n'])
            tag = 'drop:%s' % ('below-min' if ft and cnt - 1 < ft['o']['min'] else 'still-ok')
        del kids[i]
        return doc, tag
    if op == 'dup' and kids:
        i = rng.randrange(len(kids))
        tag = 'dup'
        if ty['k'] == 'obj':
            ft = dict(ty['fields']).get(kids[i]['n'])
            cnt = sum(1 for c in kids if c['n'] == kids[i]['n'])
            tag = 'dup:%s' % ('above-max' if ft and ft['o']['max'] is not None and cnt + 1 > ft['o']['max'] else 'still-ok')
        kids.insert(i, copy.deepcopy(kids[i]))
        return doc, tag
    if op == 'swap' and len(kids) >= 2:
        i = rng.randrange(len(kids) - 1)
        kids[i], kids[i + 1] = kids[i + 1], kids[i]
        return doc, 'swap:' + ('same-name' if kids[i]['n'] == kids[i + 1]['n'] else 'order')
    if op == 'unknown':
        kids.insert(rng.randrange(len(kids) + 1), xb.mk_node(n['ns'], 'zz', text=cps('1')))
        return doc, 'unknown-child'
    if op == 'child-ns' and kids:
        c = rng.choice(kids)
        c['ns'] = rng.choice(['urn:other', '', b.iface['tns'] + 'x'])
        return doc, 'child-ns'
    if op == 'text':
        n['x'] = cps(rng.choice([' ', '\n  ', 'x', ' x ']))
        return doc, 'text-in-complex'
    if op == 'add-optional' and ty['k'] == 'obj':
        present = set(c['n'] for c in kids)
        missing = [(i, k, t) for i, (k, t) in enumerate(ty['fields']) if k not in present and not t.get('mk')]
        if missing:
            i, k, t = rng.choice(missing)
            v = xb.gen_field(rng, t, none_p=0.0)
            if v is not None and xb.py_conforms(t, v):
                new = xb.ref_encode_field(b, t, v, ty['ns'], k, b.iface['tns'])
                order = [f for f, _ in ty['fields']]
                pos = len([c for c in kids if order.index(c['n']) < i]) if all(c['n'] in order for c in kids) else len(kids)
                kids[pos:pos] = new
                return doc, 'add-optional'
    if op == 'rename-item' and kids:
        rng.choice(kids)['n'] = 'item'
        return doc, 'rename-item'
    if op == 'add-item' and ty['k'] == 'arr':
        v = xb.gen_one(rng, ty['elem'], none_p=0.0)
        if v is not None and xb.py_conforms_one(ty['elem'], v):
            ens, mem = member_key(b, n['ns'], ty)
            kids.append(xb.ref_encode_one(b, ty['elem'], v, ens, mem, b.iface['tns']))
            return doc, 'add-item'
    return None


def member_key(b, ctx_ns, ty):
    m = ty['member']
    if m.startswith('{'):
        ns, local = m[1:].split('}', 1)
        return ns, local
    return xb.arr_ns(b.iface['tns'], ctx_ns, ty['elem']), m


# ====================================================================================== lexical domain of the recognisers
def lex_domain(xs_type, s):
    """literals on which the model's recognisers claim to equal libxml2 (documented exclusions: years that are
    not four digits, negative years, libxml2's leniency for `1.S` / `.5S` and its overflow of huge duration
    components, fractional `24:00:00`, blanks around date/time/duration literals (libxml2 does not collapse them),
    characters outside the base64 alphabet (libxml2 skips most of them), non-ASCII text in non-string literals —
    Python's int() reads Unicode digits, which the leaf model of C08 leaves out as well)"""
    if xs_type == 'string':
        return True
    if any(ord(c) > 126 or (ord(c) < 32 and c not in '\t\n\r') for c in s):
        return False
    t = s.strip(' \t\n\r')
    if xs_type in ('date', 'time', 'dateTime', 'duration') and t != s:
        return False        # libxml2 does not collapse blanks around these (it does for numbers, booleans, binaries)
    if xs_type in ('date', 'dateTime'):
        if t.startswith('-') or re.match(r'^\d{5}', t):
            return False
    if xs_type in ('time', 'dateTime') and re.search(r'24:00:00\.', t):
        return False
    if xs_type == 'duration':
        if re.search(r'\.[A-Z]|(?<!\d)\.', t) or re.search(r'\d{10,}', t):
            return False
    if xs_type == 'base64Binary' and not re.match(r'^[A-Za-z0-9+/=]*\Z', s):
        return False        # libxml2 skips over foreign characters in most positions
    return True


_XS_OF = {'bool': 'boolean', 'date': 'date', 'time': 'time', 'dt': 'dateTime', 'dur': 'duration'}


def xs_type_of(p):
    t = p['t']
    if t == 'int':
        return GOOD06['intName'][p['kind']]
    if t == 'bytes':
        return GOOD06['bytesName'][p['enc']]
    return _XS_OF.get(t, 'string')


def doc_in_domain(b, ty, node, vt=None):
    """is every leaf literal of the document inside the recognisers' domain; no xsi:type anywhere. At a member
    with `values` on a non-string primitive only canonical literals are in the domain: libxml2 compares
    enumerations in the value space ('05' matches 5), the reference validator compares the literals"""
    if any(k == XSI_TYPE for k, _ in node['a']):
        return False
    if ty is None:
        return all(doc_in_domain(b, None, c, vt) for c in node['c'])
    if ty['k'] == 'prim':
        s = uncps(node['x']) if node['x'] is not None else ''
        if vt and _pkey(ty['p']) in vt and s != '' and not canonical_literal(b, ty['p'], s):
            return False
        return lex_domain(xs_type_of(ty['p']), s) and all(doc_in_domain(b, None, c, vt) for c in node['c'])
    return all(doc_in_domain(b, ct, c, vt) for c, ct in match_children(b, ty, node))


def soft_domain(b, ty, node, msl):
    """documents on which the shared leaf model (C08/C05) claims to describe the soft validator: integer literals
    within the class's `max_str_len` (a customised Integer has max_str_len = inf in the code — `_s_customize` sets
    total_digits + 2 — while the leaf model carries one limit per integer kind)"""
    if ty is None:
        return True
    if ty['k'] == 'prim':
        t = ty['p']['t']
        txt = uncps(node['x']) if node['x'] is not None else ''
        if t == 'int' and node['x'] is not None:
            return len(node['x']) <= msl[ty['p']['kind']]
        if t == 'bytes' and txt:
            # the leaf model reads canonical encodings only; CPython's decoders skip foreign characters / accept
            # odd paddings
            import base64, binascii
            try:
                if ty['p']['enc'] == 'hex':
                    return binascii.hexlify(binascii.unhexlify(txt)).decode() == txt.lower()
                if ty['p']['enc'] == 'urlsafe':
                    return base64.urlsafe_b64encode(base64.urlsafe_b64decode(txt)).decode() == txt
                return base64.b64encode(base64.b64decode(txt, validate=True)).decode() == txt
            except Exception:
                return re.match(r'^[A-Za-z0-9+/=_-]*\Z', txt) is not None and len(txt) % 4 != 0
        if t == 'dt' and re.match(r'^(0001|9999)-', txt) and re.search(r'[+-]\d\d:\d\d$', txt):
            # DateTime's default ge/le bounds are compared in UTC by validate_native: a soft-only range check at
            # the two ends of the calendar (OnlySoft.pythonRange), not in the leaf model
            return False
        return True
    return all(soft_domain(b, ct, c, msl) for c, ct in match_children(b, ty, node))


class LexOracle(object):
    def __init__(self):
        self.cache = {}

    def ok(self, xs_type, text):
        from lxml import etree
        sch = self.cache.get(xs_type)
        if sch is None:
            sch = etree.XMLSchema(etree.fromstring(
                '<xs:schema xmlns:xs="%s"><xs:element name="v" type="xs:%s"/></xs:schema>' % (XS, xs_type)))
            self.cache[xs_type] = sch
        e = etree.Element('v')
        e.text = text
        return bool(sch.validate(e))


# ====================================================================================== universes
def facet_universes():
    """small universes whose facets probe libxml2's compile-time checks (T2 of `compiles`), with the expected
    classification: 'ok' / 'user' (contradictory declaration, not a usable type) / 'spyne' (a declaration the model
    class accepts and that has a meaning, but the published schema is refused)"""
    o = xb.default_occ()
    cases = [
        ('ge=le', _prim('int', ge='5', le='5'), 'ok'),
        ('gt+1=lt', _prim('int', gt='5', lt='6'), 'user'),          # compiles, but no value satisfies it
        ('gt=lt', _prim('int', gt='5', lt='5'), 'user'),
        ('ge>le', _prim('int', ge='5', le='3'), 'user'),
        ('gt>lt', _prim('int', gt='6', lt='5'), 'user'),
        ('ge=lt', _prim('int', ge='5', lt='5'), 'user'),
        ('gt=le', _prim('int', gt='5', le='5'), 'user'),
        ('gt&ge', _prim('int', gt='1', ge='3'), 'spyne-both'),
        ('lt&le', _prim('int', lt='10', le='3'), 'spyne-both'),
        ('i8 ge=-128', _prim('int', kind='i8', ge='-128'), 'ok'),
        ('i8 ge=-200', _prim('int', kind='i8', ge='-200'), 'spyne-range'),
        ('i8 gt=-129', _prim('int', kind='i8', gt='-129'), 'spyne-range'),
        ('i8 le=127', _prim('int', kind='i8', le='127'), 'ok'),
        ('i8 le=200', _prim('int', kind='i8', le='200'), 'spyne-range'),
        ('i8 lt=128', _prim('int', kind='i8', lt='128'), 'spyne-range'),
        ('u8 gt=-1', _prim('int', kind='u8', gt='-1'), 'spyne-range'),
        ('u16 le=65536', _prim('int', kind='u16', le='65536'), 'spyne-range'),
        ('i64 ge=lo', _prim('int', kind='i64', ge=str(-2 ** 63)), 'ok'),
        ('u64 lt=2^64', _prim('int', kind='u64', lt=str(2 ** 64)), 'spyne-range'),
        ('str min>max', _prim('str', min=5, max=3), 'user'),
        ('str min=max', _prim('str', min=3, max=3), 'ok'),
        ('str pat', _prim('str', pat={'ranges': [[97, 99], [48, 57]], 'min': 2, 'max': 4}), 'ok'),
        ('str pat min>max', _prim('str', pat={'ranges': [[97, 99]], 'min': 3, 'max': 2}), 'user'),
        ('str values+len', _prim('str', max=2, values=[cps('abcdef'), cps('a')]), 'ok'),
        ('int values', dict(_prim('int', ge='-3'), _values=[{'i': '1'}, {'i': '5'}, {'i': '-3'}]), 'ok'),
        ('i8 values', dict(_prim('int', kind='i8'), _values=[{'i': '7'}, {'i': '-128'}]), 'ok'),
        ('date values', dict(_prim('date'), _values=[{'date': [2020, 1, 2]}, {'date': [1, 1, 1]}]), 'ok'),
        ('time values', dict(_prim('time'), _values=[{'time': [1, 2, 3, 0]}, {'time': [1, 2, 3, 5]}]), 'ok'),
        ('dt values', dict(_prim('dt'), _values=[{'dt': [2020, 1, 2, 3, 4, 5, 0, None]}, {'dt': [2020, 1, 2, 3, 4, 5, 6, -289]}]), 'ok'),
        ('dur values', dict(_prim('dur'), _values=[{'dur': '1800000000'}, {'dur': '0'}, {'dur': '-86400500000'}]), 'ok'),
        ('bool values', dict(_prim('bool'), _values=[{'b': True}]), 'spyne-enum-bool'),
        ('gt>=ge', _prim('int', gt='5', ge='3'), 'spyne-both'),
        ('lt<=le', _prim('int', lt='3', le='10'), 'spyne-both'),
    ]
    out = []
    for i, (label, p, cls) in enumerate(cases):
        u = {'tns': 'urn:f%d' % i, 'idx': 8000 + i, 'classes': [
            {'name': 'F%d' % i, 'ns': 'urn:f%d' % i, 'base': None, 'depth': 0, 'own': [['v', {'k': 'prim', 'p': p, 'o': o}]]}],
            'methods': [{'name': 'm0', 'args': [['a0', {'k': 'ref', 'cls': 'F%d' % i, 'o': o}]], 'rets': []}]}
        out.append((label, cls, u))
    return out


def directed_universes():
    """fixed universes aimed at places random generation rarely reaches:
    (1) bounds that coincide with the limits of the fixed-width base type, required members behind nillable ones;
    (2) a subclass chain across three namespaces whose own members are all optional (polymorphic documents in which
        nothing but an xsi:type value mentions the subclass's namespace), also as array items"""
    o = xb.default_occ()
    req = {'nillable': False, 'min': 1, 'max': 1}
    nreq = {'nillable': True, 'min': 1, 'max': 1}

    def ip(kind, occ=req, **kw):
        return {'k': 'prim', 'p': _prim('int', kind=kind, **kw), 'o': occ}
    u1 = {'tns': 'urn:d1', 'idx': 7001, 'classes': [
        {'name': 'Lim', 'ns': 'urn:d1', 'base': None, 'depth': 0, 'own': [
            ['a', ip('u32', gt='0')], ['b', ip('i16', lt='32767')], ['c', ip('i8', ge='-128')], ['d', ip('u8', le='255')],
            ['e', ip('i64', gt=str(-2 ** 63))], ['f', ip('u64', lt=str(2 ** 64 - 1))], ['g', ip('u16', ge='0', le='65535')]]},
        {'name': 'Req', 'ns': 'urn:d1', 'base': None, 'depth': 0, 'own': [['r', ip('unbounded')]]}],
        'methods': [
            {'name': 'm0', 'args': [['a0', {'k': 'ref', 'cls': 'Lim', 'o': req}]], 'rets': []},
            {'name': 'm1', 'args': [['a1', {'k': 'ref', 'cls': 'Req', 'o': nreq}],
                                    ['a2', {'k': 'prim', 'p': _prim('str', min=2), 'o': nreq}],
                                    ['a3', {'k': 'ref', 'cls': 'Req', 'o': req}],
                                    ['a4', ip('i32', occ=nreq)], ['a5', ip('i32', occ=req)]], 'rets': []}]}
    oi = {'k': 'prim', 'p': _prim('int'), 'o': o}
    os_ = {'k': 'prim', 'p': _prim('str'), 'o': o}
    rb = {'k': 'ref', 'cls': 'PB', 'o': o}
    u2 = {'tns': 'urn:d2', 'idx': 7002, 'classes': [
        {'name': 'PB', 'ns': 'urn:d2a', 'base': None, 'depth': 0, 'own': [['x', oi]]},
        {'name': 'PS', 'ns': 'urn:d2b', 'base': 'PB', 'depth': 1, 'own': [['y', os_]]},
        {'name': 'PT', 'ns': 'urn:d2c', 'base': 'PS', 'depth': 2, 'own': [['z', oi]]}],
        'methods': [
            {'name': 'm0', 'args': [['a0', rb]], 'rets': [rb]},
            {'name': 'm1', 'args': [['a0', {'k': 'arr', 'elem': {'k': 'ref', 'cls': 'PB', 'o': o}, 'o': o}]],
             'rets': [{'k': 'arr', 'elem': {'k': 'ref', 'cls': 'PB', 'o': o}, 'o': o}]}]}
    return [u1, u2]


def nil_docs(b, root_ty, root, cap=24):
    """xsi:nil in all four xs:boolean spellings on declared members, nillable or not: `1` / `true` on the emptied
    element, `0` / `false` with the content kept"""
    out = []
    tn = typed_nodes(b, root_ty, root)
    for idx, (ty, n) in enumerate(tn):
        if idx == 0 or any(k == XSI_NIL for k, _ in n['a']):
            continue
        for sp in ('1', 'true', '0', 'false'):
            doc = copy.deepcopy(root)
            tgt = typed_nodes(b, root_ty, doc)[idx][1]
            tgt['a'] = [[XSI_NIL, cps(sp)]]
            if sp in ('1', 'true'):
                tgt['x'], tgt['c'] = None, []
            out.append((doc, 'nil-spelling:%s:%s:%s' % (sp, 'nillable' if ty['o']['nillable'] else 'non-nillable', ty['k'])))
            if len(out) >= cap:
                return out
    return out


def cross_ns_universe(rng, idx):
    """inheritance across namespaces, arrays of customised primitives, enums — for the schema-level checks
    (the encoder is the real code's; only `gen` / `valid` of the model are involved)"""
    u = xb.gen_universe(rng, idx, n_classes=rng.randint(3, 5), inherit=0.8)
    nss = sorted(set(c['ns'] for c in u['classes']) | {'urn:x%da' % idx, 'urn:x%db' % idx})
    for c in u['classes']:
        if c['base'] is not None and rng.random() < 0.7:
            c['ns'] = rng.choice(nss)
    return u


# ====================================================================================== attributes / XmlData / choice groups
def canon_real_schema_x(docs, nsmap):
    """like canon_real_schema, for documents with <xs:attribute>, <xs:simpleContent> and <xs:choice>:
    complex[key] = [base, items of the own sequence, own attributes, simpleContent base]"""
    from lxml import etree
    out = {'simple': {}, 'complex': {}, 'elements': {}, 'imports': set(), 'defaults': []}
    x = lambda n: '{%s}%s' % (XS, n)
    cur = [None]

    def particle(p):
        if p.tag != x('element') or set(p.attrib) - {'name', 'type', 'minOccurs', 'maxOccurs', 'nillable', 'default'}:
            raise Unmodelled('particle %s %r' % (p.tag, dict(p.attrib)))
        if p.get('default') is not None:
            out['defaults'].append((cur[0], p.get('name'), p.get('default')))      # compared with the model's literal
        return [p.get('name'), _qn(p, p.get('type')), _occ(p)]

    def attribute(a):
        if set(a.attrib) - {'name', 'type', 'use', 'default'} or a.get('use') not in (None, 'required'):
            raise Unmodelled('attribute %r' % dict(a.attrib))
        if a.get('default') is not None:
            out['defaults'].append((cur[0], a.get('name'), a.get('default')))
        return [a.get('name'), _qn(a, a.get('type')), a.get('use') == 'required']
    for pref, root in docs.items():
        tns = root.get('targetNamespace')
        if root.get('elementFormDefault') != 'qualified' or nsmap[pref] != tns or root.get('attributeFormDefault') not in (None, 'unqualified'):
            raise Unmodelled('schema header')
        for el in root:
            if not isinstance(el.tag, str):
                continue
            if el.tag == x('import'):
                out['imports'].add((tns, el.get('namespace')))
            elif el.tag == x('simpleType'):
                (r,) = list(el)
                bns, base = _qn(r, r.get('base'))
                if r.tag != x('restriction') or bns != XS:
                    raise Unmodelled('simpleType')
                facets = []
                for f in r:
                    name = etree.QName(f).localname
                    v = f.get('value')
                    facets.append([name, cps(v) if name in ('enumeration', 'pattern') else str(int(v))])
                key = (tns, el.get('name'))
                if key in out['simple']:
                    raise Unmodelled('duplicate simpleType')
                out['simple'][key] = [base, facets]
            elif el.tag == x('complexType'):
                cur[0] = el.get('name')
                base, data, holder = None, None, el
                kids = list(el)
                if kids and kids[0].tag == x('complexContent'):
                    (ext,) = list(kids[0])
                    if ext.tag != x('extension') or len(kids) != 1:
                        raise Unmodelled('complexContent')
                    base, holder = _qn(ext, ext.get('base')), ext
                    kids = list(ext)
                if kids and kids[0].tag == x('simpleContent'):
                    (ext,) = list(kids[0])
                    if ext.tag != x('extension'):
                        raise Unmodelled('simpleContent child')
                    data = _qn(ext, ext.get('base'))
                    # what else sits next to <xs:simpleContent> is reported as it is (a sequence there is illegal XSD)
                    kids = kids[1:] + list(ext)
                items, attrs = [], []
                for k in kids:
                    if k.tag == x('sequence'):
                        if items:
                            raise Unmodelled('two sequences')
                        for p in k:
                            if p.tag == x('choice'):
                                items.append(['choice', [particle(q) for q in p]])
                            else:
                                items.append(['one'] + particle(p))
                    elif k.tag == x('attribute'):
                        attrs.append(attribute(k))
                    else:
                        raise Unmodelled('complexType content %s' % k.tag)
                key = (tns, el.get('name'))
                if key in out['complex']:
                    raise Unmodelled('duplicate complexType')
                out['complex'][key] = [base, items, attrs, data]
            elif el.tag == x('element'):
                out['elements'][(tns, el.get('name'))] = _qn(el, el.get('type'))
            else:
                raise Unmodelled('global %s' % el.tag)
    return out


def canon_model_schema_x(s):
    out = {'simple': {}, 'complex': {}, 'elements': {}, 'imports': set()}
    for key, base, facets in s['simple']:
        out['simple'][tuple(key)] = [base, [[f[0], f[1]] for f in facets]]
    for key, base, items, attrs, data in s['complex']:
        out['complex'][tuple(key)] = [base, items, attrs, data]
    for key, tk in s['elements']:
        out['elements'][tuple(key)] = tk
    for a, b in s['imports']:
        out['imports'].add((a, b))
    return out


PRIM_TAGS = {'int': 'int', 'str': 'str', 'bool': 'bool', 'enum': 'enum', 'date': 'date', 'time': 'time', 'dt': 'dt',
             'dur': 'dur', 'bytes': 'bytes'}


class AmbiguousEnum(Exception):
    pass


def app_json_x(b, app):
    """app_json + what the member-kind layer needs: the module namespace customised attribute types ended up in
    (per primitive family) and the xml_choice_group table"""
    from spyne.model.complex import ComplexModelBase, XmlModifier
    A = app_json(b, app)
    # Enum classes that are reachable only through an XmlAttribute / XmlData member (the interface files an XmlData
    # class under the key of the type it wraps), and customised copies of an Enum (min_occurs=1 ...) that ended up in
    # another namespace than the original: the model knows ONE (namespace, name) per value list (`App.enumKeys`)
    from spyne.model.enum import EnumBase
    seen = dict((tuple(names), (ns, tn)) for names, ns, tn in A['enums'])
    used = {}
    for key, cls in sorted(app.interface.classes.items()):
        if key.startswith('{') and isinstance(cls, type) and issubclass(cls, ComplexModelBase):
            for k, v in cls.get_flat_type_info(cls).items():
                v = v.type if issubclass(v, XmlModifier) else v
                if issubclass(v, EnumBase):
                    used.setdefault(tuple(v.__values__), set()).add((v.get_namespace(), v.get_type_name()))
    for names, keys in used.items():
        if len(keys) > 1:
            raise AmbiguousEnum('copies of Enum%r in %r' % (names, sorted(keys)))
        seen[names] = list(keys)[0]
    A['enums'] = [[list(names), ns, tn] for names, (ns, tn) in sorted(seen.items())]
    mod, choice = {}, []
    for key, cls in sorted(app.interface.classes.items()):
        if not key.startswith('{') or not (isinstance(cls, type) and issubclass(cls, ComplexModelBase)):
            continue
        for k, v in cls.get_flat_type_info(cls).items():
            g = v.Attributes.xml_choice_group
            if g is not None:
                choice.append([cls.get_namespace(), cls.get_type_name(), k, g])
            if issubclass(v, XmlModifier):
                t = xb.prim_of(b, v.type)['t']
                if not v.type.is_default(v.type) and t != 'enum':
                    ns = v.type.get_namespace()
                    if mod.setdefault(t, ns) != ns:
                        raise core.Infra('two module namespaces for primitive family %s: %r / %r' % (t, mod[t], ns))
    A['modNs'] = sorted([t, ns] for t, ns in mod.items())
    A['choice'] = choice
    return A


_ORIG_OCC_KWARGS = xb._occ_kwargs


def _occ_kwargs_choice(occ):
    kw = _ORIG_OCC_KWARGS(occ)
    if occ.get('choice'):
        kw['xml_choice_group'] = occ['choice']
    if occ.get('default') is not None:
        kw['default'] = xb.to_native_one(None, None, occ['default'])
    return kw


def build_classes_x(u):
    xb._occ_kwargs = _occ_kwargs_choice
    try:
        return build_classes(u)
    finally:
        xb._occ_kwargs = _ORIG_OCC_KWARGS


def xmldata_witness_universe():
    """Money(amount = XmlData(Integer8(ge=3)), cur = XmlAttribute(Unicode))"""
    occ = lambda **kw: dict({'nillable': True, 'min': 0, 'max': 1}, **kw)
    amount = {'k': 'prim', 'p': {'t': 'int', 'kind': 'i8', 'ge': '3', 'gt': None, 'le': None, 'lt': None}, 'o': occ(), 'mk': 'data'}
    cur = {'k': 'prim', 'p': {'t': 'str', 'min': 0, 'max': None, 'pat': None, 'values': []}, 'o': occ(), 'mk': 'attribute'}
    return {'tns': 'urn:w', 'idx': 6999, 'classes': [{'name': 'Money', 'ns': 'urn:w', 'base': None, 'depth': 0,
                                                     'own': [['amount', amount], ['cur', cur]]}],
            'methods': [{'name': 'm0', 'args': [['a0', {'k': 'ref', 'cls': 'Money', 'o': occ()}]], 'rets': []}]}


def _admits_empty(p):
    return not p['min'] and (p['pat'] is None or p['pat']['min'] == 0) and not p.get('values')


def directed_kind_universes():
    """fixed shapes the random universes hit rarely: a choice group that is interrupted by a plain member and taken up
    again under the same name (by_id | note | by_name), two different groups next to each other, a group of a subclass
    after the members of its parent, a required attribute next to a choice"""
    occ = lambda **kw: dict({'nillable': True, 'min': 0, 'max': 1}, **kw)
    st = lambda **kw: {'k': 'prim', 'p': {'t': 'str', 'min': 0, 'max': None, 'pat': None, 'values': []}, 'o': occ(**kw)}
    it = lambda **kw: {'k': 'prim', 'p': _prim('int'), 'o': occ(**kw)}
    u1 = {'tns': 'urn:k1', 'idx': 6990, 'classes': [
        {'name': 'K', 'ns': 'urn:k1', 'base': None, 'depth': 0,
         'own': [['by_id', it(choice='key')], ['note', st()], ['by_name', st(choice='key')], ['tail', st()]]}],
        'methods': [{'name': 'm0', 'args': [['a0', {'k': 'ref', 'cls': 'K', 'o': occ()}]], 'rets': [{'k': 'ref', 'cls': 'K', 'o': occ()}]}]}
    u2 = {'tns': 'urn:k2', 'idx': 6991, 'classes': [
        {'name': 'P', 'ns': 'urn:k2a', 'base': None, 'depth': 0,
         'own': [['p1', st(choice='g')], ['p2', it(choice='g')], ['id', dict(st(min=1), mk='attribute')]]},
        {'name': 'Q', 'ns': 'urn:k2', 'base': 'P', 'depth': 1,
         'own': [['q1', st(choice='g')], ['q2', st(choice='h')], ['q3', it(choice='h')], ['mid', it()], ['q4', st(choice='g')]]}],
        'methods': [{'name': 'm0', 'args': [['a0', {'k': 'ref', 'cls': 'Q', 'o': occ()}], ['a1', {'k': 'ref', 'cls': 'P', 'o': occ(max=3)}]],
                     'rets': [{'k': 'ref', 'cls': 'Q', 'o': occ()}]}]}
    return [u1, u2]


def attr_universe(rng, idx, data_facets=False):
    """xmlblock's attribute / XmlData universes, plus xml_choice_group on some optional element members (and, where
    the generator defines their types, customised primitives as XmlData)"""
    u = xb.gen_universe_attrs(rng, idx)
    for c in u['classes']:
        for k, t in c['own']:
            if data_facets and t.get('mk') == 'data' and rng.random() < 0.5:
                # XSD cannot say "the text may be missing": an absent (None) XmlData value is written as empty text, so it
                # is schema-conformant only when '' is a literal of the type. xmlblock's gen_mod never leaves out the text of
                # a non-string type; for strings the customisation must therefore keep '' (no min_len, a pattern that
                # matches '', no values)
                p = xb.gen_prim(rng, facets=True)
                while p['t'] == 'str' and not _admits_empty(p):
                    p = xb.gen_prim(rng, facets=True)
                t['p'] = p
    for c in u['classes']:
        for k, t in c['own']:
            # `default=`: written into the declaration with the protocol's to_unicode, and on the wire in place of None
            # (a required attribute with a default is a contradictory declaration: XSD demands use=optional there)
            if t['k'] == 'prim' and t.get('mk') != 'data' and t['p']['t'] not in ('enum', 'bytes') and t['o']['max'] == 1 \
                    and not (t.get('mk') == 'attribute' and t['o']['min'] > 0) and rng.random() < 0.25:
                v = xb.gen_prim_val(rng, t['p'])
                if v is not None and xb.py_conforms_one(dict(t, o=dict(t['o'], nillable=True)), v):
                    t['o']['default'] = v
    for c in u['classes']:
        cand = [t for k, t in c['own'] if not t.get('mk') and t['o']['min'] == 0]
        if len(cand) >= 1 and rng.random() < 0.45:
            rng.shuffle(cand)
            ngroups = 1 if len(cand) < 4 or rng.random() < 0.6 else 2
            pick = cand[:rng.randint(min(2, len(cand)), len(cand))]
            for i, t in enumerate(pick):
                t['o']['choice'] = 'g%d' % (i % ngroups)
    return u


def groups_of(u):
    """class name -> {member: group} over the flattened members"""
    own = dict((c['name'], c) for c in u['classes'])
    res = {}
    for c in u['classes']:
        g, n = {}, c
        while n is not None:
            for k, t in n['own']:
                if t['o'].get('choice'):
                    g[k] = (n['name'], t['o']['choice'])
            n = own.get(n['base']) if n['base'] else None
        res[c['name']] = g
    return res


def enforce_choice(rng, groups, v):
    """a conformant instance sets at most one member of every choice group (XSD's reading of xml_choice_group;
    spyne itself does not check it)"""
    if isinstance(v, dict) and 'l' in v:
        return {'l': [enforce_choice(rng, groups, i) for i in v['l']]}
    if isinstance(v, dict) and 'o' in v:
        cls, fs = v['o']
        g = groups.get(cls, {})
        keep = {}
        for k, fv in fs:
            if k in g and fv is not None and not (isinstance(fv, dict) and fv.get('l') == []):
                keep.setdefault(g[k], []).append(k)
        chosen = dict((gid, rng.choice(ks)) for gid, ks in sorted(keep.items()))
        return {'o': [cls, [[k, None if (k in g and chosen.get(g[k]) != k) else enforce_choice(rng, groups, fv)] for k, fv in fs]]}
    return v


def elem_fields(ty):
    return [(k, t) for k, t in ty['fields'] if not t.get('mk')]


def mutate_kinds(rng, b, root_ty, root, groups):
    """one mutation aimed at attributes, simple content or a choice group; (node, tag) or None"""
    doc = copy.deepcopy(root)
    tn = [(ty, n) for ty, n in typed_nodes(b, root_ty, doc) if ty['k'] == 'obj']
    cands = {}
    for ty, n in tn:
        attrs = [(k, t) for k, t in ty['fields'] if t.get('mk') == 'attribute']
        data = [(k, t) for k, t in ty['fields'] if t.get('mk') == 'data']
        g = groups.get(ty['name'], {})
        nil = any(k == XSI_NIL for k, _ in n['a'])
        present = set(k for k, _ in n['a'])
        ops = ['attr-undeclared']
        if any(k in present for k, _ in attrs):
            ops += ['attr-drop', 'attr-literal', 'attr-qualified']
        if any(k not in present for k, _ in attrs):
            ops += ['attr-add']
        if attrs and not data and not nil:
            ops += ['attr-as-child']
        if data and not nil:
            ops += ['data-literal', 'data-child', 'data-empty']
        order = [k for k, _ in elem_fields(ty)]
        names = set(c['n'] for c in n['c'])
        if g and not nil and all(c['n'] in order for c in n['c']):
            if any(k in g and k not in names and any(o in names and g[o] == g[k] for o in g) for k in order):
                ops += ['choice-second']
            if any(k in g and k in names for k in order):
                ops += ['choice-same-again']
            if any(k in g and k not in names and not any(o in names and g[o] == g[k] for o in g) for k in order):
                ops += ['choice-first']
        for op in ops:
            cands.setdefault(op, []).append((ty, n))
    if not cands:
        return None
    if list(cands) == ['attr-undeclared'] and rng.random() < 0.85:
        return mutate(rng, b, root_ty, root)
    weights = {'attr-undeclared': 1, 'attr-literal': 4, 'data-literal': 4, 'choice-second': 4}
    op = rng.choice([o for o in sorted(cands) for _ in range(weights.get(o, 2))])
    ty, n = rng.choice(cands[op])
    attrs = [(k, t) for k, t in ty['fields'] if t.get('mk') == 'attribute']
    data = [(k, t) for k, t in ty['fields'] if t.get('mk') == 'data']
    g = groups.get(ty['name'], {})
    present = set(k for k, _ in n['a'])
    if op == 'attr-drop':
        k, t = rng.choice([(k, t) for k, t in attrs if k in present])
        n['a'] = [a for a in n['a'] if a[0] != k]
        return doc, 'attr-drop:%s' % ('required' if t['o']['min'] > 0 else 'optional')
    if op in ('attr-literal', 'attr-add'):
        k, t = rng.choice([(k, t) for k, t in attrs if (k in present) == (op == 'attr-literal')])
        lit = rng.choice(leaf_literals(rng, t['p']))
        n['a'] = [a for a in n['a'] if a[0] != k] + [[k, cps(lit)]]
        return doc, '%s:%s' % (op, t['p']['t'])
    if op == 'attr-as-child':
        k, t = rng.choice(attrs)
        n['c'] = n['c'] + [xb.mk_node(n['ns'], k, text=cps('1'))]
        return doc, 'attr-as-child'
    if op == 'attr-qualified':
        k, t = rng.choice([(k, t) for k, t in attrs if k in present])
        n['a'] = [[('{%s}%s' % (ty['ns'], k)) if a[0] == k else a[0], a[1]] for a in n['a']]
        return doc, 'attr-qualified:%s' % ('required' if t['o']['min'] > 0 else 'optional')
    if op == 'attr-undeclared':
        n['a'] = n['a'] + [[rng.choice(['zz', 'id2']), cps('1')]]
        return doc, 'attr-undeclared'
    if op == 'data-literal':
        k, t = data[0]
        lit = rng.choice(leaf_literals(rng, t['p']))
        n['x'] = cps(lit) if lit != '' else None
        return doc, 'data-literal:%s' % t['p']['t']
    if op == 'data-empty':
        n['x'] = None
        return doc, 'data-empty:%s' % data[0][1]['p']['t']
    if op == 'data-child':
        n['c'] = [xb.mk_node(n['ns'], 'zz', text=cps('1'))]
        return doc, 'data-child'
    order = [k for k, _ in elem_fields(ty)]
    kids = n['c']
    names = set(c['n'] for c in kids)
    if op == 'choice-second':
        cand = [(k, t) for k, t in elem_fields(ty) if k in g and k not in names and any(o in names and g[o] == g[k] for o in g)]
    elif op == 'choice-first':
        cand = [(k, t) for k, t in elem_fields(ty) if k in g and k not in names and not any(o in names and g[o] == g[k] for o in g)]
    else:
        cand = [(k, t) for k, t in elem_fields(ty) if k in g and k in names]
    k, t = rng.choice(cand)
    v = xb.gen_field(rng, t, none_p=0.0)
    if v is None or not xb.py_conforms(t, v):
        return None
    new = xb.ref_encode_field(b, t, v, ty['ns'], k, b.iface['tns'])
    if not new:
        return None
    pos = len([c for c in kids if order.index(c['n']) <= order.index(k)])
    kids[pos:pos] = new
    return doc, op


def doc_in_domain_x(b, ty, node, vt=None, dflt=()):
    """doc_in_domain for documents of classes with attribute / data members: their literals too. An EMPTY element of a
    member that declares a default takes that default for XSD; the reference validator has no defaults: outside."""
    if any(k == XSI_TYPE for k, _ in node['a']):
        return False
    if ty is not None and ty['k'] == 'obj' and any(c['n'] in dflt and not c['c'] and c['x'] is None for c in node['c']):
        return False
    if ty is None:
        return all(doc_in_domain_x(b, None, c, vt, dflt) for c in node['c'])
    if ty['k'] == 'obj':
        byname = dict(ty['fields'])
        for k, v in node['a']:
            t = byname.get(k)
            if t is not None and t.get('mk') == 'attribute':
                s = uncps(v)
                if vt and _pkey(t['p']) in vt and s != '' and not canonical_literal(b, t['p'], s):
                    return False
                if not lex_domain(xs_type_of(t['p']), s):
                    return False
        for k, t in ty['fields']:
            if t.get('mk') == 'data':
                s = uncps(node['x']) if node['x'] is not None else ''
                if vt and _pkey(t['p']) in vt and s != '' and not canonical_literal(b, t['p'], s):
                    return False
                if not lex_domain(xs_type_of(t['p']), s):
                    return False
        return all(doc_in_domain_x(b, ct, c, vt, dflt) for c, ct in match_children(b, ty, node))
    if ty['k'] == 'prim':
        return doc_in_domain(b, ty, node, vt)
    return all(doc_in_domain_x(b, ct, c, vt, dflt) for c, ct in match_children(b, ty, node))


def stream_t3(ctx, app, r, vschema, replay, want_tag=None):
    """the second emission path of XmlDocument (ctx.out_stream -> incgen -> lxml's incremental writer): the document it
    writes for the same response object must be valid against the published schema too"""
    from lxml import etree
    if getattr(r, 'out_object', None) is None or getattr(r, 'descriptor', None) is None:
        return
    try:
        root = xb.stream_serialize(app, r.descriptor, r.out_object)
    except Exception as e:
        # no document, no schema verdict (classes with XmlAttribute members cannot be streamed: the incremental writer has
        # no .set(); the XML codec's defect, build-XML's switch streamSameTree) — counted
        ctx.hit('stream:not-serialisable:%s' % type(e).__name__)
        return
    ctx.hit('stream:response')
    if unresolved_xsi_types(root):
        ctx.hit('stream:xsi-type-prefix-undeclared')
        ctx.finding('emitted-invalid:xsi-type-prefix-not-in-scope',
                    'the polymorphic response written to ctx.out_stream carries xsi:type="%s" but no declaration of that prefix: '
                    'the QName does not resolve and the document is invalid against spyne\'s own schema'
                    % unresolved_xsi_types(root)[0][0].get(XSI_TYPE), dict(replay, stream=True, response=etree.tostring(root).decode('utf-8', 'replace')))
        return
    if want_tag is not None and root.tag != want_tag:
        ctx.finding('emitted-invalid:streamed-response:root-element',
                    'the response written to ctx.out_stream is the element %s, the document path (and the schema\'s element for '
                    'this method) says %s' % (root.tag, want_tag), dict(replay, stream=True, response=etree.tostring(root).decode('utf-8', 'replace')))
        return
    if not vschema.validate(root):
        ctx.finding('emitted-invalid:streamed-response:%s' % invalid_reason(vschema, root),
                    'the response spyne writes to ctx.out_stream for conformant values is invalid against its own schema (%s)'
                    % last_error(vschema, root), dict(replay, stream=True, response=etree.tostring(root).decode('utf-8', 'replace')))


def model_parallel(ctx, Q, k=4):
    """ctx.model on k interleaved slices at once (the driver is interpreted; the heavy queries — gen, verdicts — are
    spread evenly by the interleaving); answers in the order of Q"""
    import threading
    if len(Q) < 4 * k:
        return ctx.model(Q)
    res, err = [None] * k, []

    def work(i):
        try:
            res[i] = ctx.model(Q[i::k])
        except BaseException as e:          # re-raised in the caller's thread
            err.append(e)
    ths = [threading.Thread(target=work, args=(i,)) for i in range(k)]
    [t.start() for t in ths]
    [t.join() for t in ths]
    if err:
        raise err[0]
    answers = [None] * len(Q)
    for i in range(k):
        for j, a in enumerate(res[i]):
            answers[i + j * k] = a
    return answers


XSI_NIL_ATTR = '{http://www.w3.org/2001/XMLSchema-instance}nil'


def bare_universe(rng, idx):
    """one or two `_body_style='bare'` methods whose single argument is a class — sometimes a class of a namespace
    nothing else in the application refers to — next to a wrapped method"""
    u = xb.gen_universe(rng, idx, n_classes=rng.randint(2, 4), inherit=0.3, n_methods=1)
    occ = lambda **kw: dict({'nillable': True, 'min': 0, 'max': 1}, **kw)
    if rng.random() < 0.7:
        u['classes'].append({'name': 'B%d' % idx, 'ns': 'urn:only%d' % idx, 'base': None, 'depth': 0,
                             'own': [[k, {'k': 'prim', 'p': xb.gen_prim(rng), 'o': xb.gen_occ(rng, 'field')}]
                                     for k in rng.sample(['p', 'q', 'r'], rng.randint(1, 2))]})
    usable = [c['name'] for c in u['classes'] if c['own']]      # spyne refuses a class without own members as bare parameter
    rng.shuffle(usable)
    if u['classes'][-1]['name'].startswith('B'):
        usable = [u['classes'][-1]['name']] + [n for n in usable if n != u['classes'][-1]['name']]
    def ret():
        r = rng.random()
        if r < 0.35:
            return [{'k': 'ref', 'cls': rng.choice(usable), 'o': occ()}]
        if r < 0.75:      # an uncustomised primitive: the response element is typed by the XSD built-in itself
            p = xb.gen_prim(rng, facets=False)
            while p['t'] in ('bytes', 'enum'):      # a ByteArray with an encoding / an Enum is a customised class, not a built-in
                p = xb.gen_prim(rng, facets=False)
            return [{'k': 'prim', 'p': p, 'o': occ()}]
        return []
    for i, cname in enumerate(usable[:rng.randint(1, 2)]):
        u['methods'].append({'name': 'x%d' % i, 'args': [['a0', {'k': 'ref', 'cls': cname, 'o': occ()}]], 'rets': ret(), 'style': 'bare'})
    for i in range(rng.randint(1, 2)):
        rets = ret() or [{'k': 'prim', 'p': _prim('int'), 'o': occ()}]
        u['methods'].append({'name': 'y%d' % i, 'args': [['a%d' % j, xb.gen_tyref(rng, u, 1, 'arg')] for j in range(rng.randint(0, 2))],
                             'rets': rets, 'style': 'out_bare'})
    return u


def methods_table(app):
    """the request / response elements `add_missing_elements_for_methods` declares, and the classes whose registered
    object is a message copy (`sub_name` set): input of `Schema.withMethods`"""
    from spyne.model.complex import ComplexModelBase
    elems, noelem, prims = [], [], []
    for key, descs in sorted(app.interface.service_method_map.items()):
        for msg in (descs[0].in_message, descs[0].out_message):
            if msg is None:
                continue
            if not issubclass(msg, ComplexModelBase):
                if not msg.is_default(msg) or msg.get_namespace() != XS:
                    raise Unmodelled('a method message that is a customised primitive')
                prims.append([msg.Attributes.sub_name or msg.get_type_name(), msg.get_type_name()])
                continue
            elems.append([msg.Attributes.sub_name or msg.get_type_name(), msg.get_namespace(), msg.get_type_name()])
    # the documents are built from every class object among interface.deps (keys and values): a class has an element of
    # its own name iff some object of it without `sub_name` is among them (a bare method registers a copy that has one)
    objs = set(app.interface.deps)
    for vs in app.interface.deps.values():
        objs |= set(vs)
    own, any_ = set(), set()
    for cls in objs:
        if isinstance(cls, type) and issubclass(cls, ComplexModelBase):
            k = (cls.get_namespace(), cls.get_type_name())
            any_.add(k)
            if cls.Attributes.sub_name is None:
                own.add(k)
    noelem = [list(k) for k in sorted(any_ - own)]
    return {'elems': elems, 'noElem': noelem, 'prims': prims}


# ====================================================================================== gallery: hand-built declarations
# Dimensions of complex_add / xml_attribute_add / the to_parent handlers that the shared type universe (xmlblock) cannot
# express: annotations, defaults, a private parent, excluded members, AnyXml / AnyDict / xs:any, Decimal / Double / Float,
# totalDigits / fractionDigits / number patterns, Uuid / AnyUri, sub_name on members and classes, SOAP header classes.
# T3 only: the schema compiles, the documents spyne writes for a conformant instance (request by its client, response by
# its server, and the streamed response) are valid against it. Every case is a function of an index so that a replay
# rebuilds exactly the classes and the instance.
XSD_ANY = '{http://www.w3.org/2001/XMLSchema}any'


def gallery_cases():
    import datetime, decimal, uuid
    from lxml import etree
    from spyne import ComplexModel, XmlAttribute
    from spyne.model.primitive import (AnyXml, AnyDict, AnyHtml, Unicode, Integer, Integer8, Boolean, Date, DateTime, Decimal,
                                       Double, Float, Uuid, AnyUri)
    D = decimal.Decimal
    cases = []

    def case(name, **opts):
        def deco(f):
            cases.append((name, f, opts))
            return f
        return deco

    @case('annotations', n=4)
    def _(i):
        class Ann(ComplexModel):
            """A documented class."""
            __namespace__ = 'urn:ga'

            class Annotations(ComplexModel.Annotations):
                appinfo = [{'k': 'v', 'n': {'m': '1'}}, 'plain text', etree.Element('{urn:x}info'), None][i % 4]
            _type_info = [('a', Unicode(doc='member doc')), ('b', Integer(doc='another'))]
        if i % 4 == 3:
            Ann.__doc__ = 'only a docstring'
        return Ann, Ann(a='x', b=3)

    @case('annotation-object')
    def _(i):
        class Info(ComplexModel):
            __namespace__ = 'urn:gi'
            _type_info = [('author', Unicode)]

        class Ann(ComplexModel):
            __namespace__ = 'urn:ga'

            class Annotations(ComplexModel.Annotations):
                appinfo = Info(author='me')
            _type_info = [('a', Unicode)]
        return Ann, Ann(a='x')

    @case('defaults', n=3, bad=[('i', 'x'), ('r', '2'), ('d', '2020-02-30')])
    def _(i):
        class Dflt(ComplexModel):
            __namespace__ = 'urn:ga'
            _type_info = [('i', Integer(default=5)), ('s', Unicode(default='a b')), ('b', Boolean(default=False)),
                          ('d', Date(default=datetime.date(2020, 2, 29))), ('r', Integer8(ge=3, default=4)),
                          ('dt', DateTime(default=datetime.datetime(2020, 1, 2, 3, 4, 5))),
                          ('dec', Decimal(6, 2, default=D('1.50'))), ('at', XmlAttribute(Unicode(default='q')))]
        return Dflt, [Dflt(), Dflt(i=1, s='z', b=True, d=datetime.date(1999, 1, 1), r=9, at='w'), Dflt(s='', r=3)][i % 3]

    @case('private-parent', n=2, bad=[('q', '')])
    def _(i):
        class Priv(ComplexModel):
            __namespace__ = 'urn:ga'

            class Attributes(ComplexModel.Attributes):
                exc_interface = True
            _type_info = [('p', Unicode), ('q', Integer(min_occurs=1))]

        class Pub(Priv):
            __namespace__ = 'urn:ga'

            class Attributes(Priv.Attributes):
                exc_interface = False
            _type_info = [('r', Unicode)]
        return Pub, [Pub(p='x', q=1, r='y'), Pub(q=2)][i % 2]

    @case('excluded-members', n=2)
    def _(i):
        class Exc(ComplexModel):
            __namespace__ = 'urn:ga'
            _type_info = [('a', Unicode), ('hidden', Unicode(exc=True, exc_interface=True)), ('schemaonly', Unicode(exc=True)),
                          ('z', Integer)]
        return Exc, [Exc(a='x', hidden='h', schemaonly='s', z=1), Exc(z=2)][i % 2]

    @case('any', n=3)
    def _(i):
        class Any1(ComplexModel):
            __namespace__ = 'urn:ga'
            _type_info = [('x', AnyXml), ('d', AnyDict), ('t', Unicode)]
        return Any1, [Any1(x=etree.fromstring('<q xmlns="urn:z"><r>1</r></q>'), d={'k': ['v']}, t='t'),
                      Any1(d={'a': [{'b': ['c']}]}), Any1(x=etree.fromstring('<q a="1">text</q>'))][i % 3]

    @case('any-wildcard', n=4)
    def _(i):
        class AnyW(ComplexModel):
            __namespace__ = 'urn:ga'
            _type_info = [('w', AnyXml(schema_tag=XSD_ANY, namespace='##any', process_contents=['lax', 'skip'][i % 2]))]
        return AnyW, [AnyW(w=etree.fromstring('<o xmlns="urn:other"/>')), AnyW()][(i // 2) % 2]

    @case('anyhtml', expect='emitted-invalid:anyhtml-element-under-xs-string')
    def _(i):
        class H(ComplexModel):
            __namespace__ = 'urn:ga'
            _type_info = [('h', AnyHtml)]
        return H, H(h=etree.fromstring('<p>hi</p>'))

    @case('numbers', n=4, soft=False, bad=[('d', '1.234'), ('d', '123456789'), ('da', '1.23'), ('e', '1.4'), ('e', '10'), ('g', '0.4'), ('t', '12345'),
                               ('m', '5'), ('pt', '+12'), ('pd', '3.1'), ('f', 'inf'), ('d', '1E+2')])
    def _(i):
        class Num(ComplexModel):
            __namespace__ = 'urn:ga'
            _type_info = [('d', Decimal(8, 2)), ('e', Decimal(ge=D('1.5'), lt=10)), ('f', Double), ('g', Float(ge=0.5)),
                          ('t', Integer(total_digits=4)), ('m', Integer(gt=5, ge=3)), ('pt', Integer(pattern='[0-9]+')),
                          ('pd', Decimal(pattern=r'\d+\.\d\d')), ('da', XmlAttribute(Decimal(5, 1)))]
        return Num, [Num(d=D('123456.78'), e=D('1.5'), f=1e300, g=0.5, t=9999, m=6, pt=12, pd=D('3.10'), da=D('1234.5')),
                     Num(d=D('-0.05'), e=D('9.999999999999999999'), f=float('inf'), g=1e7, t=-9999),
                     Num(d=D('0'), f=float('-inf'), g=0.5, t=0, m=7, da=D('-0.1')),
                     Num(d=D('100.00'), e=D('2'), f=-0.0, t=1)][i % 4]

    @case('decimal-scientific', n=3, expect='emitted-invalid:decimal-scientific-notation')
    def _(i):
        # DESIGN D04 (C08 lex:decimal:scientific): str(Decimal) in exponent form is not an xs:decimal literal
        class Sci(ComplexModel):
            __namespace__ = 'urn:ga'
            _type_info = [('d', Decimal)]
        return Sci, Sci(d=[D('1E+2'), D('2.8E+10'), D('0E-7')][i % 3])

    @case('xsi-type-explicit', n=2, xsi=[('s', 'Shape'), ('s', 'Circle'), ('Shape', 'Shape'), ('Shape', 'Circle'), ('p', 'Shape'),
                                         ('p', 'Circle'), ('r', 'Shape'), ('r', 'Circle')])
    def _(i):
        # xsi:type on elements whose declared type is a CUSTOMISED variant of a class (member with min_occurs=1, items of an
        # Array, a repeated member) and on a plain member
        from spyne.model.complex import Array

        class Shape(ComplexModel):
            __namespace__ = 'urn:ga'
            _type_info = [('name', Unicode)]

        class Circle(Shape):
            __namespace__ = 'urn:ga'
            _type_info = [('radius', Integer)]

        class Box(ComplexModel):
            __namespace__ = 'urn:ga'
            _type_info = [('s', Shape.customize(min_occurs=1, nillable=False)), ('arr', Array(Shape)), ('p', Shape),
                          ('r', Shape.customize(max_occurs=3))]
        return Box, [Box(s=Shape(name='a'), arr=[Shape(name='b'), Shape(name='c')], p=Shape(name='d'), r=[Shape(name='e')]),
                     Box(s=Shape(), arr=[Shape()], r=[Shape(name='e'), Shape()])][i % 2]

    @case('append-field-history', n=2)
    def _(i):
        # history: the derived class is used (its flattened member list gets memoised), THEN a member is appended to its base,
        # then the application is built: schema, client, lxml hook and soft decoder must all know the inherited member
        class HBase(ComplexModel):
            __namespace__ = 'urn:ga'
            _type_info = [('a', Unicode)]

        class HDer(HBase):
            __namespace__ = 'urn:ga'
            _type_info = [('b', Integer)]
        gallery_run('append-field-history:before', lambda _i: (HDer, HDer(a='x', b=1)), {}, 0, 'xml')
        HDer.get_flat_type_info(HDer)
        HBase.append_field('extra', [Unicode(min_occurs=1, nillable=False), Integer8(ge=3, min_occurs=1)][i % 2])
        return HDer, HDer(a='x', b=1, extra=['v', 5][i % 2])

    @case('integer-bounds', n=20)
    def _(i):
        # schema accepts => decoder accepts: both ends of every bounded integer type, the neighbours, and the shortest value
        # with the full digit count (the length guard `max_str_len` of the parse step must leave room for the sign)
        from spyne.model.primitive import (Integer8, Integer16, Integer32, Integer64, UnsignedInteger8, UnsignedInteger16,
                                           UnsignedInteger32, UnsignedInteger64)
        kinds = [Integer8, Integer16, Integer32, Integer64, UnsignedInteger8, UnsignedInteger16, UnsignedInteger32, UnsignedInteger64]
        picks = [lambda lo, hi: lo, lambda lo, hi: lo + 1, lambda lo, hi: -(10 ** (len(str(hi)) - 1)) if lo < 0 else 10 ** (len(str(hi)) - 1),
                 lambda lo, hi: hi, lambda lo, hi: hi - 1]
        pick = picks[i % 5]
        ks = kinds[(i // 5) * 2:(i // 5) * 2 + 2]

        class IB(ComplexModel):
            __namespace__ = 'urn:ga'
            _type_info = [('v%d' % j, k) for j, k in enumerate(ks)] + [('a', XmlAttribute(ks[0])), ('l', ks[1](max_occurs=3))]
        vals = [pick(k.Attributes.min_bound, k.Attributes.max_bound) for k in ks]
        return IB, IB(v0=vals[0], v1=vals[1], a=vals[0], l=[vals[1], vals[1]])

    @case('uuid-anyuri', n=2, bad=[('u', 'zz'), ('u', '00000000-0000-0000-0000-00000000000g')])
    def _(i):
        class Misc(ComplexModel):
            __namespace__ = 'urn:ga'
            _type_info = [('u', Uuid), ('a', AnyUri), ('us', Uuid(max_occurs=2))]
        return Misc, [Misc(u=uuid.UUID(int=5), a='http://x/y?z=1 2', us=[uuid.UUID(int=2 ** 128 - 1)]), Misc(a='')][i % 2]

    @case('uuid-attribute')
    def _(i):
        class MiscA(ComplexModel):
            __namespace__ = 'urn:ga'
            _type_info = [('v', Unicode), ('ua', XmlAttribute(Uuid)), ('ra', XmlAttribute(AnyUri, use='required'))]
        return MiscA, MiscA(v='x', ua=uuid.UUID(int=7), ra='urn:q')

    @case('sub-name', n=2, bad=[('beta', 'x')])
    def _(i):
        class Inner(ComplexModel):
            __namespace__ = 'urn:ga'
            _type_info = [('v', Unicode)]

        class Sub(ComplexModel):
            __namespace__ = 'urn:gb'
            _type_info = [('a', Unicode(sub_name='alpha')), ('b', Integer(sub_name='beta', min_occurs=1)),
                          ('l', Unicode(sub_name='item', max_occurs=3)), ('i', Inner.customize(sub_name='inner')), ('j', Inner)]
        return Sub, [Sub(a='x', b=2, l=['p', 'q'], i=Inner(v='1'), j=Inner(v='2')), Sub(b=0)][i % 2]

    @case('sub-ns', expect='emitted-invalid:member-sub-ns-not-in-schema')
    def _(i):
        class SubNs(ComplexModel):
            __namespace__ = 'urn:ga'
            _type_info = [('a', Unicode(sub_ns='urn:elsewhere'))]
        return SubNs, SubNs(a='x')

    @case('soap-headers', protos=('soap11', 'soap12'))
    def _(i):
        class Hin(ComplexModel):
            __namespace__ = 'urn:gh1'
            _type_info = [('tok', Unicode)]

        class Hout(ComplexModel):
            __namespace__ = 'urn:gh2'
            _type_info = [('n', Integer8(ge=3)), ('at', XmlAttribute(Unicode))]

        class Body(ComplexModel):
            __namespace__ = 'urn:ga'
            _type_info = [('v', Unicode)]
        return Body, Body(v='x'), {'in_header': (Hin,), 'out_header': (Hout,), 'hdr': Hout(n=5, at='z'), 'in_hdr_val': Hin(tok='t')}
    return cases


def gallery_run(name, f, opts, i, proto, verbose=False):
    """build the application of one gallery case and push one instance through client and server; returns a list of
    (stage, ok, detail, document)"""
    from lxml import etree
    from spyne import Application, rpc, ServiceBase, MethodContext
    from spyne.protocol.xml import XmlDocument
    from spyne.protocol.soap import Soap11, Soap12
    from spyne.server import ServerBase
    r = f(i)
    C, inst, extra = (r + ({},))[:3]
    kw = {}
    if extra.get('in_header'):
        kw['_in_header'] = extra['in_header']
    if extra.get('out_header'):
        kw['_out_header'] = extra['out_header']

    def echo(ctx, x):
        if extra.get('hdr') is not None:
            ctx.out_header = extra['hdr']
        return x
    svc = type('GSvc', (ServiceBase,), {'echo': rpc(C, _returns=C, **kw)(echo)})
    P = {'xml': XmlDocument, 'soap11': Soap11, 'soap12': Soap12}[proto]
    out = []
    xb._APP_COUNTER[0] += 1
    try:
        app = Application([svc], 'urn:g', name='Gallery%d' % xb._APP_COUNTER[0], in_protocol=P(validator='lxml'), out_protocol=P())
    except Exception as e:
        return [('compile', False, '%s: %s' % (type(e).__name__, str(e)[:300]), None)]
    out.append(('compile', True, '', None))
    vs = app.in_protocol.validation_schema
    try:
        data = emit_request(app, '{urn:g}echo', [inst])
    except Exception as e:
        return out + [('request-crash', False, '%s: %s' % (type(e).__name__, str(e)[:200]), None)]
    body = body_el(proto, data, app.in_protocol)
    okb = body is not None and bool(vs.validate(body))
    out.append(('request', okb, '' if okb else last_error(vs, body), data.decode('utf-8', 'replace')))
    if okb:
        # the declared constraints are IN the schema: a literal that breaks one is refused (when the member is present)
        import copy as _copy
        for member, lit in opts.get('bad', ()):
            b2 = _copy.deepcopy(body)
            hits = [e for e in b2.iter() if isinstance(e.tag, str) and etree.QName(e).localname == member and len(e) == 0
                    and e.get(XSI_NIL_ATTR) is None]
            if not hits:
                continue
            hits[0].text = lit
            acc = bool(vs.validate(b2))
            out.append(('rejects:%s=%s' % (member, lit), not acc, 'the published schema accepts %r for member %s' % (lit, member),
                        etree.tostring(b2).decode('utf-8', 'replace')))
    server = ServerBase(app)
    ctx0 = MethodContext(server, MethodContext.SERVER)
    ctx0.in_string = [data]
    c = server.generate_contexts(ctx0)[0]
    if c.in_error is None:
        server.get_in_object(c)
    if c.in_error is not None:
        return out + [('served', False, 'the server refuses spyne\'s own request: %s' % (c.in_error,), data.decode('utf-8', 'replace'))]
    server.get_out_object(c)
    if c.out_error is not None:
        return out + [('served', False, 'out_error %s' % (c.out_error,), None)]
    out_object, descriptor = c.out_object, c.descriptor
    server.get_out_string(c)
    resp = b''.join(c.out_string)
    rb = body_el(proto, resp)
    okr = rb is not None and bool(vs.validate(rb))
    out.append(('response', okr, '' if okr else last_error(vs, rb), resp.decode('utf-8', 'replace')))

    def serve(validator, payload):
        """(fault text or None, response bytes) of a fresh application with that validator"""
        xb._APP_COUNTER[0] += 1
        a2 = Application([svc], 'urn:g', name='Gallery%d' % xb._APP_COUNTER[0], in_protocol=P(validator=validator), out_protocol=P())
        s2 = ServerBase(a2)
        c0 = MethodContext(s2, MethodContext.SERVER)
        c0.in_string = [payload]
        c2 = s2.generate_contexts(c0)[0]
        if c2.in_error is None:
            s2.get_in_object(c2)
        if c2.in_error is not None:
            return str(c2.in_error), None
        s2.get_out_object(c2)
        if c2.out_error is not None:
            return str(c2.out_error), None
        s2.get_out_string(c2)
        return None, b''.join(c2.out_string)
    # schema = soft decoder: the request the schema accepts is served by validator='soft' with the same answer
    if opts.get('soft') is False:
        # Double's default bounds are exclusive infinities: validator=soft refuses INF / -INF, which xs:double (and the
        # lxml path) accepts — upstream's reading, recorded in fixes/C06-known.json; the soft stage is left out for this case
        fault, resp_soft = None, resp
    else:
        fault, resp_soft = serve('soft', data)
    rbs = body_el(proto, resp_soft) if resp_soft else None
    oks = fault is None and rbs is not None and xb.node_of(rbs) == xb.node_of(rb)
    out.append(('soft-serves', oks, '' if oks else (fault or 'validator=soft answers differently: %s' % (resp_soft or b'').decode('utf-8', 'replace')[:300]),
                data.decode('utf-8', 'replace')))
    # schema accepts => decoder accepts, for requests that spell xsi:type explicitly (as .NET / Java clients do): the declared
    # type itself and each subclass, on the listed members
    for member, tname in opts.get('xsi', ()):
        doc = etree.fromstring(data)
        hits = [e for e in doc.iter() if isinstance(e.tag, str) and etree.QName(e).localname == member and e.prefix]
        if not hits:
            continue
        for e in hits:
            e.set(XSI_TYPE, '%s:%s' % (e.prefix, tname))
        payload = etree.tostring(doc)
        b3 = body_el(proto, payload, app.in_protocol)
        if not vs.validate(b3):
            out.append(('xsi-type:%s=%s:schema' % (member, tname), None, 'not a schema-valid spelling: %s' % last_error(vs, b3), None))
            continue
        for validator in ('lxml', 'soft'):
            fault, _r = serve(validator, payload)
            out.append(('xsi-type:%s=%s:%s' % (member, tname, validator), fault is None,
                        'the published schema accepts the document, validator=%s answers %s' % (validator, fault), payload.decode('utf-8', 'replace')))
    if extra.get('hdr') is not None:
        env = etree.fromstring(resp)
        hdr = [h for h in env if etree.QName(h).localname == 'Header']
        kids = list(hdr[0]) if hdr else []
        okh = bool(kids) and all(vs.validate(k) for k in kids)
        out.append(('out-header', okh, '' if okh else ('no header written' if not kids else last_error(vs, kids[0])), resp.decode('utf-8', 'replace')))
    if proto == 'xml':
        try:
            root = xb.stream_serialize(app, descriptor, out_object)
            oks = bool(vs.validate(root))
            out.append(('streamed-response', oks, '' if oks else last_error(vs, root), etree.tostring(root).decode()))
        except Exception as e:
            out.append(('stream-crash', None, '%s: %s' % (type(e).__name__, str(e)[:200]), None))
    return out


def part_gallery(ctx, rng):
    import warnings
    for name, f, opts in gallery_cases():
        for proto in opts.get('protos', ('xml', 'soap11')):
            n = opts.get('n', 1)
            # every variant under XmlDocument, one drawn variant under the other protocols (all of them in the thorough tier)
            for i in (range(n) if (proto == opts.get('protos', ('xml',))[0] or ctx.thorough) else [rng.randrange(n)]):
                with warnings.catch_warnings():
                    warnings.simplefilter('ignore')
                    res = gallery_run(name, f, opts, i, proto)
                replay = {'kind': 'gallery', 'name': name, 'i': i, 'proto': proto}
                ctx.case({'gallery': name, 'i': i, 'p': proto}, True)
                ctx.cov['traces_validated_against_impl'] += 1
                for stage, ok, detail, doc in res:
                    ctx.hit('gallery:%s:%s:%s' % (name, stage, {True: 'ok', False: 'FAIL', None: 'n/a'}[ok]))
                    if ok is False:
                        fid = opts.get('expect') if (opts.get('expect') and stage in ('request', 'response', 'served', 'streamed-response')) \
                            else 'gallery:%s:%s' % (name, stage.split('=')[0])
                        ctx.finding(fid, 'declaration "%s" (%s): %s — %s' % (name, proto, {
                            'compile': 'the published schema is refused by libxml2 / cannot be built',
                            'request-crash': 'spyne\'s client cannot serialise a conformant instance',
                            'request': 'the request spyne\'s client writes is invalid against the published schema',
                            'served': 'the request spyne\'s client writes is refused by the server',
                            'response': 'the response spyne writes is invalid against the published schema',
                            'out-header': 'the SOAP header spyne writes is invalid against the published schema',
                            'streamed-response': 'the response written to ctx.out_stream is invalid against the published schema',
                        }.get(stage, 'a declared constraint is missing from the published schema' if stage.startswith('rejects:') else stage), detail), dict(replay, stage=stage, document=doc))
                        break


# ====================================================================================== run
def classify_compile_error(msg):
    if "}enumeration'" in msg and 'is not a valid value' in msg:
        return 'enumeration-literal-not-in-lexical-space'
    if 'is not a valid value of the atomic type' in msg:
        return 'facet-outside-base-type'
    if 'not indicated by an import statement' in msg:
        return 'reference-without-import'
    if 'does not resolve to a(n) simple type definition' in msg:
        return 'simple-type-not-defined'
    if "The facet 'enumeration' is not allowed" in msg:
        return 'enumeration-on-boolean'
    if 'It is an error for both' in msg:
        return 'inclusive-and-exclusive-bound'
    if 'has to be' in msg:
        return 'contradictory-bounds'
    return 'other'


def soft_outcome(r):
    if r.crash:
        return 'crash'
    if r.fault:
        return 'fault' if r.fault.startswith('Client') else 'crash'
    return 'ok'


def run(ctx):
    import warnings
    from lxml import etree
    from . import c08
    rng = ctx.rng
    # ---------------------------------------------------------------- T1
    c08.refresh_facts(ctx, report=False)
    fx, _ = xb.t1(ctx)
    f6 = measure_facts06()
    ctx.cov['facts06'] = {k: v for k, v in f6.items()}
    ctx.write_generated('Facts06.lean', facts06_lean(f6))
    for k, good in GOOD06.items():
        if f6[k] != good:
            ctx.hit('fact-bad:' + k)
            ctx.finding('fact:%s' % k, 'schema generator fact %s measured %r (the model and the theorems assume %r)' % (k, f6[k], good),
                        {'kind': 'fact', 'fact': k, 'measured': f6[k], 'expected': good})
    if not f6['clampFacets']:
        ctx.hit('fact-bad:clampFacets')
        ctx.finding('compile:facet-outside-base-type',
                    'UnsignedInteger8(gt=-1) is accepted by the model class, but the published schema carries the bound '
                    'as a facet outside xs:unsignedByte and libxml2 refuses it: %s' % f6['_clamp_observed']['error'],
                    {'kind': 'compile', 'universe': clamp_witness_universe(), 'observed': f6['_clamp_observed']})
    if not f6['mergeBounds']:
        ctx.hit('fact-bad:mergeBounds')
        ctx.finding('compile:inclusive-and-exclusive-bound',
                    'Integer(gt=1, ge=3, lt=10, le=12) is a legal declaration, but the published schema carries both forms of '
                    'each bound and libxml2 refuses it: %s' % f6['_merge_observed']['error'],
                    {'kind': 'compile', 'universe': merge_witness_universe(), 'observed': f6['_merge_observed']})
    if not f6['choiceInPlace']:
        ctx.hit('fact-bad:choiceInPlace')
        ctx.finding('emitted-invalid:choice-after-other-members',
                    'one = Integer(xml_choice_group="numbers"); two = ...; punk = Unicode: the published <xs:sequence> is %r — the '
                    '<xs:choice> after `punk` — while the protocols write members in declaration order; spyne\'s own documents are '
                    'rejected by validator=lxml' % (f6['_choice_observed']['sequence_of_W'],),
                    {'kind': 'emit', 'x': True, 'universe': choice_witness_universe(), 'proto': 'xml', 'polymorphic': False,
                     'method': 'm0', 'rets': [],
                     'args': [{'o': ['W', [['one', {'i': '1'}], ['two', None], ['punk', {'s': [120]}]]]}]})
    if not f6['bareRootIsSubName']:
        ctx.hit('fact-bad:bareRootIsSubName')
        ctx.finding('emitted-invalid:bare-response-root-element',
                    'f() -> Integer with _body_style=\'bare\' under XmlDocument: the schema declares <tns:fResponse type="xs:integer"/>, '
                    'the response is %s' % f6['_bare_observed']['response'][-200:],
                    {'kind': 'emit-bare', 'universe': bare_prim_witness_universe(), 'proto': 'xml', 'method': 'f', 'arg': None,
                     'ret': {'i': '5'}})
    if not f6['dataTypeDefined']:
        ctx.hit('fact-bad:dataTypeDefined')
        ctx.finding('compile:simple-type-not-defined',
                    'XmlData(Integer8(ge=3)) is a legal declaration, but the simpleContent extension names a simple type the '
                    'published documents do not define; libxml2 refuses the schema: %s' % f6['_data_observed']['error'],
                    {'kind': 'compile', 'x': True, 'universe': xmldata_witness_universe(), 'observed': f6['_data_observed']})
    # ---------------------------------------------------------------- proof
    ctx.prove()

    Q, E = [], []           # model queries and the implementation's answers

    def ask(q, impl, op, case):
        Q.append(q); E.append((op, impl, case))

    # ---------------------------------------------------------------- T2: lexical recognisers vs lxml
    lex = LexOracle()
    lits = {'integer': c08.NASTY_INT, 'byte': c08.NASTY_INT, 'unsignedShort': c08.NASTY_INT, 'long': c08.NASTY_INT,
            'boolean': c08.NASTY_BOOL, 'date': c08.NASTY_DATE + LEX_VARIANTS['date'], 'time': c08.NASTY_TIME + LEX_VARIANTS['time'],
            'dateTime': c08.NASTY_DT + LEX_VARIANTS['dt'], 'duration': c08.NASTY_DUR + LEX_VARIANTS['dur'],
            'hexBinary': LEX_VARIANTS['hex'] + ['00', 'FF', 'abcdef', 'abcde', 'xyz'],
            'base64Binary': LEX_VARIANTS['base64'] + ['YWJjZA==', 'YWJjZGU=', 'YWJjZGVm', 'Y', 'YQ=', 'YQ', '====', 'YWJj=']}
    alpha = {'integer': '0123456789+-_ x', 'byte': '0123456789+-', 'unsignedShort': '0123456789+-', 'long': '0123456789+-',
             'boolean': 'truefals10TF ', 'date': '0123456789-:+Z T', 'time': '0123456789-:+Z.', 'dateTime': '0123456789-:+Z.T ',
             'duration': '0123456789PTYMDHS.-', 'hexBinary': '0123456789abcdefABCDEFg', 'base64Binary': 'YWJjZGVm+/=-_'}
    for xs_type, base in sorted(lits.items()):
        cand = list(base)
        for _ in range(400 if ctx.thorough else 60):
            cand.append(c08.mutate_text(rng, rng.choice(base), alpha[xs_type]))
        seen = set()
        for s in cand:
            if s in seen or not lex_domain(xs_type, s) or len(s) > 1100:
                continue
            seen.add(s)
            impl = lex.ok(xs_type, s)
            ctx.case({'lex': xs_type, 's': s}, nontrivial=len(s) > 0)
            ctx.hit('lex:%s:%s' % (xs_type, 'valid' if impl else 'invalid'))
            ask({'op': 'lex', 'type': xs_type, 's': cps(s)}, {'ok': impl}, 'lex', {'type': xs_type, 's': s})

    # ---------------------------------------------------------------- T2/T3: compile-time checks on facet universes
    for label, cls, u in facet_universes():
        with warnings.catch_warnings():
            warnings.simplefilter('ignore')
            try:
                b = build_classes(u)
                app, _ = xb.make_app(b, 'xml', None)
                xb.finish_built(b, app)
            except Exception as e:
                ctx.hit('facet-universe:refused-by-spyne:' + type(e).__name__)
                continue
        ok, why = compile_real(app)
        ctx.case({'facets': label}, True)
        ctx.hit('facet-universe:%s:%s' % (cls, 'compiles' if ok else 'refused'))
        ask(dict(op='gen', **app_json(b, app)), (real_schema_canon(app), ok), 'gen', {'universe': u, 'label': label})
        if not ok and (cls.startswith('spyne') or cls == 'ok'):
            kind = classify_compile_error(why)
            ctx.finding('compile:' + kind, 'the schema spyne publishes for %s is refused by libxml2: %s' % (label, why),
                        {'kind': 'compile', 'universe': u, 'label': label, 'error': why})

    # ---------------------------------------------------------------- universes
    n_univ = 400 if ctx.thorough else 60
    n_cross = 120 if ctx.thorough else 22
    per_method = 4 if ctx.thorough else 2
    n_mut = 16 if ctx.thorough else 10
    configs = [(p, 'lxml', poly) for p in xb.PROTOS for poly in (False, True)] + [('xml', 'soft', False)]
    directed = directed_universes()
    for ui in range(n_univ + n_cross + len(directed)):
        cross = n_univ <= ui < n_univ + n_cross
        is_directed = ui >= n_univ + n_cross
        if is_directed:
            u = copy.deepcopy(directed[ui - n_univ - n_cross])
            ctx.hit('universe:directed')
        else:
            u = cross_ns_universe(rng, ui) if cross else xb.gen_universe(rng, ui)
            add_values(rng, u)
        with warnings.catch_warnings():
            warnings.simplefilter('ignore')
            b = build_classes(u)
            app0, _ = xb.make_app(b, 'xml', None)
            xb.finish_built(b, app0)
        A = app_json(b, app0)
        vt = dict((_pkey(p), vals) for p, vals in A['values'])
        for p, vals in A['values']:
            ctx.hit('values-on:' + p['t'])
        ok, vs = compile_real(app0)
        ctx.case({'universe': u['idx'], 'classes': [(c['name'], c['ns'], c['base']) for c in u['classes']]}, len(u['classes']) > 1)
        if not is_directed:
            ctx.hit('universe:%s' % ('cross-ns' if cross else 'plain'))
        ctx.hit('namespaces:%d' % len(set(c['ns'] for c in b.iface['classes'])))
        try:
            canon = real_schema_canon(app0)
        except Unmodelled as e:
            raise core.Infra('the real schema uses a construct outside the modelled subset: %s' % e)
        ask(dict(op='gen', **A), (canon, ok), 'gen', {'universe': u})
        if not ok:
            kind = classify_compile_error(vs)
            ctx.hit('compile-refused:' + kind)
            ctx.finding('compile:' + kind, 'the schema spyne publishes for a generated universe is refused by libxml2: %s' % vs,
                        {'kind': 'compile', 'universe': u, 'error': vs})
            continue
        with warnings.catch_warnings():
            warnings.simplefilter('ignore')
            apps = {}
            for cfg in configs:
                apps[cfg] = _make_app(b, *cfg)
        vschema = apps[('xml', 'lxml', False)][0].in_protocol.validation_schema
        for mname in sorted(b.methods):
            key, in_ty, out_ty = b.methods[mname]
            valid_docs = []
            for ci in range(per_method * (3 if is_directed else 1)):
                call = xb.gen_call(rng, b, mname)
                if call is None:
                    ctx.hit('skip:unsatisfiable-facets')
                    continue
                args, rets = call
                args = [enforce_values(rng, t, v, vt) for (_, t), v in zip(in_ty['fields'], args)]
                rets = [enforce_values(rng, t, v, vt) for (_, t), v in zip(out_ty['fields'], rets)]
                if rng.random() < 0.15:
                    args = [lengthen(rng, t, v) for (_, t), v in zip(in_ty['fields'], args)]
                    rets = [lengthen(rng, t, v) for (_, t), v in zip(out_ty['fields'], rets)]
                    ctx.hit('emit:long-list')
                for poly in (False, True):
                    pp, bp = (1.0, 0.7) if is_directed else (0.5, 0.4)
                    a2 = [polymorphise(rng, b, t, v, pp, bp) for (_, t), v in zip(in_ty['fields'], args)] if poly else args
                    r2 = [polymorphise(rng, b, t, v, pp, bp) for (_, t), v in zip(out_ty['fields'], rets)] if poly else rets
                    if poly:
                        a2 = [enforce_values(rng, t, v, vt, b.fields_of) for (_, t), v in zip(in_ty['fields'], a2)]
                        r2 = [enforce_values(rng, t, v, vt, b.fields_of) for (_, t), v in zip(out_ty['fields'], r2)]
                    is_poly = poly and (a2 != args or r2 != rets)
                    if poly and not is_poly:
                        continue
                    nat = [xb.to_native(b, t, v) for (_, t), v in zip(in_ty['fields'], a2)]
                    xb.set_return(b, mname, out_ty, r2)
                    for proto in xb.PROTOS:
                        app, server = apps[(proto, 'lxml', poly)]
                        replay = {'kind': 'emit', 'universe': u, 'cross': cross, 'proto': proto, 'polymorphic': poly,
                                  'method': mname, 'args': a2, 'rets': r2}
                        ctx.cov['traces_validated_against_impl'] += 1
                        ctx.hit('emit:%s%s' % (proto, ':poly' if poly else ''))
                        ctx.case({'u': u['idx'], 'm': mname, 'p': proto, 'poly': poly, 'a': a2, 'r': r2},
                                 sum(leaves(x) for x in a2 + r2) >= 2)
                        # ---- T3: the request spyne emits is accepted by spyne's own schema validation hook ...
                        try:
                            data = emit_request(app, key, nat)
                        except Exception as e:
                            ctx.finding('emit:request-crash:%s' % type(e).__name__, 'serialising a conformant request raises %s' % type(e).__name__, replay)
                            continue
                        r = xb.run_request(b, server, data)
                        req_body = body_el(proto, data, app.in_protocol)
                        if req_body is not None and unresolved_xsi_types(req_body):
                            ctx.hit('emit:xsi-type-prefix-undeclared')
                            ctx.finding('emitted-invalid:xsi-type-prefix-not-in-scope',
                                        'a polymorphic %s document carries xsi:type="%s" but no declaration of that prefix: the '
                                        'QName does not resolve and the document is invalid against spyne\'s own schema (%s)' % (
                                            proto, unresolved_xsi_types(req_body)[0][0].get(XSI_TYPE), last_error(vschema, req_body)),
                                        dict(replay, request=data.decode('utf-8', 'replace')))
                            fixed = declare_prefixes(req_body, app)
                            if not vschema.validate(fixed):
                                ctx.finding('emitted-invalid:request:%s' % invalid_reason(vschema, fixed),
                                            'even with the prefix declared, the %s request spyne emits is invalid against its own '
                                            'schema (%s)' % (proto, last_error(vschema, fixed)), dict(replay, request=data.decode('utf-8', 'replace')))
                            continue
                        if r.fault and 'SchemaValidationError' in r.fault:
                            ctx.finding('emitted-invalid:request:%s' % invalid_reason(vschema, req_body),
                                        'the %s request spyne emits for conformant values is rejected by its own schema (%s)' % (
                                            proto, last_error(vschema, req_body)),
                                        dict(replay, request=data.decode('utf-8', 'replace')))
                            continue
                        if r.fault or r.crash:
                            # not a schema verdict (C01/C10 territory): count it, keep the evidence honest
                            ctx.hit('emit:request-not-served:%s' % (r.fault or r.crash))
                            continue
                        # ---- ... and so is the response
                        resp_body = body_el(proto, r.out)
                        if resp_body is not None and unresolved_xsi_types(resp_body):
                            ctx.hit('emit:xsi-type-prefix-undeclared')
                            ctx.finding('emitted-invalid:xsi-type-prefix-not-in-scope',
                                        'a polymorphic %s document carries xsi:type="%s" but no declaration of that prefix: the '
                                        'QName does not resolve and the document is invalid against spyne\'s own schema (%s)' % (
                                            proto, unresolved_xsi_types(resp_body)[0][0].get(XSI_TYPE), last_error(vschema, resp_body)),
                                        dict(replay, response=r.out.decode('utf-8', 'replace')))
                            resp_body = declare_prefixes(resp_body, app)
                        if resp_body is None or not vschema.validate(resp_body):
                            ctx.finding('emitted-invalid:response:%s' % invalid_reason(vschema, resp_body),
                                        'the %s response spyne emits for conformant values is invalid against its own schema (%s)' % (
                                            proto, last_error(vschema, resp_body)),
                                        dict(replay, response=(r.out or b'').decode('utf-8', 'replace')))
                            continue
                        if proto == 'xml':
                            stream_t3(ctx, app, r, vschema, replay, resp_body.tag)
                            # T2: the reference validator agrees that both are valid (documents without xsi:type)
                            for body, ty in ((req_body, in_ty), (resp_body, out_ty)):
                                nd = xb.node_of(body)
                                if doc_in_domain(b, ty, nd, vt):
                                    valid_docs.append((ty, nd, 'emitted'))
                    if not poly:
                        # hypotheses of the theorem on this value (model side)
                        inv = xb.msg_val(in_ty, args)
                        ask({'op': 'conformsX', 'ty': in_ty, 'val': inv}, {'conforms': True, 'xsdRep': True}, 'conformsX',
                            {'universe': u['idx'], 'method': mname})
            # ---- mutated request bodies: verdicts of (lxml, soft, reference)
            base_docs = [(ty, nd) for ty, nd, _ in valid_docs if ty is in_ty]
            muts = []
            for _ in range(n_mut if base_docs else 0):
                ty, nd = rng.choice(base_docs)
                m = mutate(rng, b, ty, nd)
                if m is None:
                    continue
                if rng.random() < 0.25:
                    m2 = mutate(rng, b, ty, m[0])
                    if m2 is not None:
                        m = (m2[0], m[1] + '+' + m2[1])
                muts.append((in_ty, m[0], m[1]))
            if base_docs:
                muts += [(in_ty, d, tag) for d, tag in boundary_docs(b, *base_docs[0])]
                muts += [(in_ty, d, tag) for d, tag in nil_docs(b, *base_docs[0], cap=(40 if is_directed else 12))]
            soft_ok_base = {}
            for _ in range((n_mut // 2) if (base_docs and vt) else 0):
                bi = rng.randrange(len(base_docs))
                ty, nd = base_docs[bi]
                if bi not in soft_ok_base:
                    # the unmutated document must be accepted by the soft validator too (it can refuse an emitted
                    # document for reasons of its own, e.g. an empty byte string read back as None)
                    soft_ok_base[bi] = soft_outcome(xb.run_request(b, apps[('xml', 'soft', False)][1], xb.to_bytes(nd))) == 'ok'
                if not soft_ok_base[bi]:
                    continue
                m = mutate_enum(rng, b, ty, nd, vt)
                if m is not None:
                    muts.append((in_ty, m[0], m[1]))
            group = [(ty, nd, tag) for ty, nd, tag in valid_docs if ty is in_ty] + muts
            if not group:
                continue
            app_l, server_l = apps[('xml', 'lxml', False)]
            app_s, server_s = apps[('xml', 'soft', False)]
            docs, impls = [], []
            for ty, nd, tag in group:
                data = xb.to_bytes(nd)
                parsed = xb.parse_like_spyne(data, app_l.in_protocol)
                if parsed is None:
                    continue
                seen = xb.node_of(parsed)
                lx = bool(vschema.validate(parsed))
                rl = xb.run_request(b, server_l, data)
                rs = xb.run_request(b, server_s, data)
                hook = not (rl.fault and 'SchemaValidationError' in rl.fault)
                if hook != lx:
                    ctx.finding('hook-differs', 'the validation hook of XmlDocument(validator=lxml) and the compiled schema disagree',
                                {'kind': 'doc', 'universe': u, 'method': mname, 'doc': nd, 'tag': tag})
                indom = doc_in_domain(b, ty, seen, vt) and soft_domain(b, ty, seen, ctx.facts08['intMaxStrLen'])
                docs.append(seen)
                impls.append({'lxml': lx, 'soft': soft_outcome(rs), 'served_lxml': soft_outcome(rl), 'tag': tag, 'indom': indom,
                              'values': bool(vt)})
                if tag.startswith('enum-'):
                    # T3 on the real code: a declared value is accepted, a non-member rejected, by both validators
                    want = tag.startswith('enum-member')
                    ctx.hit('values:%s' % tag)
                    rep = {'kind': 'doc', 'universe': u, 'method': mname, 'doc': nd, 'tag': tag,
                           'observed': {'lxml': lx, 'soft': soft_outcome(rs)}}
                    if lx != want:
                        ctx.finding('values:lxml-%s:%s' % ('rejects-member' if want else 'accepts-non-member', tag.split(':')[1]),
                                    'schema validation %s a %s of the declared values' % (
                                        'accepts' if lx else 'rejects', 'member' if want else 'non-member'), rep)
                    if (soft_outcome(rs) == 'ok') != want:
                        ctx.finding('values:soft-%s:%s' % ('rejects-member' if want else 'accepts-non-member', tag.split(':')[1]),
                                    'soft validation %s a %s of the declared values' % (
                                        'accepts' if soft_outcome(rs) == 'ok' else 'rejects', 'member' if want else 'non-member'), rep)
                ctx.case({'u': u['idx'], 'm': mname, 'doc': seen}, node_leaves(seen) >= 2)
                ctx.hit('doc:%s' % tag.split(':')[0].split('+')[0])
                ctx.hit('verdict:lxml=%s,soft=%s' % ('accept' if lx else 'reject', soft_outcome(rs)))
            ask(dict(op='verdicts', ty=in_ty, docs=docs, x=fx, **A), impls, 'verdicts', {'universe': u, 'method': mname, 'docs': docs})
    # ---------------------------------------------------------------- member kinds: attributes, XmlData, choice groups
    n_attr = 120 if ctx.thorough else 20
    dir_kinds = directed_kind_universes()
    for ui in range(n_attr + len(dir_kinds)):
        is_dir_kind = ui >= n_attr
        u = copy.deepcopy(dir_kinds[ui - n_attr]) if is_dir_kind else attr_universe(rng, 7000 + ui, f6['dataTypeDefined'])
        groups = groups_of(u)
        with warnings.catch_warnings():
            warnings.simplefilter('ignore')
            b = build_classes_x(u)
            app0, _ = xb.make_app(b, 'xml', None)
            xb.finish_built(b, app0)
        ok, vs = compile_real(app0)
        ctx.case({'universe': u['idx'], 'kinds': True, 'classes': [(c['name'], c['ns'], c['base']) for c in u['classes']]}, True)
        kinds_in = set(t.get('mk') or ('choice' if t['o'].get('choice') else 'element') for c in u['classes'] for _, t in c['own'])
        for k in sorted(kinds_in):
            ctx.hit('kinds-universe:has-%s' % k)
        try:
            A = app_json_x(b, app0)
        except AmbiguousEnum:
            # which namespace a customised copy of an Enum class lands in depends on the order the interface is walked in;
            # the model takes one namespace per Enum as input. Universes with two are left out (counted).
            ctx.hit('skip:enum-copies-in-two-namespaces')
            continue
        try:
            canon = canon_real_schema_x(real_schema(app0)[1], app0.interface.nsmap)
        except Unmodelled as e:
            if ok:
                raise core.Infra('the real schema uses a construct outside the modelled subset: %s' % e)
            canon = None        # documents libxml2 refuses: only the compile verdict is compared
        ask(dict(op='genA', **A), (canon, ok), 'genA', {'universe': u})
        # `default=` of element and attribute declarations: the literal the model's leaf encoder writes for the value
        decl = dict(((c['name'], k), t) for c in u['classes'] for k, t in c['own'] if t['o'].get('default') is not None)
        dflt = set(k for _, k in decl)
        if canon is not None:
            seen_d = set()
            for cname, member, lit in canon['defaults']:
                t = decl.get((cname, member))
                if t is None:
                    ctx.disagree('default-undeclared', {'x': True, 'universe': u, 'class': cname, 'member': member}, lit, None)
                    continue
                seen_d.add((cname, member))
                ctx.hit('default:%s:%s' % (t.get('mk') or 'element', t['p']['t']))
                ask({'op': 'defaultLit', 'p': t['p'], 'val': t['o']['default']}, {'lit': cps(lit)}, 'defaultLit',
                    {'x': True, 'universe': u, 'class': cname, 'member': member})
            published = set(k[1] for k in canon['complex'])         # classes no method reaches are not in the interface
            for km in sorted(k for k in set(decl) - seen_d if k[0] in published):
                ctx.disagree('default-not-published', {'x': True, 'universe': u, 'class': km[0], 'member': km[1]}, None, decl[km]['o']['default'])
        if not ok:
            kind = classify_compile_error(vs)
            ctx.hit('compile-refused:' + kind)
            ctx.finding('compile:' + kind, 'the schema spyne publishes for a universe with attribute / XmlData / choice members is '
                        'refused by libxml2: %s' % vs, {'kind': 'compile', 'x': True, 'universe': u, 'error': vs})
            continue
        with warnings.catch_warnings():
            warnings.simplefilter('ignore')
            apps = dict((proto, _make_app(b, proto, 'lxml', False)) for proto in xb.PROTOS)
        vschema = apps['xml'][0].in_protocol.validation_schema
        for mname in sorted(b.methods):
            key, in_ty, out_ty = b.methods[mname]
            valid_docs = []
            for ci in range(per_method * (4 if is_dir_kind else 1)):
                call = xb.gen_call(rng, b, mname)
                if call is None:
                    ctx.hit('skip:unsatisfiable-facets')
                    continue
                args = [enforce_choice(rng, groups, v) for v in call[0]]
                rets = [enforce_choice(rng, groups, v) for v in call[1]]
                nat = [xb.to_native(b, t, v) for (_, t), v in zip(in_ty['fields'], args)]
                xb.set_return(b, mname, out_ty, rets)
                for proto in xb.PROTOS:
                    app, server = apps[proto]
                    replay = {'kind': 'emit', 'x': True, 'universe': u, 'proto': proto, 'polymorphic': False, 'method': mname,
                              'args': args, 'rets': rets}
                    ctx.cov['traces_validated_against_impl'] += 1
                    ctx.hit('emit-kinds:%s' % proto)
                    ctx.case({'u': u['idx'], 'm': mname, 'p': proto, 'a': args, 'r': rets}, sum(leaves(x) for x in args + rets) >= 2)
                    # ---- T3: documents of classes with attributes / simple content / choices pass spyne's own schema
                    try:
                        data = emit_request(app, key, nat)
                    except ValueError as e:
                        if 'All strings must be XML compatible' in str(e):
                            # XmlData.marshall hands lxml UTF-8 bytes: non-ASCII text cannot be written at all. No document,
                            # no schema verdict; the defect is the XML codec's (build-XML's switch dataTextUnicode, C01)
                            ctx.hit('emit:xmldata-non-ascii-not-serialisable')
                            continue
                        ctx.finding('emit:request-crash:ValueError', 'serialising a conformant request raises ValueError', replay)
                        continue
                    except Exception as e:
                        ctx.finding('emit:request-crash:%s' % type(e).__name__, 'serialising a conformant request raises %s' % type(e).__name__, replay)
                        continue
                    r = xb.run_request(b, server, data)
                    req_body = body_el(proto, data, app.in_protocol)
                    if r.fault and 'SchemaValidationError' in r.fault:
                        ctx.finding('emitted-invalid:choice-after-other-members' if (any(groups.values()) and not f6['choiceInPlace'])
                                    else 'emitted-invalid:request:%s' % invalid_reason(vschema, req_body),
                                    'the %s request spyne emits for conformant values (attribute / XmlData / choice members) is '
                                    'rejected by its own schema (%s)' % (proto, last_error(vschema, req_body)),
                                    dict(replay, request=data.decode('utf-8', 'replace')))
                        continue
                    if r.fault or r.crash:
                        ctx.hit('emit:request-not-served:%s' % (r.fault or r.crash))
                        continue
                    resp_body = body_el(proto, r.out)
                    if resp_body is None or not vschema.validate(resp_body):
                        ctx.finding('emitted-invalid:choice-after-other-members' if (any(groups.values()) and not f6['choiceInPlace'])
                                    else 'emitted-invalid:response:%s' % invalid_reason(vschema, resp_body),
                                    'the %s response spyne emits for conformant values (attribute / XmlData / choice members) is '
                                    'invalid against its own schema (%s)' % (proto, last_error(vschema, resp_body)),
                                    dict(replay, response=(r.out or b'').decode('utf-8', 'replace')))
                        continue
                    if proto == 'xml':
                        stream_t3(ctx, app, r, vschema, replay)
                        for body, ty in ((req_body, in_ty), (resp_body, out_ty)):
                            nd = xb.node_of(body)
                            if doc_in_domain_x(b, ty, nd, None, dflt):
                                valid_docs.append((ty, nd, 'emitted'))
                            for t2, n2 in typed_nodes(b, ty, nd):
                                if t2['k'] == 'obj' and n2['a'] and not any(k == XSI_NIL for k, _ in n2['a']):
                                    ctx.hit('emitted:attribute-present')
                                if t2['k'] == 'obj' and any(t.get('mk') == 'data' for _, t in t2['fields']) and n2['x'] is not None:
                                    ctx.hit('emitted:simple-content')
                                if t2['k'] == 'obj' and any(c['n'] in groups.get(t2['name'], {}) for c in n2['c']):
                                    ctx.hit('emitted:choice-member')
            base_docs = [(ty, nd) for ty, nd, _ in valid_docs if ty is in_ty]
            muts = []
            for _ in range(n_mut if base_docs else 0):
                ty, nd = rng.choice(base_docs)
                m = mutate_kinds(rng, b, ty, nd, groups) if rng.random() < 0.7 else mutate(rng, b, ty, nd)
                if m is not None:
                    muts.append((in_ty, m[0], m[1]))
            group = [(ty, nd, tag) for ty, nd, tag in valid_docs] + muts
            docs, impls, tys = [], [], []
            for ty, nd, tag in group:
                if ty is not in_ty:
                    continue
                data = xb.to_bytes(nd)
                parsed = xb.parse_like_spyne(data, apps['xml'][0].in_protocol)
                if parsed is None:
                    continue
                seen = xb.node_of(parsed)
                lx = bool(vschema.validate(parsed))
                indom = doc_in_domain_x(b, ty, seen, None, dflt)
                docs.append(seen)
                impls.append({'lxml': lx, 'tag': tag, 'indom': indom})
                ctx.case({'u': u['idx'], 'm': mname, 'doc': seen}, True)
                ctx.hit('doc-kinds:%s:%s' % (tag.split(':')[0], 'accept' if lx else 'reject'))
            if docs:
                ask(dict(op='validA', docs=docs, **A), impls, 'validA', {'universe': u, 'method': mname, 'docs': docs})
    # ---------------------------------------------------------------- bare methods: the message IS the argument class
    n_bare = 60 if ctx.thorough else 10
    for ui in range(n_bare):
        u = bare_universe(rng, 8500 + ui)
        with warnings.catch_warnings():
            warnings.simplefilter('ignore')
            b = build_classes(u)
            app0, _ = xb.make_app(b, 'xml', None)
            xb.finish_built(b, app0)
        try:
            A = dict(app_json(b, app0), methods=methods_table(app0))
        except Unmodelled as e:
            ctx.hit('skip:bare-universe:%s' % e)
            continue
        ok, vs = compile_real(app0)
        ctx.case({'universe': u['idx'], 'bare': True, 'classes': [(c['name'], c['ns'], c['base']) for c in u['classes']]}, True)
        ctx.hit('universe:bare-methods')
        if any(e[1] != u['tns'] for e in A['methods']['elems']):
            ctx.hit('bare:message-class-in-another-namespace')
        try:
            canon = real_schema_canon(app0)
        except Unmodelled as e:
            raise core.Infra('the real schema uses a construct outside the modelled subset: %s' % e)
        ask(dict(op='gen', **A), (canon, ok), 'gen', {'universe': u, 'bare': True})
        if not ok:
            kind = classify_compile_error(vs)
            ctx.hit('compile-refused:' + kind)
            ctx.finding('compile:' + kind, 'the schema spyne publishes for a universe with bare methods is refused by libxml2 '
                        '(validator=lxml cannot be set up): %s' % vs, {'kind': 'compile', 'universe': u, 'error': vs})
            continue
        with warnings.catch_warnings():
            warnings.simplefilter('ignore')
            apps = dict((proto, _make_app(b, proto, 'lxml', False)) for proto in xb.PROTOS)
        vschema = apps['xml'][0].in_protocol.validation_schema
        for m in u['methods']:
            if m.get('style') not in ('bare', 'out_bare'):
                continue
            mname = m['name']
            ctx.hit('bare:%s:returns-%s' % (m['style'], (m['rets'][0]['k'] if m['rets'] else 'nothing')))
            key, in_ty, out_ty = b.methods[mname]
            docs, impls = [], []
            for ci in range(per_method + 1):
                v = xb.gen_one(rng, in_ty, none_p=0)
                rv = xb.gen_one(rng, out_ty, none_p=0) if m['rets'] else None
                if v is None or not xb.py_conforms_one(in_ty, v) or (rv is not None and not xb.py_conforms_one(out_ty, rv)):
                    ctx.hit('skip:unsatisfiable-facets')
                    continue
                b.ret[mname] = xb.to_native(b, out_ty, rv) if m['rets'] else None
                req = xb.ref_encode_one(b, in_ty, v, u['tns'], mname, u['tns'])
                for proto in xb.PROTOS:
                    app, server = apps[proto]
                    replay = {'kind': 'emit-bare', 'universe': u, 'proto': proto, 'method': mname, 'arg': v, 'ret': rv}
                    ctx.cov['traces_validated_against_impl'] += 1
                    ctx.hit('emit-bare:%s' % proto)
                    ctx.case({'u': u['idx'], 'm': mname, 'p': proto, 'bare': v, 'r': rv}, leaves(v) >= 1)
                    # spyne's client cannot call bare methods: the request is the reference encoding of the argument as
                    # the element <tns:method>; T3 is on the RESPONSE the real server emits (and on the hook's verdict)
                    data = xb.to_bytes(xb.wrap_envelope(proto, [req]))
                    r = xb.run_request(b, server, data)
                    if r.fault and 'SchemaValidationError' in r.fault:
                        ctx.finding('bare-request-rejected:%s' % invalid_reason(vschema, body_el(proto, data, app.in_protocol)),
                                    'a %s request that carries a conformant instance of the argument class as the body element of a '
                                    'bare method is rejected by the schema hook (%s)' % (proto, r.fault), dict(replay, request=data.decode('utf-8', 'replace')))
                        continue
                    if r.fault or r.crash:
                        ctx.hit('emit:request-not-served:%s' % (r.fault or r.crash))
                        continue
                    resp_body = body_el(proto, r.out)
                    want_root = '{%s}%sResponse' % (u['tns'], mname)
                    if resp_body is not None and resp_body.tag != want_root:
                        # theorem bare_response_root_declared / fact bareRootIsSubName, on this response
                        ctx.finding('emitted-invalid:bare-response-root-element',
                                    'the %s response of the %s method %s is the element %s; the schema declares %s for it' % (
                                        proto, m['style'], mname, resp_body.tag, want_root),
                                    dict(replay, response=(r.out or b'').decode('utf-8', 'replace')))
                        continue
                    if resp_body is None or not vschema.validate(resp_body):
                        fid = 'emitted-invalid:response:%s' % invalid_reason(vschema, resp_body)
                        if not m['rets'] and resp_body is not None and resp_body.get(XSI_NIL_ATTR) is not None:
                            fid = 'emitted-invalid:bare-empty-response-nil'
                        ctx.finding(fid, 'the %s response spyne emits for a bare method is invalid against its own schema (%s)' % (
                                        proto, last_error(vschema, resp_body)), dict(replay, response=(r.out or b'').decode('utf-8', 'replace')))
                        continue
                    if proto == 'xml':
                        stream_t3(ctx, app, r, vschema, replay, resp_body.tag)
                        nd = xb.node_of(body_el(proto, data, app.in_protocol))
                        cand = [(nd, 'emitted')] + [x for x in (mutate(rng, b, in_ty, nd) for _ in range(3)) if x is not None]
                        for d2, tag in cand:
                            parsed = xb.parse_like_spyne(xb.to_bytes(d2), app.in_protocol)
                            if parsed is None:
                                continue
                            seen = xb.node_of(parsed)
                            docs.append(seen)
                            impls.append({'lxml': bool(vschema.validate(parsed)), 'tag': tag, 'indom': doc_in_domain(b, in_ty, seen, {})})
                            ctx.hit('doc-bare:%s' % tag.split(':')[0].split('+')[0])
                        if m['rets'] and m['rets'][0]['k'] == 'prim':
                            # T2: the response element typed by a built-in, against the reference validator
                            rn = xb.node_of(resp_body)
                            docs.append(rn)
                            impls.append({'lxml': True, 'tag': 'response', 'indom': doc_in_domain(b, out_ty, rn, {})})
            if docs:
                ask(dict(op='valid', docs=docs, **A), impls, 'validM', {'universe': u, 'method': mname, 'docs': docs})
    # ---------------------------------------------------------------- gallery of hand-built declarations (T3)
    part_gallery(ctx, rng)
    # ---------------------------------------------------------------- compare with the model
    answers = model_parallel(ctx, Q)
    wf_of, same_of = {}, {}
    for q, (op, impl, case), mod in zip(Q, E, answers):
        if op == 'gen' and 'schema' in mod:
            wf_of[case['universe']['idx']] = mod['wf']
            same_of[case['universe']['idx']] = mod['sameNs']
    for q, (op, impl, case), mod in zip(Q, E, answers):
        if 'driver_error' in mod:
            raise core.Infra('driver error: %r' % (mod,))
        if op == 'lex':
            if mod != impl:
                ctx.disagree('lex:' + case['type'], case, impl, mod)
        elif op == 'conformsX':
            if mod != impl:
                ctx.disagree('conformsX', case, impl, mod)
        elif op == 'gen':
            canon, ok = impl
            d = schema_diff(canon, canon_model_schema(mod['schema']))
            if d:
                ctx.disagree('gen', {'universe': case['universe'], 'first_differences': d[:4]}, 'real schema', 'model schema')
            d = set_diff(canon, mod['set'])
            if d:
                ctx.disagree('gen-documents', {'universe': case['universe'], 'first_differences': d[:4]}, 'real schema', 'model schema')
            if mod['compiles'] != ok:
                ctx.disagree('compiles', {'universe': case['universe']}, ok, mod['compiles'])
            ctx.hit('schema-documents:%d' % min(len(mod['set']['docs']), 4))
            if any(dk[0] != dk[1][0] for dk in ((q[0], q[1]) for q in mod['set']['qnames'])):
                ctx.hit('qname:cross-namespace')
            if any(len(i) > 1 for _, i in mod['set']['docs']):
                ctx.hit('imports:several-in-one-document')
            ctx.hit('chains-same-ns:%s' % mod['sameNs'])
            if mod['wf'] and not (mod['set']['prefixesOk'] and mod['set']['importsHaveDocs']):
                # theorems documents_and_imports / no_dangling_qname evaluated on this universe
                ctx.disagree('wf-implies-documents', {'universe': case['universe']}, True,
                             [mod['set']['prefixesOk'], mod['set']['importsHaveDocs']])
            ctx.hit('universe-wf:%s' % mod['wf'])
            if f6['bareRootIsSubName'] and any(not r[1] for r in mod.get('roots', [])):
                ctx.disagree('bare-root-declared', {'universe': case['universe']}, True, mod['roots'])
            if mod['wf'] and mod['methodsOk'] and not (ok and mod['compiles'] and mod['resolvesOk']):
                # theorems gen_compiles / closed_of_wf evaluated on this universe
                ctx.disagree('wf-implies-compiles', {'universe': case['universe']}, ok, [mod['compiles'], mod['resolvesOk']])
            if ok and not mod['wf'] and 'label' not in case:
                ctx.hit('universe-outside-wf')
        elif op == 'defaultLit':
            if mod != impl:
                ctx.disagree('default-literal', case, impl, mod)
        elif op == 'validM':
            for doc, im, mo in zip(case['docs'], impl, mod['ok']):
                if im['indom']:
                    if mo != im['lxml']:
                        ctx.disagree('valid-bare', {'kind': 'doc-bare', 'universe': case['universe'], 'method': case['method'], 'doc': doc,
                                                    'tag': im['tag'], 'observed': im, 'model': mo}, im['lxml'], mo)
                else:
                    ctx.hit('doc-outside-lexical-domain')
        elif op == 'genA':
            canon, ok = impl
            if canon is None:
                if mod['compiles']:
                    ctx.disagree('compilesA', {'x': True, 'universe': case['universe']}, ok, mod['compiles'])
                continue
            cm = canon_model_schema_x(mod['schema'])
            # spyne also imports, for a plain-typed XmlAttribute, whatever namespace the modifier class carried at that
            # moment (XmlModifier.resolve_namespace overwrites it with each caller's default namespace): the application's
            # or a class's. Harmless (the namespace has a document, nothing refers to it) and order dependent: not
            # modelled. The real documents must carry the model's imports, and beyond them only imports of that kind.
            extra = canon['imports'] - cm['imports']
            docs_ns = set(k[0] for kind in ('simple', 'complex', 'elements') for k in canon[kind]) | {case['universe']['tns']}
            plain_attr_ns = set(c['ns'] for c in case['universe']['classes'] for _, t in c['own']
                                if t.get('mk') == 'attribute' and xb.prim_is_default(t['p']) and t['p']['t'] != 'enum')
            if all(a in plain_attr_ns and n in docs_ns for a, n in extra):
                if extra:
                    ctx.hit('imports:modifier-namespace-import')
                canon = dict(canon, imports=canon['imports'] - extra)
            d = schema_diff(canon, cm)
            if d:
                ctx.disagree('genA', {'x': True, 'universe': case['universe'], 'first_differences': d[:4]}, 'real schema', 'model schema')
            if mod['compiles'] != ok:
                ctx.disagree('compilesA', {'x': True, 'universe': case['universe']}, ok, mod['compiles'])
            ctx.hit('kinds-universe-wf:%s' % mod['wfA'])
            if mod['wfA'] and not (ok and mod['compiles']):
                # theorem genA_compiles evaluated on this universe
                ctx.disagree('wfA-implies-compiles', {'x': True, 'universe': case['universe']}, ok, mod['compiles'])
        elif op == 'validA':
            for doc, im, mo in zip(case['docs'], impl, mod['ok']):
                rep = {'kind': 'doc', 'x': True, 'universe': case['universe'], 'method': case['method'], 'doc': doc, 'tag': im['tag'],
                       'observed': im, 'model': mo}
                if im['indom']:
                    if mo != im['lxml']:
                        ctx.disagree('validA', rep, im['lxml'], mo)
                else:
                    ctx.hit('doc-outside-lexical-domain')
        elif op == 'verdicts':
            for doc, im, mo in zip(case['docs'], impl, mod['ok']):
                rep = {'kind': 'doc', 'universe': case['universe'], 'method': case['method'], 'doc': doc, 'tag': im['tag'],
                       'observed': im, 'model': mo}
                if im['indom']:
                    # T2: reference validator == libxml2
                    if mo['valid'] != im['lxml']:
                        ctx.disagree('valid', rep, im['lxml'], mo['valid'])
                    # the generated schema validates exactly what the class denotes (theorem validElem_gen, on wf universes)
                    if wf_of.get(case['universe']['idx']) and mo['denote'] != mo['valid']:
                        ctx.disagree('valid-vs-denote', rep, mo['valid'], mo['denote'])
                    # T2: the soft decoder model (build-XML's) == the real soft validator, verdict only
                    # (it has no `values` on non-string primitives: universes that declare them are compared on the
                    # real code, see 'values:*')
                    msoft = mo['soft'].split(':')[0]
                    if not im['values'] and msoft != im['soft']:
                        ctx.disagree('soft', rep, im['soft'], mo['soft'])
                else:
                    ctx.hit('doc-outside-lexical-domain')
                # T3: on the common form the two validators of the real code reach the same verdict
                if mo['commonGood'] and im['indom'] and not im['values'] and wf_of.get(case['universe']['idx']) and same_of.get(case['universe']['idx']):
                    ctx.hit('common-form:%s' % ('accept' if im['lxml'] else 'reject'))
                    ctx.cov['common_form_docs'] = ctx.cov.get('common_form_docs', 0) + 1
                    if im['lxml'] != (im['soft'] == 'ok'):
                        ctx.finding('verdicts-differ:%s' % im['tag'].split(':')[0],
                                    'schema validation %s but soft validation %s a document that uses only declared members in '
                                    'declared order (%s)' % ('accepts' if im['lxml'] else 'rejects',
                                                             'accepts' if im['soft'] == 'ok' else 'rejects', im['tag']), rep)
                else:
                    ctx.hit('one-sided:%s' % im['tag'].split(':')[0].split('+')[0])
    ctx.cov['rule'] = ('type universes (1-5 classes, inheritance incl. across namespaces, nested objects, wrapped arrays incl. of '
                       'customised primitives and enums, repeated members, facets on every primitive) are generated, built into '
                       'real spyne classes and introspected back; per method: conformant argument/return values (boundary-biased) '
                       'are serialised by the real client and server code under XmlDocument/Soap11/Soap12 x polymorphic on/off and '
                       'validated by the real lxml hook; request bodies are then mutated structure-aware (facet boundary '
                       'neighbours, lexical variants, nil, drop/dup/swap/unknown/namespace) and the verdicts of lxml, soft '
                       'validation and the Lean reference validator compared; a document is non-trivial when it has >= 2 leaves')


def _make_app(b, proto, validator, poly):
    from spyne import Application
    from spyne.server import ServerBase
    xb._APP_COUNTER[0] += 1
    app = Application([b.service], b.u['tns'], name='App%d' % xb._APP_COUNTER[0],
                      in_protocol=xb.make_protocol(proto, validator, poly),
                      out_protocol=xb.make_protocol(proto, None, poly))
    return app, ServerBase(app)


def real_schema_canon(app):
    sch, docs = real_schema(app)
    return canon_real_schema(docs, app.interface.nsmap)


def unresolved_xsi_types(el):
    """xsi:type attributes whose prefix has no namespace declaration in scope (D33)"""
    out = []
    for e in el.iter():
        v = e.get(XSI_TYPE) if isinstance(e.tag, str) else None
        if v is not None:
            pref = v.split(':', 1)[0] if ':' in v else None
            if e.nsmap.get(pref) is None:
                out.append((e, pref))
    return out


def declare_prefixes(el, app):
    """what the document would be with the missing prefix declarations (to look past D33): rebuilt with the
    interface's prefix map declared on the root"""
    from lxml import etree
    nsmap = dict((k, v) for k, v in app.interface.nsmap.items() if k)
    root = etree.Element(el.tag, nsmap=nsmap)
    root.text = el.text
    for k, v in el.attrib.items():
        root.set(k, v)
    for c in el:
        root.append(copy.deepcopy(c))
    return etree.fromstring(etree.tostring(root))


def last_error(vschema, el):
    if el is None:
        return 'no body element'
    vschema.validate(el)
    e = vschema.error_log.last_error
    return str(e.message)[:200] if e is not None else ''


def invalid_reason(vschema, el):
    """coarse class of a validation error (finding ids must not depend on names / values)"""
    msg = last_error(vschema, el)
    for pat, name in (('is not a valid value of the atomic type', 'literal'), ('facet', 'facet'), ('not expected', 'structure'),
                      ('Missing child', 'missing'), ("not 'nillable'", 'nil'), ('xsi:type', 'xsi-type'),
                      ('No matching global declaration', 'root'), ('attribute', 'attribute')):
        if pat in msg:
            return name
    return 'other'


def replay(ctx, obj):
    """re-execute one recorded case on the implementation (and, for documents, on the model)"""
    import warnings
    kind = obj.get('kind')
    print('replay of', obj.get('what') or obj.get('finding_id'))
    if kind == 'fact':
        f = measure_facts06()
        print('measured now:', obj['fact'], '=', f.get(obj['fact']), ' expected', obj.get('expected'))
        return 0 if f.get(obj['fact']) == obj.get('expected') else 1
    if kind == 'gallery':
        case = [c for c in gallery_cases() if c[0] == obj['name']][0]
        with warnings.catch_warnings():
            warnings.simplefilter('ignore')
            res = gallery_run(case[0], case[1], case[2], obj['i'], obj['proto'])
        bad = 0
        for stage, ok, detail, doc in res:
            print('%-18s %s %s' % (stage, {True: 'ok', False: 'FAIL', None: 'n/a'}[ok], detail))
            if doc and ok is not True:
                print('    ', doc[:1500])
            bad += ok is False
        return 1 if bad else 0
    u = obj.get('universe')
    if u is None:
        print(json.dumps(obj, indent=1)[:2000])
        return 0
    with warnings.catch_warnings():
        warnings.simplefilter('ignore')
        b = build_classes_x(u) if obj.get('x') else build_classes(u)
        app0, _ = xb.make_app(b, 'xml', None)
        xb.finish_built(b, app0)
    ok, vs = compile_real(app0)
    print('schema compiles:', ok, '' if ok else vs)
    if kind == 'compile' or not ok:
        return 0 if ok else 1
    if kind == 'emit':
        proto, poly, mname = obj['proto'], obj['polymorphic'], obj['method']
        app, server = _make_app(b, proto, 'lxml', poly)
        key, in_ty, out_ty = b.methods[mname]
        nat = [xb.to_native(b, t, v) for (_, t), v in zip(in_ty['fields'], obj['args'])]
        xb.set_return(b, mname, out_ty, obj['rets'])
        data = emit_request(app, key, nat)
        print('request :', data.decode('utf-8', 'replace'))
        r = xb.run_request(b, server, data)
        print('server  : fault=%s crash=%s' % (r.fault, r.crash))
        print('response:', (r.out or b'').decode('utf-8', 'replace'))
        vschema = app.in_protocol.validation_schema
        rb = body_el(proto, r.out) if r.out and not r.fault else None
        okr = rb is not None and bool(vschema.validate(rb))
        print('response valid against spyne\'s schema:', okr, '' if okr else last_error(vschema, rb))
        return 0 if (okr and not r.fault) else 1
    if kind == 'emit-bare':
        proto, mname = obj['proto'], obj['method']
        app, server = _make_app(b, proto, 'lxml', False)
        key, in_ty, out_ty = b.methods[mname]
        b.ret[mname] = xb.to_native(b, out_ty, obj['ret']) if obj.get('ret') is not None else None
        data = xb.to_bytes(xb.wrap_envelope(proto, [xb.ref_encode_one(b, in_ty, obj['arg'], u['tns'], mname, u['tns'])]))
        print('request :', data.decode('utf-8', 'replace'))
        r = xb.run_request(b, server, data)
        print('server  : fault=%s crash=%s' % (r.fault, r.crash))
        print('response:', (r.out or b'').decode('utf-8', 'replace'))
        vschema = app.in_protocol.validation_schema
        rb = body_el(proto, r.out) if r.out and not r.fault else None
        okr = rb is not None and bool(vschema.validate(rb))
        print('response valid against spyne\'s schema:', okr, '' if okr else last_error(vschema, rb))
        return 0 if (okr and not r.fault) else 1
    if kind == 'doc-bare':
        mname = obj['method']
        app_l, server_l = _make_app(b, 'xml', 'lxml', False)
        data = xb.to_bytes(obj['doc'])
        print('document:', data.decode('utf-8', 'replace'))
        parsed = xb.parse_like_spyne(data, app_l.in_protocol)
        vs_ = app_l.in_protocol.validation_schema
        lx = bool(vs_.validate(parsed))
        print('lxml verdict:', lx, '' if lx else last_error(vs_, parsed))
        print('model       :', ctx.model([dict(op='valid', docs=[xb.node_of(parsed)], methods=methods_table(app0), **app_json(b, app0))])[0])
        return 0
    if kind == 'doc':
        mname = obj['method']
        key, in_ty, out_ty = b.methods[mname]
        app_l, server_l = _make_app(b, 'xml', 'lxml', False)
        app_s, server_s = _make_app(b, 'xml', 'soft', False)
        b.ret[mname] = None if len(out_ty['fields']) <= 1 else tuple(None for _ in out_ty['fields'])
        data = xb.to_bytes(obj['doc'])
        print('document:', data.decode('utf-8', 'replace'))
        parsed = xb.parse_like_spyne(data, app_l.in_protocol)
        lx = bool(app_l.in_protocol.validation_schema.validate(parsed))
        if obj.get('x'):
            print('lxml verdict:', lx, '' if lx else last_error(app_l.in_protocol.validation_schema, parsed))
            print('model       :', ctx.model([dict(op='validA', docs=[xb.node_of(parsed)], **app_json_x(b, app0))])[0])
            return 0
        rs = xb.run_request(b, server_s, data)
        print('lxml verdict:', lx, ' soft verdict:', soft_outcome(rs))
        mod = ctx.model([dict(op='verdicts', ty=in_ty, docs=[xb.node_of(parsed)], **app_json(b, app0))])[0]
        print('model       :', mod)
        return 0
    return 0
