"""C18 — calling a method through NullServer behaves like calling it over the wire.

T1: decisions of the anchored code measured on the real code -> SpyneModel/Generated/Facts18.lean
Proof: Props/C18.lean (instantiated with the regenerated facts)
T2: model-vs-implementation on (a) the decorator's body-style table, (b) NullServer calls (arguments
    received by the user function + value returned/raised), (c) the three wire paths
T3: the property itself on the real code: NullServer vs. XmlDocument / Soap11 / JsonDocument wire paths,
    keyword vs. positional invocation, Ignored direct vs. wire.

The wire path drives the real Application / ServerBase / protocol objects: a transport-less ServerBase
subclass runs the generic transport skeleton (generate_contexts, get_in_object, get_out_object,
get_out_string) on request bytes; the reference client builds the request and decodes the reply with the
real protocol's value (de)serialisers and knows only the envelope conventions.
"""
import json
import logging
import types

from . import core

FIELDS = {'P': [('a', 'int'), ('b', 'str')], 'Q': [('x', 'str'), ('n', 'int'), ('p', 'P'), ('f', 'bool')],
          'Ack': []}     # Ack: a ComplexModel WITHOUT members (a plain acknowledgement object)
TNS = 'c18.tns'
SOAP_ENV = 'http://schemas.xmlsoap.org/soap/envelope/'
PROTOS = ('xml', 'soap', 'json')
# legal configurations of the same protocols (wire side); the part before '-' names the protocol whose model applies
VARIANTS = ('json-list', 'xml-pretty', 'soap-pretty', 'json-polymorphic')


def base_of(proto):
    return proto.split('-')[0]


# ------------------------------------------------------------------------------------ the real code
class Env(object):
    """lazily imported spyne objects + the type universe"""

    def __init__(self):
        logging.getLogger('spyne').setLevel(logging.CRITICAL + 1)
        logging.disable(logging.CRITICAL)
        import spyne
        import spyne.const
        # MethodContext.close() runs a full gc.collect() at most every MIN_GC_INTERVAL seconds; with the
        # harness's growing heap that dominates long runs (cf. test_null_server.py::test_no_gc_collect)
        spyne.const.MIN_GC_INTERVAL = float('inf')
        from spyne import Application, Service, srpc, rpc, mrpc, Ignored, Fault, MethodContext
        from spyne.model.primitive import Unicode, Integer, Boolean
        from spyne.model.complex import ComplexModel, ComplexModelBase, Array, Iterable
        from spyne.protocol.xml import XmlDocument
        from spyne.protocol.soap import Soap11
        from spyne.protocol.json import JsonDocument
        from spyne.server.null import NullServer
        from spyne.server import ServerBase
        from spyne.server.wsgi import WsgiApplication
        from spyne.client import RemoteProcedureBase
        from spyne.auxproc import process_contexts
        from spyne.auxproc.sync import SyncAuxProc
        from lxml import etree
        self.__dict__.update(locals())
        self.proto_cls = {'xml': XmlDocument, 'soap': Soap11, 'json': JsonDocument,
                          'json-list': lambda: JsonDocument(complex_as=list),
                          'json-polymorphic': lambda: JsonDocument(polymorphic=True),
                          'xml-pretty': lambda: XmlDocument(pretty_print=True, cleanup_namespaces=False),
                          'soap-pretty': lambda: Soap11(pretty_print=True, cleanup_namespaces=False)}

        class P(ComplexModel):
            __namespace__ = TNS
            _type_info = [('a', Integer), ('b', Unicode)]

        class Q(ComplexModel):
            __namespace__ = TNS
            _type_info = [('x', Unicode), ('n', Integer), ('p', P), ('f', Boolean)]

        class Ack(ComplexModel):
            __namespace__ = TNS

        self.P, self.Q, self.Ack = P, Q, Ack
        self.classes = {'P': P, 'Q': Q, 'Ack': Ack}       # canonical class name -> class (member classes are added)
        self.types = {'int': Integer, 'str': Unicode, 'bool': Boolean, 'P': P, 'Q': Q, 'Ack': Ack,
                      'arr': Array(Integer), 'iter': Iterable(Integer)}
        self.fields = {'P': [('a', 'int'), ('b', 'str')], 'Q': [('x', 'str'), ('n', 'int'), ('p', 'P'), ('f', 'bool')]}

        class MemServer(ServerBase):
            """the generic transport skeleton (cf. server/zeromq.py, server/wsgi.py handle_rpc) without a transport"""
            transport = 'noconn://c18.mem'

            def call(self, in_string):
                initial = MethodContext(self, MethodContext.SERVER)
                initial.in_string = [in_string]
                initial.transport.type = self.transport
                contexts = self.generate_contexts(initial)
                p_ctx = contexts[0]
                if not p_ctx.in_error:
                    self.get_in_object(p_ctx)
                    if not p_ctx.in_error:
                        self.get_out_object(p_ctx)
                try:
                    self.get_out_string(p_ctx)
                except Exception as e:          # what every transport does with a serialiser failure
                    p_ctx.out_error = Fault('Server', 'Internal Error')
                    p_ctx.out_document = None
                    p_ctx.out_string = None
                    self.get_out_string(p_ctx)
                out = b''.join(p_ctx.out_string)
                # what a transport signals out of band (HTTP: a 4xx/5xx status): the reply is a fault
                self.last_is_error = p_ctx.out_error is not None
                try:        # wsgi.py: handle_error / handle_rpc -- "report but ignore any exceptions from auxiliary methods"
                    process_contexts(self, contexts[1:], p_ctx, error=p_ctx.in_error or p_ctx.out_error)
                except Exception:
                    pass
                try:
                    p_ctx.close()
                except Exception:
                    pass
                return out

        self.MemServer = MemServer


_ENV = None


def env():
    global _ENV
    if _ENV is None:
        _ENV = Env()
    return _ENV


# ------------------------------------------------------------------------------------ canonical values
def canon_wire(v, E=None):
    """canonical form of a value decoded by the wire client: a lazily decoded Iterable is its items"""
    c = canon_val(v, E)
    return {'l': c['g']} if isinstance(c, dict) and 'g' in c else c


def canon_val(v, E=None):
    E = E or env()
    if v is None:
        return None
    if isinstance(v, bool):
        return {'b': v}
    if isinstance(v, int):
        return {'i': str(v)}
    if isinstance(v, str):
        return {'s': v}
    if isinstance(v, bytes):
        return {'s': v.decode('utf8', 'replace')}
    if isinstance(v, E.Ignored):
        return {'ig': canon_val(v.args[0] if v.args else None, E)}
    if isinstance(v, types.GeneratorType):
        return {'g': [canon_val(x, E) for x in v]}
    if isinstance(v, (list, tuple)):
        return {'l': [canon_val(x, E) for x in v]}
    if isinstance(v, E.ComplexModel):
        cls = type(v)
        name = cls.get_type_name()
        return {'o': [name, [[k, canon_val(getattr(v, k, None), E)] for k in cls.get_flat_type_info(cls).keys()]]}
    try:
        return {'l': [canon_val(x, E) for x in v]}      # other iterables (itertools.chain of a generator …)
    except TypeError:
        return {'?': type(v).__name__}


def native(c, E=None):
    """canonical value -> native Python value (fresh objects every time)"""
    E = E or env()
    if c is None:
        return None
    if 'i' in c:
        return int(c['i'])
    if 's' in c:
        return c['s']
    if 'b' in c:
        return c['b']
    if 'l' in c:
        return [native(x, E) for x in c['l']]
    if 'o' in c:
        cls = E.classes[c['o'][0]]
        return cls(**{k: native(x, E) for k, x in c['o'][1]})
    raise ValueError(c)


def wire_view(sig, res, cfg=None):
    """the wire client's view of what NullServer handed to the direct caller (model: `wireViewP`); `cfg` is the
    measured configuration of the protocol (fact `bareNone`: a missing member-less object arrives as an empty one)"""
    if 'ok' in res:
        v = res['ok']
        if isinstance(v, dict) and 'ig' in v:
            n = out_len(sig)
            v = {'l': [None] * n} if (sig['style'] == 'wrapped' and n >= 2) else None
        elif isinstance(v, dict) and 'g' in v:
            v = {'l': v['g']}
        r = sig['returns']
        if v is None and cfg and cfg.get('bareNone') == 'emptyInstance' and sig['style'] != 'wrapped' \
                and r and isinstance(r.get('one'), list) and r['one'][1] == []:
            v = {'o': [r['one'][0], []]}
        return {'ok': v}
    return res


def ret_one(t):
    """the `returns` entry of a signature that declares the single return type `t`"""
    if t in FIELDS:
        return {'one': [t, [k for k, _ in FIELDS[t]]]}
    if t in ('arr', 'iter'):
        return {'one': 'array'}
    return {'one': None}


def out_len(sig):
    r = sig['returns']
    if r is None:
        return 0
    if 'many' in r:
        return r['many']
    return 1


def no_return(sig):
    r = sig['returns']
    if sig['style'] == 'wrapped':
        return r is None or r.get('many') == 0
    return r is None


# ------------------------------------------------------------------------------------ scripted user functions
class Raised(Exception):
    pass


def run_script(E, script, recv):
    k = script['k']
    if k == 'const':
        v = native(script['v'], E)
        return tuple(v) if script.get('tuple') else v
    if k == 'ignored':
        return E.Ignored(native(script['v'], E))
    if k == 'gen':
        items = [native(x, E) for x in script['v']]
        return (x for x in items)
    if k == 'fault':
        d = script.get('detail')
        raise E.Fault(script['code'], script.get('string') or 'scripted fault', script.get('actor') or '',
                      None if d is None else {kk: native(vv, E) for kk, vv in d['o'][1]})
    if k == 'error':
        raise {'ValueError': ValueError, 'KeyError': KeyError, 'Raised': Raised}[script.get('cls', 'ValueError')]('scripted')
    if k == 'pick':
        vs = [recv[i] for i in script['idx']]
        return tuple(vs) if script.get('many') else vs[0]
    if k == 'field':
        return getattr(recv[0], script['f'])
    raise ValueError(k)


class Program(object):
    """one generated signature + scripted body, decorated by the real @srpc/@rpc, published by real Applications"""

    def __init__(self, E, spec):
        self.E, self.spec = E, spec
        self.sig, self.script = spec['sig'], spec['script']
        self.name = spec.get('name', 'meth')
        self.opts = spec.get('opts') or {}
        self.member = spec['sig'].get('member')
        # the public name of the method: what a request is dispatched on (in-message name)
        self.pub = self.opts.get('in_msg') or self.opts.get('op_name') or self.name
        if self.member:
            self.pub = '%s.%s' % (self.member['cls'], self.pub)
        self.recv = None
        self.aux_recv = []          # [(index of the auxiliary method, canonical received arguments)] in call order
        self.decor_error = None
        self.apps, self.servers, self.clients = {}, {}, {}
        self.null = None
        self.held = None            # a kept `_FunctionCall` object: f = server.service.<name>
        self.ostr = {}              # protocol -> NullServer(app, ostr=True)
        self.wsgis = {}             # protocol -> WsgiApplication
        self.member_cls = None
        self.aux_svcs = []
        try:
            self.svc = self._service()
            self.desc = self.member_cls.Attributes.methods[self.name] if self.member else self.svc.public_methods[self.name]
            self.aux_svcs = [self._service(i, a) for i, a in enumerate(spec.get('auxs') or [])]
        except Exception as e:
            self.decor_error = type(e).__name__

    def services(self):
        return [self.svc] + self.aux_svcs

    def _service(self, aux_index=None, aux=None):
        """the service class of the primary method, or of its `aux_index`-th auxiliary companion: same public name
        and arguments, own return declaration and body, `__aux__ = SyncAuxProc()`"""
        E = self.E
        sig = self.sig if aux is None else aux['sig']
        script = self.script if aux is None else aux['script']
        opts = self.opts if aux is None else {k: v for k, v in self.opts.items() if k in ('in_msg', 'op_name', 'arg_names', 'args')}
        member = self.member if aux is None else None
        params = list(sig['params'])
        if member:
            from spyne.model.complex import SelfReference
            # a parameter of the method's own class is spelled SelfReference
            ptypes = [SelfReference if t == member['cls'] else E.types[t] for t in self.spec['ptypes'][1:]]
        else:
            ptypes = [E.types[t] for t in self.spec['ptypes']]
        if member:
            params = params[1:]                             # `self` is implicit
        kp = {}
        r = self.spec['rtypes'] if aux is None else aux['rtypes']
        if sig['returns'] is not None:
            if member and list(r) == [member['cls']]:
                from spyne.model.complex import SelfReference
                kp['_returns'] = SelfReference              # "my own class", resolved by the decorator
            else:
                kp['_returns'] = [E.types[t] for t in r] if 'many' in sig['returns'] else E.types[r[0]]
        spelling = opts.get('style_spelling')
        if spelling:                                        # e.g. ('wrapped', 'rpc') is another way to say bare
            if spelling[0] is not None:
                kp['_body_style'] = spelling[0]
            if spelling[1] is not None:
                kp['_soap_body_style'] = spelling[1]
        elif sig['style'] != 'wrapped' or self.spec.get('explicit_style'):
            kp['_body_style'] = sig['style']
        # the names in the code differ from the public ones
        code = list(params)
        if opts.get('arg_names'):
            code = ['c_' + p for p in params]
            kp['_in_variable_names' if opts['arg_names'] == 'variable' else '_in_arg_names'] = dict(zip(code, params))
        if opts.get('out_names') and aux is None and sig['style'] == 'wrapped' and sig['returns'] is not None:
            if 'many' in sig['returns']:
                kp['_out_variable_names'] = ['out%d_%s' % (i, self.name) for i in range(sig['returns']['many'])]
            else:
                kp['_out_variable_name'] = 'the_result'
        if opts.get('op_name'):
            kp['_operation_name'] = opts['op_name']
        if opts.get('in_msg'):
            kp['_in_message_name'] = opts['in_msg']
        if opts.get('out_msg') and aux is None:
            kp['_out_message_name'] = opts['out_msg']
        if opts.get('part') and aux is None:
            kp['_wsdl_part_name'] = 'parameters'
        for k in opts.get('inert', []) if aux is None else []:
            kp[k] = {'_throws': [E.Fault], '_faults': [E.Fault], '_udd': {'k': 1}, '_udp': {'k': 1}, '_logged': False,
                     '_port_type': None, '_translations': {'en_US': 'x'}, '_href': None, '_internal_key_suffix': '_x'}[k]
        if member and member.get('default_on_null'):
            kp['_default_on_null'] = True
        if member and member.get('when') is not None:
            verdict = bool(member['when'])
            kp['_when'] = lambda inst, ctx: verdict
        if member and member.get('svc_class'):
            # the call goes through a Service's call_wrapper (event handlers of that service apply)
            kp[member['svc_class']] = type('MemberSvc_' + self.name, (E.Service,), {})
        for k in (opts.get('evmgr') or []) if aux is None else []:
            from spyne import EventManager
            kp[k] = [EventManager(None)] if k.endswith('s') else EventManager(None)
        prog = self
        with_ctx = self.spec.get('with_ctx', False)
        head = (['self'] if member else []) + (['ctx'] if with_ctx else [])
        if opts.get('args'):
            kp['_args'] = list(code)                        # argument names are given, not introspected
            src = 'def %s(%s):\n    return _body(%s_a)\n' % (self.name, ', '.join(head + ['*_a']), '(self,) + ' if member else '')
        else:
            src = 'def %s(%s):\n    return _body((%s))\n' % (
                self.name, ', '.join(head + code), ''.join(p + ', ' for p in (['self'] if member else []) + code))

        def _body(recv):
            if aux is None:
                prog.recv = [canon_val(x, E) for x in recv]
            else:
                prog.aux_recv.append((aux_index, [canon_val(x, E) for x in recv]))
            return run_script(E, script, recv)
        glob = {'_body': _body}
        exec(src, glob)
        fn = glob[self.name]
        if member:
            kp['_no_ctx'] = not with_ctx
            cls = type(member['cls'], (E.ComplexModel,), {
                '__namespace__': TNS, '_type_info': [(f, E.types[t]) for f, t in member['ftypes']],
                self.name: E.mrpc(*ptypes, **kp)(fn)})
            E.classes[member['cls']] = cls
            E.types[member['cls']] = cls
            self.member_cls = cls
            # a member method is published when its class appears in a service
            return type('Svc_' + self.name, (E.Service,), {'get_' + self.name: E.srpc(_returns=cls)(lambda: None)})
        deco = (E.rpc if with_ctx else E.srpc)(*ptypes, **kp)
        ns = {self.name: deco(fn)}
        if aux is not None:
            ns['__aux__'] = E.SyncAuxProc()
        if opts.get('base_service') and aux is None:
            # a service base class with an event handler of its own: handlers are inherited, results are not changed
            base = type('Base_' + self.name, (E.Service,), {})
            base.event_manager.add_listener('method_call', lambda ctx: None)
            ns_base = base
        else:
            ns_base = E.Service
        if opts.get('service_name') and aux is None:
            ns['__service_name__'] = 'Named' + self.name
            ns['__service_module__'] = 'c18.generated'
        return type(('Svc_' if aux is None else 'Aux%d_' % aux_index) + self.name, (ns_base if aux is None else E.Service,), ns)

    def aux_canon(self):
        """the arguments each auxiliary function received, by index of the companion"""
        got = dict(self.aux_recv) if len(set(i for i, _ in self.aux_recv)) == len(self.aux_recv) else None
        if got is None:
            return {'dup': [[i, r] for i, r in self.aux_recv]}
        return [{'ok': got[i]} for i in sorted(got)]

    # ---- NullServer
    def null_server(self):
        if self.null is None:
            E = self.E
            if self.opts.get('no_proto'):        # "It's only optional for NullServer transport"
                app = E.Application(self.services(), TNS)
            else:
                app = E.Application(self.services(), TNS, in_protocol=E.XmlDocument(), out_protocol=E.XmlDocument())
            self.null = E.NullServer(app)
        return self.null

    def proxy(self, server):
        """`server.service.<name>`, or `server.service['Class.name']` where the name is not an identifier"""
        if self.member or self.opts.get('by_item') or not self.pub.isidentifier():
            return server.service[self.pub]
        return getattr(server.service, self.pub)

    def call_ostr(self, proto, pos, kw):
        """the string mode: `NullServer(app, ostr=True)` returns the serialised reply; decode it like a wire reply"""
        E = self.E
        self.recv = None
        self.aux_recv = []
        try:
            server, capp = self.wire(proto)
            if proto not in self.ostr:
                self.ostr[proto] = E.NullServer(server.app, ostr=True)
            ret = self.proxy(self.ostr[proto])(*[native(x, E) for x in pos], **{k: native(v, E) for k, v in kw})
            raw = b''.join(ret)
        except E.Fault as e:
            return canon_fault(self.script, e.faultcode, e.faultstring, e.faultactor, e.detail, self.E)
        except Exception as e:
            return {'exc': type(e).__name__}
        return self.parse_response(proto, capp, raw)

    def call_null(self, pos, kw, held=False):
        """one call through NullServer: on a fresh `server.service.<name>` or on the kept function object"""
        E = self.E
        self.recv = None
        self.aux_recv = []
        try:
            if held:
                if self.held is None:
                    self.held = self.proxy(self.null_server())
                f = self.held
            else:
                f = self.proxy(self.null_server())
            r = f(*[native(x, E) for x in pos], **{k: native(v, E) for k, v in kw})
            out = {'ok': canon_val(r, E)}
        except E.Fault as e:
            out = canon_fault(self.script, e.faultcode, e.faultstring, e.faultactor, e.detail, E)
        except Exception as e:
            out = {'exc': type(e).__name__}
        recv = {'ok': self.recv} if self.recv is not None else None
        return recv, out

    # ---- the wire
    def wire(self, proto):
        if proto not in self.servers:
            E = self.E
            P = E.proto_cls[proto]
            sapp = E.Application(self.services(), TNS, in_protocol=P(), out_protocol=P())
            capp = E.Application(self.services(), TNS, in_protocol=P(), out_protocol=P())
            self.servers[proto] = E.MemServer(sapp)
            self.clients[proto] = capp
        return self.servers[proto], self.clients[proto]

    def call_wsgi(self, proto, pos, kw, keep=None):
        """the same call through the real HTTP transport: an in-process WSGI request to WsgiApplication (its own result
        handling: generator peeking, chunked join, Ignored, empty generators, fault status codes)"""
        try:
            return self._call_wsgi(proto, pos, kw, keep)
        except Exception as e:
            return None, {'exc': 'wsgi-setup:' + type(e).__name__}

    def _call_wsgi(self, proto, pos, kw, keep=None):
        from io import BytesIO
        E = self.E
        self.recv = None
        self.aux_recv = []
        server, capp = self.wire(proto)
        if proto not in self.wsgis:
            P = E.proto_cls[proto]
            self.wsgis[proto] = E.WsgiApplication(E.Application(self.services(), TNS, in_protocol=P(), out_protocol=P()))
        try:
            keys, cvals = self.bound_args(pos, kw)
        except TypeError:
            return None, {'exc': 'TypeError'}
        req = self.build_request(proto, capp, keys, [native(x, E) for x in cvals])
        env = {'REQUEST_METHOD': 'POST', 'PATH_INFO': '/', 'QUERY_STRING': '', 'SERVER_NAME': 'c18', 'SERVER_PORT': '80',
               'wsgi.url_scheme': 'http', 'wsgi.input': BytesIO(req), 'CONTENT_LENGTH': str(len(req)),
               'CONTENT_TYPE': 'application/json; charset=utf-8' if base_of(proto) == 'json' else 'text/xml; charset=utf-8'}
        status = []
        try:
            ret = self.wsgis[proto](env, lambda st, hd, exc_info=None: status.append(st))
            raw = b''.join(ret)
            if hasattr(ret, 'close'):
                ret.close()
        except Exception as e:          # an exception that escapes the WSGI application
            return ({'ok': self.recv} if self.recv is not None else None), {'exc': type(e).__name__}
        if keep is not None:
            keep['request'], keep['response'], keep['status'] = req.decode('utf8', 'replace'), raw.decode('utf8', 'replace'), status[:1]
        is_error = not (status and status[0].startswith('2'))
        out = self.parse_response(proto, capp, raw, is_error if base_of(proto) == 'json' else None)
        return ({'ok': self.recv} if self.recv is not None else None), out

    def client_ctx(self, capp):
        E = self.E
        rp = E.RemoteProcedureBase('mem://', capp, self.pub)
        return rp.contexts[0]       # the primary context (auxiliary companions follow it)

    def bound_args(self, pos, kw):
        """Python binding of (*pos, **kw) to the in-message keys (positional first, then keywords)"""
        keys = list(self.desc.in_message._type_info.keys())
        if len(pos) > len(keys):
            raise TypeError('too many positional arguments')
        vals = list(pos) + [None] * (len(keys) - len(pos))
        d = dict(kw)
        for i, k in enumerate(keys):
            if k in d:
                vals[i] = d[k]
        return keys, vals

    def call_wire(self, proto, pos, kw, keep=None):
        try:
            return self._call_wire(proto, pos, kw, keep)
        except Exception as e:
            return None, {'exc': 'wire-setup:' + type(e).__name__}

    def _call_wire(self, proto, pos, kw, keep=None):
        E = self.E
        self.recv = None
        self.aux_recv = []
        server, capp = self.wire(proto)
        try:
            keys, cvals = self.bound_args(pos, kw)
        except TypeError:
            return None, {'exc': 'TypeError'}
        vals = [native(x, E) for x in cvals]
        try:
            req = self.build_request(proto, capp, keys, vals)
        except Exception as e:
            return None, {'exc': 'client-request:' + type(e).__name__}
        try:
            raw = server.call(req)
        except Exception as e:          # an exception that escapes the transport skeleton: the wire path crashed
            if keep is not None:
                keep['request'] = req.decode('utf8', 'replace')
            return ({'ok': self.recv} if self.recv is not None else None), {'exc': type(e).__name__}
        if keep is not None:
            keep['request'], keep['response'] = req.decode('utf8', 'replace'), raw.decode('utf8', 'replace')
        out = self.parse_response(proto, capp, raw, getattr(server, 'last_is_error', None))
        recv = {'ok': self.recv} if self.recv is not None else None
        return recv, out

    def in_types(self):
        return list(self.desc.in_message._type_info.values())

    def build_request(self, proto, capp, keys, vals):
        E = self.E
        etree = E.etree
        in_msg = self.desc.in_message
        variant, proto = proto, base_of(proto)
        if proto == 'json':
            p = capp.out_protocol
            if variant == 'json-list':        # complex_as=list: members by position
                body = [None if v is None else p._to_dict_value(t, v, set()) for t, v in zip(self.in_types(), vals)]
                return json.dumps({self.pub: body}).encode('utf8')
            body = {}
            for k, t, v in zip(keys, self.in_types(), vals):
                if v is not None:
                    body[k] = p._to_dict_value(t, v, set())
            return json.dumps({self.pub: body}).encode('utf8')
        p = capp.out_protocol
        ctx = self.client_ctx(capp)
        root = etree.Element('{%s}%s' % (TNS, self.pub), nsmap={'tns': TNS})
        for k, t, v in zip(keys, self.in_types(), vals):
            if v is not None:
                ns = in_msg.get_namespace() if self.sig['style'] == 'bare' else TNS
                p.to_parent(ctx, t, v, root, ns or TNS, k)
        if proto == 'soap':
            envl = etree.Element('{%s}Envelope' % SOAP_ENV, nsmap={'soap11env': SOAP_ENV, 'tns': TNS})
            etree.SubElement(envl, '{%s}Body' % SOAP_ENV).append(root)
            root = envl
        return etree.tostring(root, xml_declaration=True, encoding='UTF-8')

    def parse_response(self, proto, capp, raw, is_error=None):
        E = self.E
        variant, proto = proto, base_of(proto)
        sig, desc = self.sig, self.desc
        out_msg = desc.out_message
        p = capp.in_protocol
        try:
            ctx = self.client_ctx(capp)
            if proto == 'json':
                doc = json.loads(raw.decode('utf8'))
                if is_error is None:        # no transport signal (string mode): the dict form is self-describing
                    is_error = isinstance(doc, dict) and 'faultcode' in doc and 'faultstring' in doc
                if is_error:
                    if isinstance(doc, (list, tuple)):      # complex_as=list: [faultcode, faultstring, faultactor, detail]
                        doc = list(doc) + [None] * (4 - len(doc))
                        return canon_fault(self.script, doc[0], doc[1], doc[2], doc[3], E)
                    return canon_fault(self.script, doc.get('faultcode'), doc.get('faultstring'), doc.get('faultactor'),
                                       doc.get('detail'), E)
                if sig['style'] == 'wrapped':
                    keys = list(out_msg._type_info.keys())
                    ts = list(out_msg._type_info.values())
                    if len(keys) == 0:
                        return {'ok': None}
                    if len(keys) == 1:
                        v = None if doc is None else p._from_dict_value(ctx, keys[0], ts[0], doc, None)
                        return {'ok': canon_wire(v, E)}
                    inst = p._doc_to_object(ctx, out_msg, doc)
                    return {'ok': {'l': [canon_wire(getattr(inst, k, None), E) for k in keys]}}
                if no_return(sig):
                    return self.nothing(None if doc is None else p._from_dict_value(ctx, self.pub, out_msg, doc, None))
                v = None if doc is None else p._from_dict_value(ctx, self.pub, out_msg, doc, None)
                return {'ok': canon_wire(v, E)}
            root = E.etree.fromstring(raw)
            if proto == 'soap':
                body = root.find('{%s}Body' % SOAP_ENV)
                root = body[0]
            if root.tag == '{%s}Fault' % SOAP_ENV:
                return canon_fault(self.script, root.findtext('faultcode'), root.findtext('faultstring'),
                                   root.findtext('faultactor'), root.find('detail'), E)
            if sig['style'] == 'wrapped':
                keys = list(out_msg._type_info.keys())
                inst = p.from_element(ctx, out_msg, root)
                if len(keys) == 0:
                    return {'ok': None}
                vs = [canon_wire(getattr(inst, k, None), E) for k in keys]
                return {'ok': vs[0] if len(keys) == 1 else {'l': vs}}
            if no_return(sig):
                return self.nothing(p.from_element(ctx, out_msg, root))
            return {'ok': canon_wire(p.from_element(ctx, out_msg, root), E)}
        except Exception as e:
            return {'exc': 'client:' + type(e).__name__}


def _nothing(self, v):
    """nothing is declared to come back: the reply carries the synthesised, member-less response wrapper, as nil or
    as an empty element; both mean None to the caller. Anything else is not 'nothing'."""
    out_msg = self.desc.out_message
    if v is None or (isinstance(v, self.E.ComplexModelBase) and len(out_msg._type_info) == 0
                     and isinstance(v, out_msg.__orig__ or out_msg)) or v == []:
        return {'ok': None}
    return {'exc': 'client:content-where-nothing-is-declared'}


Program.nothing = _nothing


def canon_detail(d, E=None):
    """a fault detail: None, a flat dict of strings (as a dict-document protocol carries it) or the <detail> element of
    the XML family"""
    if d is None or d == '' or d == {}:
        return None
    if isinstance(d, dict):
        return {'o': ['dict', [[str(k), canon_val(v, E)] for k, v in sorted(d.items())]]}
    if hasattr(d, 'tag'):       # lxml element <detail>
        kids = list(d)
        if not kids and not (d.text or '').strip():
            return None
        return {'o': ['dict', [[k.tag, {'s': k.text or ''}] for k in sorted(kids, key=lambda k: k.tag)]]}
    return {'?': repr(d)[:60]}


def canon_fault(script, code, string, actor, detail, E=None):
    """the whole fault as its receiver sees it: code, string, actor, detail. The text of a fault that spyne raised
    itself (Internal Error, RespawnError ...) is not compared: `string` is None unless it is the scripted one."""
    scripted = script.get('string') if script.get('k') == 'fault' else None
    return {'fault': fault_code(code), 'string': string if (scripted is not None and string == scripted) else None,
            'actor': actor or '', 'detail': canon_detail(detail, E)}


def fault_code(code):
    """fault codes are compared without the envelope-namespace prefix the XML family puts in front (D29)"""
    code = str(code or '')
    head, sep, tail = code.partition(':')
    if sep and '.' not in head and head not in ('Client', 'Server'):
        return tail
    return code


# ------------------------------------------------------------------------------------ T1 facts
def measure_facts(E):
    try:
        return _measure_facts(E)
    except Exception as e:
        raise core.Infra('T1 probes crashed: %r' % (e,))


def _safe(fn, default):
    try:
        return fn()
    except Exception as e:
        return default + type(e).__name__


def _measure_facts(E):
    f = {}
    from spyne import descriptor as D
    # is_out_bare over the five body styles (an object with only the attribute the method reads)
    tab = {}
    for nm in ('WRAPPED', 'EMPTY', 'BARE', 'OUT_BARE', 'EMPTY_OUT_BARE'):
        probe = types.SimpleNamespace(body_style=getattr(D, 'BODY_STYLE_' + nm))
        tab[nm] = bool(D.MethodDescriptor.is_out_bare(probe))
    f['isOutBare'] = tab

    def prog(style, params, ptypes, returns, rtypes, script, **kw):
        return Program(E, dict(sig={'style': style, 'params': params, 'bareArg': kw.pop('bareArg', None),
                                    'returns': returns}, ptypes=ptypes, rtypes=rtypes, script=script, name='probe', **kw))
    # kwNoneSkipped: positional value + keyword None
    p = prog('wrapped', ['a'], ['int'], {'one': None}, ['int'], {'k': 'pick', 'idx': [0]})
    _, out = p.call_null([{'i': '7'}], [['a', None]])
    f['kwNoneSkipped'] = {json.dumps({'ok': {'i': '7'}}): True, json.dumps({'ok': None}): False}.get(json.dumps(out), 'other')
    # wrapUpTo: for how many declared return values is the function result wrapped into a list
    def wrap_probe(n):
        seen = {}
        rt = ['int'] * n
        p = prog('wrapped', [], [], ({'many': n} if n != 1 else {'one': None}) if n else None, rt,
                 {'k': 'const', 'v': {'l': [{'i': str(i)} for i in range(max(n, 2))]}, 'tuple': True})
        srv = p.null_server()
        srv.app.event_manager.add_listener('method_return_object', lambda ctx: seen.setdefault('o', ctx.out_object))
        p.call_null([], [])
        o = seen.get('o')
        return isinstance(o, list) and len(o) == 1 and isinstance(o[0], tuple)
    wrapped_upto = -1
    for n in range(0, 4):
        if _safe(lambda: wrap_probe(n), 'exc:') is True:
            wrapped_upto = n
        else:
            break
    f['wrapUpTo'] = wrapped_upto
    # cbOrder: nothing declared, something returned, non-wrapped body styles
    outs = []
    for style, params, ptypes, barearg in (('bare', [], [], None), ('out_bare', ['a'], ['int'], None),
                                           ('bare', ['p'], ['P'], ['P', ['a', 'b']])):
        p = prog(style, params, ptypes, None, [], {'k': 'const', 'v': {'s': 'junk'}}, bareArg=barearg)
        outs.append(p.call_null([], [])[1])
    if all(o == {'ok': None} for o in outs):
        f['cbOrder'] = 'noReturnFirst'
    elif all(o == {'ok': {'s': 'junk'}} for o in outs):
        f['cbOrder'] = 'outBareFirst'
    else:
        f['cbOrder'] = 'other:' + json.dumps(outs)
    # the two tests of null.py `_is_empty_wrapper` (only observable when "nothing declared" is decided first)
    f['ewWrapper'] = f['ewMembers'] = True
    if f['cbOrder'] == 'noReturnFirst':
        ack = {'o': ['Ack', []]}
        outs = []
        for style, params, ptypes in (('out_bare', ['a'], ['int']), ('bare', [], [])):
            p = prog(style, params, ptypes, ret_one('Ack'), ['Ack'], {'k': 'const', 'v': ack})
            outs.append(p.call_null([], [])[1])
        f['ewWrapper'] = True if all(o == {'ok': ack} for o in outs) else \
            (False if all(o == {'ok': None} for o in outs) else 'other:' + json.dumps(outs))
        p = prog('wrapped', [], [], {'one': None}, ['int'], {'k': 'const', 'v': {'i': '5'}})
        o = p.call_null([], [])[1]
        f['ewMembers'] = True if o == {'ok': {'i': '5'}} else (False if o == {'ok': None} else 'other:' + json.dumps(o))
    # auxResult: whose result does NullServer return when an auxiliary method is bound to the same name
    def aux_result():
        w = fact_witness('auxResult')
        p = Program(E, dict(spec_of(w['sig'], w['ptypes'], w['rtypes'], w['script'], 'probe'), auxs=w['auxs']))
        out = p.call_null(w['pos'], w['kw'])[1]
        return 'primaryOnly' if out == {'ok': {'i': '7'}} else ('lastContext' if out == {'ok': {'s': 'aux'}} else 'other:' + json.dumps(out))
    f['auxResult'] = _safe(aux_result, 'other:exc:')

    # slotsPerCall: does a kept `_FunctionCall` object rebuild its argument slots on every call
    def slots_per_call():
        w = fact_witness('slotsPerCall')
        p = Program(E, spec_of(w['sig'], w['ptypes'], w['rtypes'], w['script'], 'probe'))
        got = [p.call_null(pos, kw, held=True)[0] for pos, kw in w['calls']]
        if got[1] == {'ok': [{'s': 'b'}, None, None]}:
            return True
        return False if got[1] == {'ok': [{'s': 'b'}, {'i': '8'}, {'i': '2'}]} else 'other:' + json.dumps(got)
    f['slotsPerCall'] = _safe(slots_per_call, 'other:exc:')
    # ostrIgnored: the string mode with an Ignored result
    def ostr_ignored():
        w = fact_witness('ostrIgnored')
        p = Program(E, spec_of(w['sig'], w['ptypes'], w['rtypes'], w['script'], 'probe'))
        outs = [p.call_ostr(proto, w['pos'], w['kw']) for proto in PROTOS]
        if all(o == {'ok': None} for o in outs):
            return 'dropped'
        return 'serialized' if all(o == {'exc': 'TypeError'} for o in outs) else 'other:' + json.dumps(outs)
    f['ostrIgnored'] = _safe(ostr_ignored, 'other:exc:')
    # ignMany: what get_out_object leaves in ctx.out_object for a lone Ignored with 3 declared return values
    def ign_many():
        p = prog('wrapped', [], [], {'many': 3}, ['int', 'int', 'int'], {'k': 'ignored', 'v': {'i': '1'}})
        server, capp = p.wire('soap')
        ctx = E.MethodContext(server, E.MethodContext.SERVER)
        ctx.method_request_string = '{%s}probe' % TNS
        ctx, = server.app.in_protocol.generate_method_contexts(ctx)
        ctx.in_object = []
        server.get_out_object(ctx)
        o = ctx.out_object
        return 'nones' if (isinstance(o, (list, tuple)) and list(o) == [None] * 3) else \
            ('emptyTuple' if (isinstance(o, (list, tuple)) and len(o) == 0) else 'other:%r' % (o,))
    f['ignMany'] = _safe(ign_many, 'other:exc:')
    # per protocol: bareOut / shortOut / bareIn
    for proto in PROTOS:
        cfg = {}
        p = prog('out_bare', ['a'], ['int'], {'one': None}, ['int'], {'k': 'pick', 'idx': [0]})
        _, out = p.call_wire(proto, [{'i': '5'}], [])
        cfg['bareOut'] = 'first' if out == {'ok': {'i': '5'}} else ('wholeList' if out.get('fault') == 'Server' else 'other:' + json.dumps(out))
        # a function that returns fewer values than declared
        p = prog('wrapped', [], [], {'many': 2}, ['int', 'int'], {'k': 'const', 'v': {'l': [{'i': '1'}]}, 'tuple': True})
        _, out = p.call_wire(proto, [], [])
        cfg['shortOut'] = 'padNone' if out == {'ok': {'l': [{'i': '1'}, None]}} else \
            ('indexError' if out.get('fault') == 'Server' else 'other:' + json.dumps(out))
        p = prog('bare', ['p'], ['P'], {'one': None}, ['int'], {'k': 'field', 'f': 'a'}, bareArg=['P', ['a', 'b']])
        _, out = p.call_wire(proto, [{'i': '5'}, {'s': 'q'}], [])
        if cfg['bareOut'] != 'first':      # the reply is unusable: look at what the function received instead
            got = p.recv
            cfg['bareIn'] = 'methodName' if got == [{'o': ['P', [['a', {'i': '5'}], ['b', {'s': 'q'}]]]}] else \
                ('className' if got == [{'l': []}] else 'other:' + json.dumps(got))
        else:
            cfg['bareIn'] = 'methodName' if out == {'ok': {'i': '5'}} else \
                ('className' if out.get('fault') == 'Server' and p.recv == [{'l': []}] else 'other:' + json.dumps([out, p.recv]))
        p = prog('wrapped', [], [], ret_one('P'), ['P'], {'k': 'const', 'v': None})
        _, out = p.call_wire(proto, [], [])
        cfg['noneSingle'] = 'nil' if out == {'ok': None} else \
            ('emptyObject' if out == {'ok': {'o': ['P', [['a', None], ['b', None]]]}} else 'other:' + json.dumps(out))
        p = prog('out_bare', ['a'], ['int'], ret_one('Ack'), ['Ack'], {'k': 'const', 'v': None})
        _, out = p.call_wire(proto, [{'i': '1'}], [])
        cfg['bareNone'] = 'nil' if out == {'ok': None} else \
            ('emptyInstance' if out == {'ok': {'o': ['Ack', []]}} else 'other:' + json.dumps(out))
        f[proto] = cfg
    return f


GOOD = {'isOutBare': {'WRAPPED': False, 'EMPTY': True, 'BARE': True, 'OUT_BARE': True, 'EMPTY_OUT_BARE': True},
        'wrapUpTo': 1, 'cbOrder': 'noReturnFirst', 'ignMany': 'nones', 'ewWrapper': True, 'ewMembers': True,
        'auxResult': 'primaryOnly', 'slotsPerCall': True, 'ostrIgnored': 'dropped'}
GOOD_PROTO = {'bareOut': 'first', 'bareIn': 'methodName', 'noneSingle': 'nil'}


def facts_lean(f):
    def ctor(x, allowed, default):
        return x if x in allowed else default
    t = f['isOutBare']
    b = lambda x: 'true' if x else 'false'

    def cfg(c):
        return '{ bareOut := .%s, shortOut := .%s, bareIn := .%s, noneSingle := .%s, bareNone := .%s }' % (
            ctor(c['bareOut'], ('first', 'wholeList'), 'wholeList'),
            ctor(c['shortOut'], ('padNone', 'indexError'), 'indexError'),
            ctor(c['bareIn'], ('methodName', 'className'), 'className'),
            ctor(c['noneSingle'], ('nil', 'emptyObject'), 'emptyObject'),
            ctor(c['bareNone'], ('nil', 'emptyInstance'), 'nil'))
    return '''-- GENERATED by harness/c18.py (T1) from /repo on every run. Do not edit.
import SpyneModel.Null
namespace SpyneModel.Generated
open SpyneModel.Null

def facts18 : Facts18 where
  kwNoneSkipped := %s
  isOutBare := fun b => match b with
    | .wrapped => %s | .empty => %s | .bare => %s | .outBare => %s | .emptyOutBare => %s
  wrapUpTo := %d
  cbOrder := .%s
  ewWrapper := %s
  ewMembers := %s
  ignMany := .%s
  auxResult := .%s
  slotsPerCall := %s
  ostrIgnored := .%s
  xml := %s
  soap := %s
  json := %s

end SpyneModel.Generated
''' % (b(f['kwNoneSkipped'] is True), b(t['WRAPPED']), b(t['EMPTY']), b(t['BARE']), b(t['OUT_BARE']), b(t['EMPTY_OUT_BARE']),
       max(f['wrapUpTo'], 0) if f['wrapUpTo'] >= 0 else 99,
       ctor(f['cbOrder'], ('noReturnFirst', 'outBareFirst'), 'outBareFirst'),
       b(f['ewWrapper'] is True), b(f['ewMembers'] is True),
       ctor(f['ignMany'], ('nones', 'emptyTuple'), 'emptyTuple'),
       ctor(f['auxResult'], ('primaryOnly', 'lastContext'), 'lastContext'), b(f['slotsPerCall'] is True),
       ctor(f['ostrIgnored'], ('dropped', 'serialized'), 'serialized'),
       cfg(f['xml']), cfg(f['soap']), cfg(f['json']))


# witnesses: a concrete call on which the property fails when the fact has a bad value
def fact_witness(name, proto=None):
    P = ['P', ['a', 'b']]
    if name == 'cbOrder':
        return dict(sig={'style': 'bare', 'params': [], 'bareArg': None, 'returns': None}, ptypes=[], rtypes=[],
                    script={'k': 'const', 'v': {'s': 'junk'}}, pos=[], kw=[], protos=list(PROTOS))
    if name == 'ignMany':
        return dict(sig={'style': 'wrapped', 'params': ['a'], 'bareArg': None, 'returns': {'many': 2}}, ptypes=['int'],
                    rtypes=['int', 'str'], script={'k': 'ignored', 'v': {'i': '1'}}, pos=[{'i': '1'}], kw=[], protos=list(PROTOS))
    if name == 'bareOut':
        return dict(sig={'style': 'out_bare', 'params': ['a'], 'bareArg': None, 'returns': {'one': None}}, ptypes=['int'],
                    rtypes=['int'], script={'k': 'pick', 'idx': [0]}, pos=[{'i': '5'}], kw=[], protos=[proto])
    if name == 'bareIn':
        return dict(sig={'style': 'bare', 'params': ['p'], 'bareArg': P, 'returns': {'one': None}}, ptypes=['P'],
                    rtypes=['int'], script={'k': 'field', 'f': 'a'}, pos=[{'i': '5'}, {'s': 'q'}], kw=[], protos=[proto])
    if name == 'ostrIgnored':
        return dict(sig={'style': 'wrapped', 'params': ['a'], 'bareArg': None, 'returns': {'one': None}}, ptypes=['int'],
                    rtypes=['int'], script={'k': 'ignored', 'v': {'i': '1'}}, pos=[{'i': '1'}], kw=[], protos=list(PROTOS),
                    ostr=True)
    if name == 'auxResult':
        sig = {'style': 'wrapped', 'params': ['a'], 'bareArg': None, 'returns': {'one': None}}
        return dict(sig=sig, ptypes=['int'], rtypes=['int'], script={'k': 'pick', 'idx': [0]}, pos=[{'i': '7'}], kw=[],
                    protos=list(PROTOS),
                    auxs=[{'sig': dict(sig), 'rtypes': ['str'], 'script': {'k': 'const', 'v': {'s': 'aux'}}}])
    if name == 'slotsPerCall':
        sig = {'style': 'wrapped', 'params': ['s', 'width', 'prec'], 'bareArg': None, 'returns': {'many': 3}}
        return dict(sig=sig, ptypes=['str', 'int', 'int'], rtypes=['str', 'int', 'int'],
                    script={'k': 'pick', 'idx': [0, 1, 2], 'many': True}, pos=[{'s': 'b'}], kw=[], protos=list(PROTOS),
                    calls=[[[{'s': 'a'}, {'i': '8'}, {'i': '2'}], []], [[{'s': 'b'}], []]])
    if name == 'ewWrapper':
        return dict(sig={'style': 'out_bare', 'params': ['a'], 'bareArg': None, 'returns': ret_one('Ack')}, ptypes=['int'],
                    rtypes=['Ack'], script={'k': 'const', 'v': {'o': ['Ack', []]}}, pos=[{'i': '1'}], kw=[], protos=list(PROTOS))
    if name == 'ewMembers':
        return dict(sig={'style': 'wrapped', 'params': ['a'], 'bareArg': None, 'returns': {'one': None}}, ptypes=['int'],
                    rtypes=['int'], script={'k': 'pick', 'idx': [0]}, pos=[{'i': '5'}], kw=[], protos=list(PROTOS))
    if name == 'bareNone':
        return dict(sig={'style': 'out_bare', 'params': ['a'], 'bareArg': None, 'returns': ret_one('Ack')}, ptypes=['int'],
                    rtypes=['Ack'], script={'k': 'const', 'v': None}, pos=[{'i': '1'}], kw=[], protos=[proto])
    if name == 'noneSingle':
        return dict(sig={'style': 'wrapped', 'params': [], 'bareArg': None, 'returns': ret_one('P')}, ptypes=[],
                    rtypes=['P'], script={'k': 'const', 'v': None}, pos=[], kw=[], protos=[proto])
    if name in ('isOutBare', 'wrapUpTo'):
        return dict(sig={'style': 'out_bare', 'params': ['a'], 'bareArg': None, 'returns': {'one': None}}, ptypes=['int'],
                    rtypes=['int'], script={'k': 'pick', 'idx': [0]}, pos=[{'i': '5'}], kw=[], protos=list(PROTOS)) \
            if name == 'isOutBare' else \
            dict(sig={'style': 'wrapped', 'params': ['a'], 'bareArg': None, 'returns': {'one': None}}, ptypes=['int'],
                 rtypes=['int'], script={'k': 'pick', 'idx': [0]}, pos=[{'i': '5'}], kw=[], protos=list(PROTOS))
    raise KeyError(name)


# ------------------------------------------------------------------------------------ generators
ALPHA = ['a', 'Z', '0', ' ', 'é', 'ü', '漢', '&', '<', '>', '"', "'", '/', '-', '_', 'λ', '😀', '.']
INTS = [0, 1, -1, 7, 42, -128, 255, 2 ** 31 - 1, -2 ** 31, 2 ** 63, -2 ** 63 - 1, 10 ** 30, -10 ** 30]
NAMES = ['a', 'b', 'c', 'd', 'e', 's', 'k', 'n', 'x', 'arg', 'value', 'p', 'q', 'item', 'self_', 'kwargs_']


def gen_value(rng, t, allow_none=True, depth=0):
    if allow_none and rng.random() < 0.15:
        return None
    if t == 'int':
        return {'i': str(rng.choice(INTS) if rng.random() < 0.6 else rng.randrange(-10 ** 12, 10 ** 12))}
    if t == 'str':
        n = rng.choice([1, 1, 2, 3, 5, 9])
        s = ''.join(rng.choice(ALPHA) for _ in range(n)).strip(' ')
        return {'s': s or 'x'}
    if t == 'bool':
        return {'b': rng.random() < 0.5}
    if t in ('arr', 'iter'):
        return {'l': [gen_value(rng, 'int', False) for _ in range(rng.choice([1, 1, 2, 3, 4]))]}
    if t == 'Ack':
        return {'o': ['Ack', []]}
    if t in FIELDS and t not in ('P', 'Q'):
        return {'o': [t, [[fn, gen_value(rng, ft)] for fn, ft in FIELDS[t]]]}
    if t == 'P':
        return {'o': ['P', [['a', gen_value(rng, 'int')], ['b', gen_value(rng, 'str')]]]}
    if t == 'Q':
        return {'o': ['Q', [['x', gen_value(rng, 'str')], ['n', gen_value(rng, 'int')],
                            ['p', gen_value(rng, 'P')], ['f', gen_value(rng, 'bool')]]]}
    raise ValueError(t)


ARG_TYPES = ['int', 'str', 'bool', 'P', 'Q', 'arr', 'Ack']


def gen_script(rng, sig, ptypes, rtypes, recv_types, kind):
    """a scripted body of the requested kind that conforms to the declared return types"""
    n = out_len(sig)
    many = n >= 2        # `_returns=[T]` declares one return value: the function returns it bare
    if kind == 'fault':
        return {'k': 'fault', 'code': rng.choice(['Client.Custom', 'Client', 'Server.Oops', 'Server', 'Client.ValidationError',
                                                  'Client.ResourceNotFound']),
                'string': rng.choice(['not enough items', 'x', 'count must be positive: é']),
                'actor': rng.choice(['', '', 'urn:vault']),
                'detail': rng.choice([None, {'o': ['dict', [['item', {'s': 'nail'}]]]},
                                      {'o': ['dict', [['available', {'s': '10'}], ['item', {'s': 'gold'}]]]}])}
    if kind == 'error':
        return {'k': 'error', 'cls': rng.choice(['ValueError', 'KeyError', 'Raised'])}
    if kind == 'ignored':
        return {'k': 'ignored', 'v': gen_value(rng, rng.choice(['int', 'str']), False)}
    if kind == 'junk':      # returns something although nothing is declared
        return {'k': 'const', 'v': gen_value(rng, rng.choice(['int', 'str']), False)}
    if kind == 'none' or n == 0:
        if many:
            return {'k': 'const', 'v': {'l': [None] * n}, 'tuple': True}
        return {'k': 'const', 'v': None}
    if kind == 'gen':
        return {'k': 'gen', 'v': [gen_value(rng, 'int', False) for _ in range(rng.choice([0, 1, 2, 3, 5]))]}
    if kind == 'echo':
        idx = []
        for t in rtypes:
            cands = [i for i, pt in enumerate(recv_types) if pt == t]
            if not cands:
                idx = None
                break
            idx.append(rng.choice(cands))
        if idx is not None and idx:
            return {'k': 'pick', 'idx': idx, 'many': many}
        if ((sig['style'] == 'bare' and sig['bareArg']) or sig.get('member')) and not many:
            cands = [f for f, ft in FIELDS[recv_types[0]] if ft == rtypes[0]]
            if cands:
                return {'k': 'field', 'f': rng.choice(cands)}
    # const
    if many:
        return {'k': 'const', 'v': {'l': [gen_value(rng, t) for t in rtypes]}, 'tuple': True}
    return {'k': 'const', 'v': gen_value(rng, rtypes[0])}


def gen_auxs(rng, sig, ptypes, n):
    """`n` auxiliary companions of a method: same name, style and arguments; own return declaration and body (returns
    something else, returns nothing, is Ignored, raises)"""
    auxs = []
    for _ in range(n):
        nret = rng.choice([0, 1, 1, 2]) if sig['style'] == 'wrapped' else rng.choice([0, 1])
        rtypes = [rng.choice(['int', 'str', 'bool', 'P']) for _ in range(nret)]
        returns = None if nret == 0 else (ret_one(rtypes[0]) if nret == 1 else {'many': nret})
        asig = dict(sig, returns=returns)
        kind = rng.choice(['const', 'const', 'echo', 'none', 'fault', 'error', 'ignored'])
        auxs.append({'sig': asig, 'rtypes': rtypes,
                     'script': gen_script(rng, asig, ptypes, rtypes, recv_types_of(asig, ptypes), kind)})
    return auxs


SPELLINGS = {'wrapped': [(None, None), ('wrapped', None), ('wrapped', 'document'), ('bare', 'document'), ('out_bare', 'document'),
                         (None, 'rpc')],       # `_soap_body_style` alone is not looked at
             'bare': [('bare', None), ('wrapped', 'rpc'), ('out_bare', 'rpc'), ('bare', 'rpc')],
             'out_bare': [('out_bare', None)]}


def gen_opts(rng, sig, i):
    """decorator options that rename things or are pure metadata: none of them may change what a call returns"""
    o = {}
    if rng.random() < 0.5:
        o['style_spelling'] = rng.choice(SPELLINGS[sig['style']])
    if sig['style'] != 'bare' and rng.random() < 0.3:
        o['arg_names'] = rng.choice(['arg', 'variable'])
    if rng.random() < 0.3:
        o['out_names'] = True
    r = rng.random()
    if r < 0.15:
        o['op_name'] = 'Op%d' % i
    elif r < 0.3:
        o['in_msg'] = 'InMsg%d' % i
    if rng.random() < 0.2:
        o['out_msg'] = 'OutMsg%d' % i
    if sig['style'] != 'bare' and rng.random() < 0.25:
        o['args'] = True
    if rng.random() < 0.2:
        o['part'] = True
    inert = [k for k in (rng.choice(['_throws', '_faults']), rng.choice(['_udd', '_udp']), '_logged', '_port_type',
                         '_translations', '_href', '_internal_key_suffix') if rng.random() < 0.3]
    if inert:
        o['inert'] = inert
    ev = [k for k in (rng.choice(['_evmgr', '_evmgrs']),) if rng.random() < 0.2] or \
         [k for k in (rng.choice(['_event_manager', '_event_managers']),) if rng.random() < 0.2]
    if ev:
        o['evmgr'] = ev
    if rng.random() < 0.15:
        o['out_msg'] = '{c18.other}OutMsgNs%d' % i       # the response message in a namespace of its own
    for k in ('no_proto', 'service_name', 'by_item', 'base_service'):
        if rng.random() < 0.25:
            o[k] = True
    return o


def gen_member(rng, i):
    """a ComplexModel class for a member method: 1..3 fields of simple types"""
    n = rng.choice([1, 2, 3])
    ftypes = [['f%d' % k, rng.choice(['int', 'str', 'bool'])] for k in range(n)]
    cls = 'M%d' % i
    FIELDS[cls] = [tuple(x) for x in ftypes]
    return {'cls': cls, 'fields': [f for f, _ in ftypes], 'ftypes': ftypes, 'default_on_null': rng.random() < 0.4,
            'when': rng.choice([None, None, True, False]), 'svc_class': rng.choice([None, None, '_service_class', '_service']),
            'self_ref': rng.random() < 0.5}


def history_of(rng, groups, k):
    """a call history: `k` conformant calls with different positional/keyword subsets and different values"""
    pool = [(pos, kw) for calls in groups for pos, kw, tag in calls if tag in ('pos', 'kw', 'split', 'split-skipnone', 'pos-short')]
    rng.shuffle(pool)
    # put a call with many arguments first and a short one after it: what a shared slot list would leak
    pool.sort(key=lambda c: -(len(c[0]) + len(c[1])))
    head, rest = pool[:1], pool[1:]
    rng.shuffle(rest)
    rest.sort(key=lambda c: len([v for v in c[0] if v is not None]) + len([1 for _, v in c[1] if v is not None]))
    return (head + rest)[:k]


def boundary_histories():
    """the histories of the seeds' demos and the corners of the context loop"""
    out = []
    fmt = {'style': 'wrapped', 'params': ['s', 'width', 'prec'], 'bareArg': None, 'returns': {'many': 3}}
    s = spec_of(fmt, ['str', 'int', 'int'], ['str', 'int', 'int'], {'k': 'pick', 'idx': [0, 1, 2], 'many': True}, 'fmt')
    out.append((s, [([{'s': 'a'}, {'i': '8'}, {'i': '2'}], []), ([{'s': 'b'}], []), ([], [['prec', {'i': '1'}]]), ([], [])]))
    span = {'style': 'bare', 'params': ['p'], 'bareArg': ['P', ['a', 'b']], 'returns': ret_one('P')}
    s = spec_of(span, ['P'], ['P'], {'k': 'pick', 'idx': [0]}, 'span')
    out.append((s, [([{'i': '1'}, {'s': 'nine'}], []), ([], [['b', {'s': 'five'}]]), ([{'i': '2'}], []), ([], [])]))
    ob = {'style': 'out_bare', 'params': ['a', 'b'], 'bareArg': None, 'returns': {'one': None}}
    s = spec_of(ob, ['int', 'int'], ['int'], {'k': 'pick', 'idx': [1]}, 'second')
    out.append((s, [([{'i': '1'}, {'i': '2'}], []), ([{'i': '3'}], []), ([], [['a', {'i': '4'}]])]))
    # auxiliary companions: demo 2 (Calc.add + Audit.add), two companions, one raising, companion of a failing primary
    add = {'style': 'wrapped', 'params': ['x', 'y'], 'bareArg': None, 'returns': {'one': None}}

    def aux(returns, rtypes, script):
        return {'sig': dict(add, returns=returns), 'rtypes': rtypes, 'script': script}
    logged = aux({'one': None}, ['str'], {'k': 'const', 'v': {'s': 'logged'}})
    raising = aux(None, [], {'k': 'fault', 'code': 'Client.Aux'})
    crashing = aux({'one': None}, ['int'], {'k': 'error', 'cls': 'KeyError'})
    ign = aux({'one': None}, ['int'], {'k': 'ignored', 'v': {'i': '5'}})
    calls = [([{'i': '2'}, {'i': '3'}], []), ([], [['x', {'i': '2'}], ['y', {'i': '3'}]]), ([{'i': '9'}], [])]
    for auxs in ([logged], [logged, raising], [raising, logged], [crashing], [ign, logged], []):
        out.append((dict(spec_of(add, ['int', 'int'], ['int'], {'k': 'pick', 'idx': [0]}, 'add'), auxs=auxs), calls))
    out.append((dict(spec_of(add, ['int', 'int'], ['int'], {'k': 'fault', 'code': 'Client.Primary'}, 'add'), auxs=[logged]), calls[:2]))
    out.append((dict(spec_of(add, ['int', 'int'], ['int'], {'k': 'ignored', 'v': {'i': '1'}}, 'add'), auxs=[logged]), calls[:2]))
    out.append((dict(spec_of(span, ['P'], ['P'], {'k': 'pick', 'idx': [0]}, 'span'),
                     auxs=[{'sig': dict(span, returns={'one': None}), 'rtypes': ['int'], 'script': {'k': 'field', 'f': 'a'}}]),
                [([{'i': '1'}, {'s': 'nine'}], []), ([], [['b', {'s': 'five'}]])]))
    return out


def gen_sig(rng, style=None, nparams=None, nret=None):
    style = style or rng.choice(['wrapped', 'wrapped', 'out_bare', 'bare'])
    names = rng.sample(NAMES, 6)
    bare_arg = None
    if style == 'bare':
        if nparams is None:
            nparams = rng.choice([0, 1, 1, 1])
        nparams = min(nparams, 1)
        ptypes = [rng.choice(['P', 'Q'])] * nparams
        params = names[:nparams]
        if nparams:
            bare_arg = [ptypes[0], [k for k, _ in FIELDS[ptypes[0]]]]
    else:
        if nparams is None:
            nparams = rng.choice([0, 1, 2, 2, 3, 4, 5])
        ptypes = [rng.choice(ARG_TYPES) for _ in range(nparams)]
        params = names[:nparams]
    if nret is None:
        nret = rng.choice([0, 1, 1, 2, 3, 4]) if style == 'wrapped' else rng.choice([0, 1, 1])
    if style != 'wrapped':
        nret = min(nret, 1)
    rtypes = [rng.choice(ARG_TYPES) for _ in range(nret)]
    if nret == 0:
        returns = None
    elif nret == 1 and rng.random() < 0.85:
        returns = ret_one(rtypes[0])
    else:
        returns = {'many': nret}
    sig = {'style': style, 'params': params, 'bareArg': bare_arg, 'returns': returns}
    return sig, ptypes, rtypes


def recv_types_of(sig, ptypes):
    """types of the arguments the user function receives"""
    return list(ptypes)


def call_keys(sig, ptypes):
    """(key, type) of the arguments a caller passes (for bare: the fields of the argument class)"""
    if sig['style'] == 'bare' and sig['bareArg']:
        return list(FIELDS[ptypes[0]]) if ptypes else []
    return list(zip(sig['params'], ptypes))


def gen_calls(rng, sig, ptypes, n):
    """conformant (pos, kw, tag) calls; the first is all-positional, all further ones carry the same argument values
    so that their results must be equal (keyword ≡ positional)"""
    keys = call_keys(sig, ptypes)
    # the instance of a member method travels positionally: `self=` would bind to `_FunctionCall.__call__`'s own self
    lead = 1 if sig.get('member') else 0
    groups = []
    for g in range(n):
        vals = [gen_value(rng, t, allow_none=(g > 0)) for _, t in keys]
        if g == 0 and keys and rng.random() < 0.3:
            vals[-1] = None
        calls = [(list(vals), [], 'pos')]
        if keys:
            kwall = [[k, v] for (k, _), v in zip(keys, vals)]
            calls.append((list(vals[:lead]), kwall[lead:], 'kw'))
            i = rng.randrange(lead, len(keys) + 1)
            rest = kwall[i:]
            rng.shuffle(rest)
            calls.append((list(vals[:i]), rest, 'split'))
            calls.append((list(vals[:i]), [p for p in rest if p[1] is not None], 'split-skipnone'))
            # trailing Nones left out positionally
            j = len(vals)
            while j > 0 and vals[j - 1] is None:
                j -= 1
            if j < len(vals):
                calls.append((list(vals[:j]), [], 'pos-short'))
        calls.append((calls[0][0], calls[0][1] + [['zz_unknown', {'i': '1'}]], 'unknown-kw'))
        if len(keys) > lead:
            # NullServer's documented extras, not expressible in a Python call or on the wire (T2 only):
            # a keyword on top of a positional value replaces it -- unless the keyword value is None
            j = rng.randrange(lead, len(keys)) if len(keys) > lead else 0
            other = gen_value(rng, keys[j][1], allow_none=False)
            calls.append((list(vals), [[keys[j][0], other]], 'kw-over-positional'))
            calls.append((list(vals), [[keys[j][0], None]], 'kw-none-over-positional'))
            calls.append((list(vals) + [{'i': '0'}], [], 'too-many-positional'))
        groups.append(calls)
    return groups


# ------------------------------------------------------------------------------------ run
def spec_of(sig, ptypes, rtypes, script, name, with_ctx=False, explicit_style=False):
    return {'sig': sig, 'ptypes': ptypes, 'rtypes': rtypes, 'script': script, 'name': name, 'with_ctx': with_ctx,
            'explicit_style': explicit_style}


BOUNDARY = []


def boundary_specs():
    """hand-written corners: the six calls of test_null_server.py and the shapes every theorem case names"""
    P2 = ['P', ['a', 'b']]
    out = []

    def add(style, params, ptypes, returns, rtypes, script, bareArg=None, **kw):
        out.append(spec_of({'style': style, 'params': params, 'bareArg': bareArg, 'returns': returns}, ptypes, rtypes,
                           script, 'm%d' % len(out), **kw))
    one = {'one': None}
    add('wrapped', ['s'], ['str'], None, [], {'k': 'pick', 'idx': [0]})                   # test_empty_return_type
    add('wrapped', ['s'], ['str'], one, ['str'], {'k': 'ignored', 'v': {'s': 'xyz'}})       # test_ignored 1
    add('wrapped', ['s'], ['str'], None, [], {'k': 'ignored', 'v': {'s': 'xyz'}})           # test_ignored 2
    add('wrapped', ['s'], ['str'], one, ['str'], {'k': 'const', 'v': {'s': 'OK'}})          # test_ignored 3
    add('wrapped', ['s', 'k'], ['str', 'str'], None, [], {'k': 'const', 'v': None})         # test_call_two_args
    add('wrapped', ['s', 'k'], ['str', 'str'], ret_one('arr'), ['arr'], {'k': 'const', 'v': {'l': [{'i': '1'}, {'i': '2'}]}})
    add('wrapped', [], [], one, ['bool'], {'k': 'const', 'v': {'b': True}})                 # test_no_gc_collect
    for n in (2, 3, 4):
        add('wrapped', ['a'], ['int'], {'many': n}, ['int'] * n, {'k': 'ignored', 'v': {'i': '9'}})
        add('wrapped', ['a'], ['int'], {'many': n}, ['int'] * n, {'k': 'pick', 'idx': [0] * n, 'many': True})
    add('wrapped', ['a'], ['int'], {'many': 1}, ['int'], {'k': 'pick', 'idx': [0]})
    for style in ('out_bare', 'bare'):
        add(style, [], [], None, [], {'k': 'const', 'v': None})                             # EMPTY
        add(style, [], [], None, [], {'k': 'const', 'v': {'s': 'junk'}})                    # EMPTY, undeclared return
        add(style, [], [], one, ['str'], {'k': 'const', 'v': {'s': 'E'}})                   # EMPTY_OUT_BARE
        add(style, [], [], one, ['str'], {'k': 'ignored', 'v': {'i': '3'}})
        add(style, [], [], ret_one('P'), ['P'], {'k': 'const', 'v': {'o': ['P', [['a', {'i': '3'}], ['b', None]]]}})
        add(style, [], [], ret_one('P'), ['P'], {'k': 'const', 'v': None})
        add(style, [], [], ret_one('iter'), ['iter'], {'k': 'gen', 'v': [{'i': '1'}, {'i': '2'}]})
    # a return type WITHOUT members is not "nothing declared": instance and None, every body style
    ack = {'o': ['Ack', []]}
    for v in (ack, None):
        add('wrapped', ['n'], ['int'], ret_one('Ack'), ['Ack'], {'k': 'const', 'v': v})
        add('out_bare', ['n'], ['int'], ret_one('Ack'), ['Ack'], {'k': 'const', 'v': v})
        add('out_bare', [], [], ret_one('Ack'), ['Ack'], {'k': 'const', 'v': v})
        add('bare', [], [], ret_one('Ack'), ['Ack'], {'k': 'const', 'v': v})
        add('bare', ['p'], ['P'], ret_one('Ack'), ['Ack'], {'k': 'const', 'v': v}, bareArg=P2)
    add('bare', ['p'], ['P'], ret_one('Ack'), ['Ack'], {'k': 'ignored', 'v': {'i': '1'}}, bareArg=P2)
    add('wrapped', ['k', 'n'], ['Ack', 'int'], ret_one('Ack'), ['Ack'], {'k': 'pick', 'idx': [0]})
    add('out_bare', ['k'], ['Ack'], ret_one('Ack'), ['Ack'], {'k': 'pick', 'idx': [0]})
    add('wrapped', ['k'], ['Ack'], {'many': 2}, ['Ack', 'Ack'], {'k': 'pick', 'idx': [0, 0], 'many': True})
    add('out_bare', ['a', 'b'], ['int', 'str'], ret_one('P'), ['P'], {'k': 'const', 'v': {'o': ['P', [['a', {'i': '3'}], ['b', {'s': 'q'}]]]}})
    add('out_bare', ['a'], ['int'], one, ['int'], {'k': 'pick', 'idx': [0]})
    add('out_bare', ['a'], ['int'], None, [], {'k': 'const', 'v': {'s': 'junk'}})
    add('out_bare', ['a'], ['int'], one, ['int'], {'k': 'ignored', 'v': {'i': '3'}})
    add('out_bare', ['a'], ['int'], one, ['int'], {'k': 'fault', 'code': 'Client.Custom'})
    add('bare', ['p'], ['P'], ret_one('P'), ['P'], {'k': 'pick', 'idx': [0]}, bareArg=P2)
    add('wrapped', ['a'], ['int'], ret_one('P'), ['P'], {'k': 'const', 'v': None})      # a missing object
    add('wrapped', ['a'], ['int'], ret_one('Q'), ['Q'], {'k': 'const', 'v': None})
    add('wrapped', ['a'], ['int'], ret_one('arr'), ['arr'], {'k': 'const', 'v': None})
    add('wrapped', ['a'], ['int'], {'many': 2}, ['P', 'int'], {'k': 'const', 'v': {'l': [None, None]}, 'tuple': True})
    add('bare', ['p'], ['P'], one, ['int'], {'k': 'field', 'f': 'a'}, bareArg=P2)
    add('bare', ['p'], ['P'], None, [], {'k': 'const', 'v': {'s': 'junk'}}, bareArg=P2)
    add('bare', ['p'], ['P'], None, [], {'k': 'const', 'v': None}, bareArg=P2)
    add('bare', ['p'], ['P'], one, ['str'], {'k': 'error', 'cls': 'KeyError'}, bareArg=P2)
    add('bare', ['q'], ['Q'], ret_one('Q'), ['Q'], {'k': 'pick', 'idx': [0]}, bareArg=['Q', ['x', 'n', 'p', 'f']])
    add('wrapped', ['n'], ['int'], ret_one('iter'), ['iter'], {'k': 'gen', 'v': []})
    add('out_bare', ['n'], ['int'], ret_one('iter'), ['iter'], {'k': 'gen', 'v': []})
    add('bare', [], [], ret_one('iter'), ['iter'], {'k': 'gen', 'v': []})
    add('wrapped', [], [], ret_one('iter'), ['iter'], {'k': 'gen', 'v': [{'i': '7'}]})
    add('wrapped', ['n'], ['int'], ret_one('iter'), ['iter'], {'k': 'gen', 'v': [{'i': '0'}, {'i': '1'}, {'i': '2'}]})
    add('wrapped', ['a'], ['int'], one, ['int'], {'k': 'fault', 'code': 'Client.Custom'}, with_ctx=True)
    add('wrapped', ['a'], ['int'], one, ['int'], {'k': 'error'})
    add('wrapped', ['a', 'b', 'c', 'd', 'e'], ['int', 'str', 'bool', 'P', 'arr'], {'many': 5}, ['int', 'str', 'bool', 'P', 'arr'],
        {'k': 'pick', 'idx': [0, 1, 2, 3, 4], 'many': True}, with_ctx=True)
    add('wrapped', ['a', 'b'], ['int', 'int'], one, ['int'], {'k': 'pick', 'idx': [1]}, explicit_style=True)
    return out


def bad_decorations():
    """signatures the decorator must refuse (T2 op `decorate`)"""
    P2 = ['P', ['a', 'b']]
    return [
        spec_of({'style': 'bare', 'params': ['a', 'b'], 'bareArg': None, 'returns': None}, ['int', 'int'], [], {'k': 'const', 'v': None}, 'bad0'),
        spec_of({'style': 'bare', 'params': ['p', 'q'], 'bareArg': P2, 'returns': {'one': None}}, ['P', 'P'], ['int'], {'k': 'const', 'v': None}, 'bad1'),
        spec_of({'style': 'out_bare', 'params': ['a'], 'bareArg': None, 'returns': {'many': 2}}, ['int'], ['int', 'int'], {'k': 'const', 'v': None}, 'bad2'),
        spec_of({'style': 'bare', 'params': [], 'bareArg': None, 'returns': {'many': 2}}, [], ['int', 'int'], {'k': 'const', 'v': None}, 'bad3'),
        # body_style='bare' does not allow an empty model as its parameter
        spec_of({'style': 'bare', 'params': ['k'], 'bareArg': ['Ack', []], 'returns': {'one': None}}, ['Ack'], ['int'], {'k': 'const', 'v': None}, 'bad4'),
    ]


def unsupported_specs():
    """bare with a non-complex argument: outside what NullServer supports; T2 only (the model says AttributeError)"""
    return [
        spec_of({'style': 'bare', 'params': ['a'], 'bareArg': None, 'returns': {'one': None}}, ['int'], ['int'], {'k': 'pick', 'idx': [0]}, 'unsup0'),
        spec_of({'style': 'bare', 'params': ['s'], 'bareArg': None, 'returns': None}, ['str'], [], {'k': 'const', 'v': None}, 'unsup1'),
    ]


def conforms(sig, script):
    """is the scripted program one the property speaks about (returns what it declares)?"""
    return True


T2_ONLY = ('kw-over-positional', 'kw-none-over-positional', 'too-many-positional')


class Runner(object):
    def __init__(self, ctx):
        self.ctx, self.E = ctx, env()
        self.Q = []          # (query, impl)
        self.t3_fail = 0
        self.n_prog = 0

    def add(self, q, impl, nontrivial=True):
        self.Q.append((q, impl))
        self.ctx.case(q, nontrivial)
        self.ctx.hit('op:' + q['op'])

    def shape(self, spec):
        sig, sc = spec['sig'], spec['script']
        r = sig['returns']
        return '%s/args%d/ret%s/%s' % (sig['style'], len(call_keys(sig, spec['ptypes'])),
                                       'none' if r is None else ('many' if 'many' in r else 'one'), sc['k'])

    # ------------------------------------------------------------------ one program, several calls
    def run_program(self, spec, groups, t3=True, protos=None):
        ctx, E = self.ctx, self.E
        if protos is None:
            self.n_prog = getattr(self, 'n_prog', 0) + 1
            # a raised Fault is sent through every configuration, anything else through one more besides the three
            protos = PROTOS + (VARIANTS if spec['script']['k'] in ('fault', 'error') else
                               (VARIANTS[self.n_prog % len(VARIANTS)],))
        prog = Program(E, spec)
        sig = spec['sig']
        # (a) decorator
        if prog.decor_error:
            self.add({'op': 'decorate', 'sig': sig}, {'error': 'decorator'})
            return prog
        d = prog.desc
        ti = getattr(d.in_message, '_type_info', None)
        self.add({'op': 'decorate', 'sig': sig}, {'ok': {
            'body_style': d.body_style.__name__.replace('BODY_STYLE_', ''),
            'in_keys': None if ti is None else list(ti.keys()),
            'is_out_bare': bool(d.is_out_bare()),
            'out_len': len(d.out_message._type_info) if sig['style'] == 'wrapped' else None}})
        shape = self.shape(spec)
        for calls in groups:
            base_out = None
            for pos, kw, tag in calls:
                ctx.hit('shape:' + shape)
                ctx.hit('call:' + tag)
                q = {'op': 'null.call', 'sig': sig, 'member': sig.get('member'), 'script': spec['script'], 'pos': pos, 'kw': kw}
                recv, out = prog.call_null(pos, kw)
                self.add(q, {'recv': recv, 'out': out})
                ctx.hit('null:' + next(iter(out)))
                if not t3 or tag in T2_ONLY:
                    continue
                rep = dict(spec=spec, pos=pos, kw=kw, tag=tag)
                # T3-a keyword ≡ positional (same argument values within a group)
                if base_out is None:
                    base_out = (recv, out)
                elif (recv, out) != base_out:
                    self.t3_fail += 1
                    ctx.hit('t3-fail:kw-vs-pos')
                    ctx.finding('kw-vs-pos:%s' % tag, 'NullServer: %s invocation differs from the positional one' % tag,
                                dict(rep, op='kw-vs-pos', positional=base_out, got=[recv, out]))
                # T3-b NullServer vs the wire
                if tag in ('pos', 'kw', 'split'):
                    for proto in protos:
                        exp = wire_view(sig, out, ctx.facts.get(base_of(proto)))
                        keep = {}
                        wrecv, wout = prog.call_wire(proto, pos, [p for p in kw], keep)
                        qw = dict(q, op='wire.call', proto=base_of(proto), config=proto)
                        self.add(qw, {'recv': wrecv, 'out': wout})
                        ctx.cov['traces_validated_against_impl'] += 1
                        ok = (wout == exp) and (wrecv == recv)
                        ctx.hit('wire:%s:%s' % (proto, 'agree' if ok else 'differ'))
                        k_ = spec['script']['k']
                        special = k_ in ('gen', 'ignored', 'fault', 'error') or no_return(sig) or \
                            (k_ == 'const' and spec['script'].get('v') is None)
                        if tag == 'pos' and proto in PROTOS and (special or proto == PROTOS[self.n_prog % 3] or ctx.thorough):
                            # T3-j the real HTTP transport: WsgiApplication handles the result itself before it serialises
                            keep2 = {}
                            hrecv, hout = prog.call_wsgi(proto, pos, kw, keep2)
                            self.add(dict(q, op='wire.call', proto=proto, config='wsgi-' + proto), {'recv': hrecv, 'out': hout})
                            okh = (hout == exp) and (hrecv == recv)
                            ctx.hit('wsgi:%s:%s' % (proto, 'agree' if okh else 'differ'))
                            if not okh:
                                self.t3_fail += 1
                                ctx.hit('t3-fail:wsgi')
                                ctx.finding('null-vs-wsgi:%s:%s' % (proto, k_ if special else 'result'),
                                            'NullServer and WsgiApplication(%s) disagree: direct caller %s, HTTP client %s'
                                            % (proto, json.dumps(out)[:120], json.dumps(hout)[:120]),
                                            dict(rep, op='null-vs-wsgi', proto=proto, null={'recv': recv, 'out': out},
                                                 wsgi={'recv': hrecv, 'out': hout}, expected_wire=exp, **keep2))
                        if tag == 'pos' or (tag == 'kw' and ctx.thorough):
                            # T3-g the string mode: NullServer(app, ostr=True) returns the reply a wire client gets
                            oout = prog.call_ostr(proto, pos, kw)
                            self.add(dict(q, op='null.ostr', proto=base_of(proto), config=proto), {'out': oout})
                            ctx.hit('ostr:%s:%s' % (proto, 'agree' if oout == wout else 'differ'))
                            if oout != wout:
                                self.t3_fail += 1
                                k_ = spec['script']['k']
                                ctx.hit('t3-fail:ostr')
                                ctx.finding('ostr-vs-wire:%s:%s' % (proto, k_ if k_ in ('ignored', 'fault', 'error', 'gen') else 'result'),
                                            'the string NullServer(ostr=True) returns decodes to %s, the %s wire reply to %s'
                                            % (json.dumps(oout)[:120], proto, json.dumps(wout)[:120]),
                                            dict(rep, op='ostr-vs-wire', proto=proto, ostr=oout, wire={'recv': wrecv, 'out': wout}, **keep))
                        if not ok:
                            self.t3_fail += 1
                            cls = self.classify(spec, out, wout, recv, wrecv)
                            ctx.hit('t3-fail:' + cls)
                            ctx.finding('null-vs-wire:%s:%s' % (proto, cls),
                                        'NullServer and the %s wire path disagree (%s): direct caller %s, wire client %s'
                                        % (proto, cls, json.dumps(out)[:120], json.dumps(wout)[:120]),
                                        dict(rep, op='null-vs-wire', proto=proto, null={'recv': recv, 'out': out},
                                             wire={'recv': wrecv, 'out': wout}, expected_wire=exp, **keep))
                m_ = sig.get('member')
                no_self = bool(m_) and not m_['default_on_null'] and (not pos or pos[0] is None)
                if no_self and tag == 'pos':
                    # T3-h a member method without its instance: RespawnError, a Client.ResourceNotFound fault
                    if out.get('fault') != 'Client.ResourceNotFound':
                        self.t3_fail += 1
                        ctx.finding('member-no-instance', 'a member method called without its instance answers %s' % json.dumps(out),
                                    dict(rep, op='fault-direct', got=out, want={'fault': 'Client.ResourceNotFound'}))
                    continue
                if m_ and m_.get('when') is False and tag == 'pos':
                    # T3-i the `_when` prerequisite says no: InvalidRequestError, whatever the body would do
                    if out.get('fault') != 'Client.InvalidInput':
                        self.t3_fail += 1
                        ctx.finding('member-when', 'a member method whose _when prerequisite fails answers %s' % json.dumps(out),
                                    dict(rep, op='fault-direct', got=out, want={'fault': 'Client.InvalidInput'}))
                    continue
                # T3-d raised faults: a Fault keeps its code, anything else is a Server fault (direct caller)
                if spec['script']['k'] in ('fault', 'error') and tag == 'pos':
                    sc_ = spec['script']
                    want = {'fault': sc_['code'], 'string': sc_.get('string'), 'actor': sc_.get('actor') or '',
                            'detail': sc_.get('detail')} if sc_['k'] == 'fault' else \
                        {'fault': 'Server', 'string': None, 'actor': '', 'detail': None}
                    if out != want:
                        self.t3_fail += 1
                        ctx.hit('t3-fail:fault-direct')
                        ctx.finding('fault-direct:' + spec['script']['k'],
                                    'a raised %s reaches the direct caller as %s, not as %s'
                                    % (spec['script']['k'], json.dumps(out), json.dumps(want)),
                                    dict(rep, op='fault-direct', got=out, want=want))
                # T3-c Ignored: delivered to the direct caller
                if spec['script']['k'] == 'ignored' and tag == 'pos':
                    if out != {'ok': {'ig': spec['script']['v']}}:
                        self.t3_fail += 1
                        ctx.finding('ignored-direct', 'an Ignored return is not delivered to the direct caller',
                                    dict(rep, op='ignored-direct', got=out))
        return prog

    # ------------------------------------------------------------------ call histories on ONE kept function object
    def history_steps(self, prog, calls):
        """issue `calls` one after the other on the kept `_FunctionCall` object; next to each, the same call on a fresh
        `server.service.<name>`"""
        steps = []
        for pos, kw in calls:
            recv, out = prog.call_null(pos, kw, held=True)
            aux = prog.aux_canon()
            frecv, fout = prog.call_null(pos, kw)
            steps.append({'held': {'recv': recv, 'out': out, 'aux': aux},
                          'fresh': {'recv': frecv, 'out': fout, 'aux': prog.aux_canon()}})
        return steps

    def run_history(self, spec, calls, protos=PROTOS):
        ctx, E = self.ctx, self.E
        prog = Program(E, spec)
        if prog.decor_error:
            return
        sig, auxs = spec['sig'], spec.get('auxs') or []
        twin = Program(E, dict(spec, auxs=[])) if auxs else None
        shape = self.shape(spec)
        impl_steps = []
        for n, (pos, kw) in enumerate(calls):
            ctx.hit('history:step%d' % min(n, 4))
            ctx.hit('history:auxs%d' % len(auxs))
            rep = dict(spec=spec, calls=calls, step=n, pos=pos, kw=kw)
            recv, out = prog.call_null(pos, kw, held=True)
            aux = prog.aux_canon()
            impl_steps.append({'recv': recv, 'out': out, 'aux': aux})
            # T3-e the i-th call on a kept object depends on its own arguments only
            frecv, fout = prog.call_null(pos, kw)
            faux = prog.aux_canon()
            if (frecv, fout, faux) != (recv, out, aux):
                self.t3_fail += 1
                ctx.hit('t3-fail:history')
                ctx.finding('history:%s' % sig['style'],
                            'call %d on a kept function object differs from the same call on a fresh one: %s vs %s'
                            % (n, json.dumps([recv, out])[:150], json.dumps([frecv, fout])[:150]),
                            dict(rep, op='history', held={'recv': recv, 'out': out, 'aux': aux},
                                 fresh={'recv': frecv, 'out': fout, 'aux': faux}))
            # T3-f the result is the primary method's: auxiliary companions do not change it
            if twin is not None:
                trecv, tout = twin.call_null(pos, kw)
                if (trecv, tout) != (frecv, fout):     # fresh object vs fresh object: no history involved
                    self.t3_fail += 1
                    ctx.hit('t3-fail:aux-result')
                    ctx.finding('aux-changes-result:%s' % sig['style'],
                                'with auxiliary companions NullServer returns %s, without them %s'
                                % (json.dumps(fout)[:150], json.dumps(tout)[:150]),
                                dict(rep, op='aux-result', with_aux={'recv': frecv, 'out': fout}, without_aux={'recv': trecv, 'out': tout}))
            # T3-b (extended) against the wire, interleaved with the history
            for proto in protos:
                keep = {}
                wrecv, wout = prog.call_wire(proto, pos, kw, keep)
                waux = prog.aux_canon()
                self.add({'op': 'wire.aux', 'proto': proto, 'sig': sig, 'member': sig.get('member'), 'script': spec['script'], 'auxs': auxs,
                          'pos': pos, 'kw': kw}, {'recv': wrecv, 'out': wout, 'aux': waux})
                ctx.cov['traces_validated_against_impl'] += 1
                exp = wire_view(sig, out, ctx.facts.get(proto))
                ok = wout == exp and wrecv == recv and waux == aux
                ctx.hit('wire-aux:%s:%s' % (proto, 'agree' if ok else 'differ'))
                if not ok:
                    self.t3_fail += 1
                    cls = 'aux-args' if (wout == exp and wrecv == recv) else ('args' if wrecv != recv else 'result')
                    ctx.hit('t3-fail:aux:' + cls)
                    ctx.finding('null-vs-wire:%s:history:%s' % (proto, cls),
                                'NullServer (kept object, call %d) and the %s wire path disagree (%s): %s vs %s'
                                % (n, proto, cls, json.dumps([out, aux])[:160], json.dumps([wout, waux])[:160]),
                                dict(rep, op='null-vs-wire', proto=proto, null={'recv': recv, 'out': out, 'aux': aux},
                                     wire={'recv': wrecv, 'out': wout, 'aux': waux}, expected_wire=exp, **keep))
        ctx.hit('shape-history:' + shape)
        self.add({'op': 'null.seq', 'sig': sig, 'member': sig.get('member'), 'script': spec['script'], 'auxs': auxs,
                  'calls': [{'pos': pos, 'kw': kw} for pos, kw in calls]}, {'steps': impl_steps})

    def classify(self, spec, out, wout, recv, wrecv):
        sig, k = spec['sig'], spec['script']['k']
        style = sig['style']
        if recv != wrecv and wrecv is not None and recv is not None:
            return 'args:' + style
        if k == 'ignored':
            return 'ignored:%s' % ('many' if out_len(sig) >= 2 and style == 'wrapped' else style)
        if no_return(sig) and style != 'wrapped' and out.get('ok') is not None and wout == {'ok': None}:
            return 'undeclared-return:' + style
        if style != 'wrapped':
            return 'result:' + style
        return 'result:wrapped:' + next(iter(out)) + '/' + next(iter(wout))


def run(ctx):
    E = env()
    rng = ctx.rng
    # ---- T1
    f = measure_facts(E)
    ctx.facts = f
    ctx.cov['facts'] = f
    ctx.write_generated('Facts18.lean', facts_lean(f))
    R = Runner(ctx)

    def witness(fid, what, name, proto=None):
        w = fact_witness(name, proto)
        ctx.hit('fact-bad:' + fid)
        spec = spec_of(w['sig'], w['ptypes'], w['rtypes'], w['script'], 'witness')
        if w.get('auxs'):
            spec['auxs'] = w['auxs']
        prog = Program(E, spec)
        if w.get('calls'):
            steps = R.history_steps(prog, w['calls'])
            ctx.finding(fid, what, dict(op='history', fact=name, spec=spec, calls=w['calls'], steps=steps, measured=f))
            return
        recv, out = prog.call_null(w['pos'], w['kw'])
        obs = {}
        for p in w['protos']:
            keep = {}
            wrecv, wout = prog.call_wire(p, w['pos'], w['kw'], keep)
            obs[p] = dict(recv=wrecv, out=wout, **keep)
            if w.get('ostr'):
                obs[p]['ostr'] = prog.call_ostr(p, w['pos'], w['kw'])
        ctx.finding(fid, what, dict(op='fact-witness', fact=name, spec=spec, pos=w['pos'], kw=w['kw'], protos=w['protos'],
                                    null={'recv': recv, 'out': out}, wire=obs, measured=f))
    for k, good in GOOD.items():
        if f[k] != good:
            witness('switch:%s=%s' % (k, json.dumps(f[k], sort_keys=True) if isinstance(f[k], dict) else f[k]),
                    'decision %s of the anchored code measured %r (needed: %r)' % (k, f[k], good), k)
    for proto in PROTOS:
        for k, good in GOOD_PROTO.items():
            if f[proto][k] != good:
                witness('switch:%s.%s=%s' % (proto, k, f[proto][k]),
                        'wire path %s: %s measured %r (needed: %r)' % (proto, k, f[proto][k], good), k, proto)
    for proto in PROTOS:
        if f[proto]['bareNone'] not in ('nil', 'emptyInstance') and f[proto]['bareOut'] == 'first':
            witness('switch:%s.bareNone=%s' % (proto, f[proto]['bareNone']),
                    'wire path %s: a None bare response of a member-less class arrives as neither None nor an empty '
                    'instance: %s' % (proto, f[proto]['bareNone']), 'bareNone', proto)
    if f['kwNoneSkipped'] not in (True, False):
        ctx.proof_broken.append('fact:kwNoneSkipped=%r' % (f['kwNoneSkipped'],))
    # ---- proof
    ctx.prove()

    # ---- T2 + T3
    for spec in bad_decorations():
        R.run_program(spec, [], t3=False)
    for spec in unsupported_specs():
        g = [[([{'i': '4'}], [], 'pos')], [([], [], 'pos')]]
        R.run_program(spec, g, t3=False)
    for spec in boundary_specs():
        groups = gen_calls(rng, spec['sig'], spec['ptypes'], 2)
        R.run_program(spec, groups)
    # the stated asymmetry and non-conformant calls: T2 only
    asym = spec_of({'style': 'wrapped', 'params': ['s', 'k'], 'bareArg': None, 'returns': {'many': 2}}, ['str', 'str'],
                   ['str', 'str'], {'k': 'pick', 'idx': [0, 1], 'many': True}, 'asym')
    R.run_program(asym, [[([{'s': 'zobaaa'}], [['s', None]], 'kw-none-over-positional')],
                         [([{'s': 'zobaaa'}], [['s', {'s': 'hobaa'}]], 'kw-over-positional')],
                         [([{'s': 'a'}, {'s': 'b'}, {'s': 'c'}], [], 'too-many-positional')],
                         [([{'s': 'a'}, {'s': 'b'}], [['k', None], ['s', None]], 'kw-none-over-positional')]], t3=False)
    # how the decorator reads _body_style / _soap_body_style (exhaustive over the spellings below)
    from spyne import decorator as _deco
    for b in (None, 'wrapped', 'bare', 'out_bare', 'Bare', 'rpc', 'document', ''):
        for sb in (None, 'document', 'rpc', 'Document', 'wrapped', ''):
            kparams = {}
            if b is not None:
                kparams['_body_style'] = b
            if sb is not None:
                kparams['_soap_body_style'] = sb
            try:
                impl = {'ok': _deco._validate_body_style(kparams)}
            except ValueError:
                impl = {'error': 'ValueError'}
            except Exception as e:
                impl = {'error': type(e).__name__}
            R.add({'op': 'style', 'body_style': b, 'soap_body_style': sb}, impl)
    for spec, calls in boundary_histories():
        R.run_history(spec, calls)
    n_sig = 8000 if ctx.thorough else 1000
    import gc
    gc.disable()        # every program creates classes (cycles); collect at chosen points instead of ever more often
    kinds = ['echo', 'echo', 'echo', 'const', 'const', 'none', 'ignored', 'fault', 'error', 'junk', 'gen']
    for i in range(n_sig):
        kind = rng.choice(kinds)
        if kind == 'gen':
            sig, ptypes, rtypes = gen_sig(rng, style=rng.choice(['wrapped', 'out_bare', 'bare']), nret=1)
            rtypes = ['iter']
            sig['returns'] = ret_one('iter')
        elif kind == 'junk':
            sig, ptypes, rtypes = gen_sig(rng, nret=0)
        else:
            sig, ptypes, rtypes = gen_sig(rng)
        script = gen_script(rng, sig, ptypes, rtypes, recv_types_of(sig, ptypes), kind)
        spec = spec_of(sig, ptypes, rtypes, script, 'g%d' % i, with_ctx=rng.random() < 0.3, explicit_style=rng.random() < 0.2)
        groups = gen_calls(rng, sig, ptypes, 2 if not ctx.thorough else 3)
        R.run_program(spec, groups)
        if i % 3 == 1:
            # the same signature decorated with renaming / metadata options, through a protocol-less NullServer app, ...
            ospec = dict(spec, name='o%d' % i, opts=gen_opts(rng, sig, i))
            R.run_program(ospec, groups[:1])
        if i % 5 == 2 and sig['style'] != 'bare' and kind not in ('gen', 'junk'):
            # a member method (@mrpc): `self` travels as the first argument, the class respawns it
            m = gen_member(rng, i)
            msig = dict(sig, params=['self'] + [p for p in sig['params'] if p != 'self'], member=m)
            mptypes = [m['cls']] + ptypes
            if rng.random() < 0.3:
                msig['params'] = msig['params'] + ['other_']      # another instance of the same class (SelfReference)
                mptypes = mptypes + [m['cls']]
            mrtypes = rtypes
            if m['self_ref'] and kind == 'echo' and rng.random() < 0.6:
                mrtypes = [m['cls']]                          # `_returns=SelfReference`: the method returns its own instance
                msig['returns'] = ret_one(m['cls'])
            mscript = gen_script(rng, msig, mptypes, mrtypes, mptypes, kind)
            mspec = spec_of(msig, mptypes, mrtypes, mscript, 'mm%d' % i, with_ctx=rng.random() < 0.5)
            R.run_program(mspec, gen_calls(rng, msig, mptypes, 2))
        if i % 4 == 0 and kind != 'gen':
            # the same method with 0..2 auxiliary companions, called repeatedly on one kept function object
            hspec = dict(spec, name='h%d' % i, auxs=gen_auxs(rng, sig, ptypes, rng.choice([0, 1, 1, 2])))
            R.run_history(hspec, history_of(rng, groups, rng.choice([2, 3, 4])))
        if i % 250 == 249:
            gc.collect()
            gc.freeze()
    gc.enable()

    # ---- compare with the model
    answers = ctx.model([q for q, _ in R.Q])
    for (q, impl), mod in zip(R.Q, answers):
        if 'driver_error' in mod:
            raise core.Infra('driver error: %r on %r' % (mod, q))
        if q['op'] in ('null.call', 'wire.call', 'wire.aux') and impl.get('recv') is None:
            # the function was not called on the implementation: compare the outcome only
            mod = dict(mod, recv=None) if 'ok' not in mod.get('recv', {}) else mod
        if q['op'] == 'null.seq':
            mod = {'steps': [dict(m, recv=None) if (i.get('recv') is None and 'ok' not in m.get('recv', {})) else m
                             for m, i in zip(mod.get('steps', []), impl['steps'])]}
        if mod != impl:
            ctx.disagree(q['op'] + (':' + q['proto'] if 'proto' in q else ''), q, impl, mod)
    ctx.cov['t3_failures'] = R.t3_fail
    ctx.cov['rule'] = ('cases = (signature, scripted body, call) triples: hand-written corners (the six calls of '
                       'test_null_server.py, every body style x {no, one, many} return values x {value, Ignored, fault, '
                       'error, generator, undeclared return}) and seeded random signatures (style, 0..5 arguments of '
                       'int/str/bool/complex/nested complex/member-less complex/array, 0..4 return values of the same types); each argument tuple is passed '
                       'positionally, by keyword, split, split without the Nones, short, with an unknown keyword; '
                       'every pos/kw/split call is also sent through XmlDocument, Soap11 and JsonDocument. '
                       'Every 4th signature is also published with 0..2 auxiliary companions (own return declaration and '
                       'body, one may raise) and called 2..4 times on ONE kept function object (long call first, then '
                       'shorter ones), each step also on a fresh proxy, on a twin without companions and over the three '
                       'wire paths. '
                       'distinct = distinct canonical (op, signature, script, call[, protocol]); all are non-trivial')


# ------------------------------------------------------------------------------------ replay
def replay(ctx, obj):
    """re-execute a single recorded case on the implementation and on the model"""
    E = env()
    print('replay of', obj.get('what'))
    spec = obj.get('spec')
    if not spec:
        print(json.dumps({k: obj[k] for k in obj if k in ('broken_theorems', 'broken_correspondence', 'disagreements')}, indent=1)[:6000])
        return 0
    try:
        ctx.write_generated('Facts18.lean', facts_lean(measure_facts(E)))
    except Exception as e:
        print('facts not regenerated:', e)
    prog = Program(E, spec)
    pos, kw = obj.get('pos', []), obj.get('kw', [])
    print('signature:', json.dumps(spec['sig']), 'script:', json.dumps(spec['script']))
    print('call     : pos=%s kw=%s' % (json.dumps(pos), json.dumps(kw)))
    recv, out = prog.call_null(pos, kw)
    print('NullServer        : received=%s result=%s' % (json.dumps(recv), json.dumps(out)))
    bad = 0
    op = obj.get('op')
    if op == 'kw-vs-pos':
        want = obj.get('positional')
        same = [recv, out] == want
        bad += not same
        print('positional (recorded): received=%s result=%s  %s' % (json.dumps(want[0]), json.dumps(want[1]),
                                                                   'same' if same else 'DIFFERS'))
    elif op == 'fault-direct':
        bad += out != obj.get('want')
        print('expected          :', json.dumps(obj.get('want')), 'same' if out == obj.get('want') else 'DIFFERS')
    elif op in ('history', 'aux-result'):
        calls = obj.get('calls') or [[pos, kw]]
        prog2 = Program(E, spec)
        for n, (p_, k_) in enumerate(calls):
            h = prog2.call_null(p_, k_, held=True)
            haux = prog2.aux_canon()
            fr = prog2.call_null(p_, k_)
            same = (h == fr and haux == prog2.aux_canon())
            bad += (op == 'history' and not same)
            print('step %d pos=%s kw=%s' % (n, json.dumps(p_), json.dumps(k_)))
            print('   kept function object : received=%s result=%s aux=%s' % (json.dumps(h[0]), json.dumps(h[1]), json.dumps(haux)))
            print('   fresh function object: received=%s result=%s  %s' % (json.dumps(fr[0]), json.dumps(fr[1]), 'same' if same else 'DIFFERS'))
            if spec.get('auxs'):
                tw = Program(E, dict(spec, auxs=[])).call_null(p_, k_)
                bad += (op == 'aux-result' and tw != fr)
                print('   without companions   : received=%s result=%s  %s' % (json.dumps(tw[0]), json.dumps(tw[1]), 'same' if tw == fr else 'DIFFERS'))
        try:
            q = {'op': 'null.seq', 'sig': spec['sig'], 'script': spec['script'], 'auxs': spec.get('auxs') or [],
                 'calls': [{'pos': p_, 'kw': k_} for p_, k_ in calls]}
            print('model (kept object)   :', json.dumps(ctx.model([q])[0]))
        except Exception as e:
            print('model unavailable:', e)
        return 1 if bad else 0
    elif op == 'ignored-direct':
        want = {'ok': {'ig': spec['script']['v']}}
        bad += out != want
        print('expected          :', json.dumps(want), 'same' if out == want else 'DIFFERS')
    protos = obj.get('protos') or ([obj['proto']] if obj.get('proto') else list(PROTOS))
    try:
        facts = measure_facts(E)
    except Exception:
        facts = {}
    for p in protos:
        exp = wire_view(spec['sig'], out, facts.get(p))
        keep = {}
        wrecv, wout = prog.call_wire(p, pos, kw, keep)
        ok = (wout == exp and wrecv == recv)
        if op in ('null-vs-wire', 'fact-witness'):
            bad += not ok
        print('wire %-5s        : received=%s result=%s  %s' % (p, json.dumps(wrecv), json.dumps(wout), 'agrees' if ok else 'DIFFERS'))
        if not ok:
            print('    request :', keep.get('request', '')[:600])
            print('    response:', keep.get('response', '')[:600])
    if op == 'null-vs-wsgi':
        for p in protos:
            keep = {}
            hrecv, hout = prog.call_wsgi(p, pos, kw, keep)
            okh = hout == wire_view(spec['sig'], out, facts.get(base_of(p))) and hrecv == recv
            bad += not okh
            print('WsgiApplication %-5s: received=%s result=%s  %s' % (p, json.dumps(hrecv), json.dumps(hout), 'agrees' if okh else 'DIFFERS'))
            print('    status  :', keep.get('status'), ' response:', keep.get('response', '')[:400])
    q = {'op': 'null.call', 'sig': spec['sig'], 'script': spec['script'], 'pos': pos, 'kw': kw}
    try:
        print('model NullServer  :', json.dumps(ctx.model([q])[0]))
        for p in protos:
            print('model wire %-5s  :' % p, json.dumps(ctx.model([dict(q, op='wire.call', proto=p)])[0]))
    except Exception as e:
        print('model unavailable:', e)
    return 1 if bad else 0
