"""C15 — deriving a model never changes another model; field order is deterministic.

T1: behaviour switches (Mandatory(Array) rule, `_variants` cell ownership, ordered class namespace), constants and
    the attribute tables of the base classes, measured on the real classes -> SpyneModel/Generated/Facts15.lean
Proof: Props/C15.lean (instantiated with the regenerated facts)
T2: the same seeded history of derivation/evolution operations is applied to real spyne classes and to the Lean
    heap model; after every step the deep snapshot of every pooled model is compared (as deltas)
T3: the property itself on the real code: after every step every class known before the step (pool + everything
    reachable from it) must have an identical shallow observation (all public attributes, field table, verdicts on
    probe values, own schema fragment) unless the operation is allowed to change it; new types carry exactly the
    requested constraints; appended fields reach every variant; field order = declaration order, parents first, in
    type info, schema sequence and protocol output, also under other hash seeds (fresh interpreters).
"""
import decimal
import gc
import json
import os
import subprocess
import sys

from . import core

D = decimal.Decimal
INF = D('inf')


# ------------------------------------------------------------------------------------ impl access
def impl_env():
    from spyne.model import complex as cx
    from spyne.model import primitive as P
    from spyne.model import binary as B
    from spyne.model import ModelBase
    return cx, P, B, ModelBase


# base classes every history starts with: (name, attribute path)
BASES = ['Integer', 'Unicode', 'Decimal', 'Integer32', 'UnsignedInteger8', 'UnsignedInteger', 'Boolean', 'ByteArray']
# roots that are not pooled but are part of the model's initial heap
ROOTS = ['ComplexModel', 'Array', 'Iterable', 'XmlAttribute']

# `type_attrs` of the protocol objects every history has (customize(prot=p)); plain attribute names only
PROT_SPECS = [{}, {'empty_is_none': True}, {'min_occurs': 1, 'nillable': False}]

# attributes the model tracks (the "public constraints" of a type)
MODEL_KEYS = ['min_occurs', 'max_occurs', 'nillable', 'default', 'values', 'sub_name', 'exc', 'exc_table', 'exc_db',
              'validate_on_assignment', 'read_only', 'min_len', 'max_len', 'pattern', 'ge', 'gt', 'le', 'lt',
              'total_digits', 'fraction_digits', 'max_str_len', 'min_bound', 'max_bound', 'encoding', 'foo',
              'primary_key', 'index', 'unique', '_pattern_re', 'empty_is_none', 'order', 'sub_ns']
# attributes that every customisation (re)creates for its own bookkeeping; never part of the observation
BOOKKEEPING = {'parent_variant', 'child_attrs', 'child_attrs_all', 'child_attrs_noexc', 'sqla_mapper_args', 'methods'}


def base_class(name):
    cx, P, B, _ = impl_env()
    if name == 'ByteArray':
        return B.ByteArray
    if hasattr(P, name):
        return getattr(P, name)
    return getattr(cx, name)


def kind_of(cls):
    """python base family of a class -> the model's Kind"""
    cx, P, B, ModelBase = impl_env()
    if issubclass(cls, cx.XmlAttribute):
        return 'xmlattr'
    if issubclass(cls, cx.Iterable):
        return 'iterable'
    if issubclass(cls, cx.Array):
        return 'array'
    if issubclass(cls, cx.ComplexModelBase):
        return 'complex'
    if issubclass(cls, P.Decimal):
        return 'number'
    if issubclass(cls, P.Unicode):
        return 'unicode'
    if issubclass(cls, B.ByteArray):
        return 'bytes'
    return 'simple'


def is_complex(cls):
    return kind_of(cls) in ('complex', 'array', 'iterable')


# ------------------------------------------------------------------------------------ canonical values
def aval(v):
    """canonical JSON form of an attribute value (the model's AVal)"""
    if v is None:
        return None
    if v is True or v is False:
        return v
    if isinstance(v, int):
        return {'i': str(v)}
    if isinstance(v, (D, float)):
        if v == INF:
            return {'inf': True}
        if v == -INF:
            return {'ninf': True}
        if v == int(v):
            return {'i': str(int(v))}
        return {'s': 'dec:' + str(v)}
    if isinstance(v, str):
        return {'s': v}
    if isinstance(v, (set, frozenset)):
        if not v:
            return {'eset': True}
        return {'l': [aval(x) for x in sorted(v, key=repr)]}
    if isinstance(v, (list, tuple)):
        return {'l': [aval(x) for x in v]}
    return {'s': 'obj:' + type(v).__name__}


def unaval(j):
    if j is None or j is True or j is False:
        return j
    if 'i' in j:
        return int(j['i'])
    if 'inf' in j:
        return INF
    if 'ninf' in j:
        return -INF
    if 's' in j:
        return j['s']
    if 'eset' in j:
        return set()
    if 'l' in j:
        return [unaval(x) for x in j['l']]
    raise ValueError(j)


_ABSENT = object()
_EITHER = object()


def tname(cls):
    _, _, _, ModelBase = impl_env()
    t = cls.__type_name__
    if t is ModelBase.Empty:
        return {'empty': True}
    if t is None:
        return {'s': cls.__name__}
    return {'s': t}


def attrs_of(cls, keys=MODEL_KEYS):
    out = []
    for k in keys:
        v = getattr(cls.Attributes, k, _ABSENT)
        if v is not _ABSENT:
            if k == '_pattern_re' and v is not None:
                v = v.pattern       # the hidden compiled regex the `pattern` property setter stores
            out.append([k, aval(v)])
    return out


# verdict probes shared with the model: native values and string lengths
PROBE_INTS = [-6, -5, -4, -1, 0, 1, 2, 3, 4, 5, 10, 99, 100, 101, 127, 128, 254, 255, 256, 299, 300, 301,
              2147483647, 2147483648, 2147483649]
PROBE_LENS = [0, 1, 2, 3, 4, 5, 6, 9, 10, 11, 12, 20, 21]
PROBE_STRS = ['', 'a', 'aa', 'ab', 'b', 'abc', '7', '42', 'A1']


def verdicts(cls):
    """validation verdicts the model reproduces from the attributes (T2 part)"""
    k = kind_of(cls)
    out = [bool(cls.validate_native(cls, None)), bool(cls.validate_string(cls, None))]
    if k == 'number':
        out += [bool(cls.validate_native(cls, i)) for i in PROBE_INTS]
        out += [bool(cls.validate_string(cls, '1' * n)) for n in PROBE_LENS]
    elif k == 'unicode':
        out += [bool(cls.validate_string(cls, 'a' * n)) for n in PROBE_LENS]
        out += [bool(cls.validate_native(cls, s)) for s in PROBE_STRS]
    return out


def snap(cls, depth=0):
    """deep, identity-free snapshot of a model: what T2 compares with the Lean model"""
    if depth > 40:
        return 'missing'            # a cyclic type graph (never generated; the model gives up at the same depth)
    k = kind_of(cls)
    o = {'kind': k, 'tn': tname(cls), 'ns': cls.__namespace__, 'attrs': attrs_of(cls), 'v': verdicts(cls)}
    sca = cls.Attributes.sqla_column_args
    o['col'] = None if sca is None else [[a, aval(v)] for a, v in sca[-1].items()]
    # the classes whose class statement extends this one (customised variants see the list of their original)
    subs = vars(cls.Attributes).get('_subclasses') if (is_complex(cls) and cls.__orig__ is None) else None
    o['subs'] = None if subs is None else [tname(x) for x in subs]
    orig = cls.__dict__.get('__orig__', None) if k == 'xmlattr' else cls.__orig__
    o['orig'] = None if orig is None else tname(orig)
    if k == 'xmlattr':
        o['fields'] = [['type', snap(cls.type, depth + 1)]]
        o['ext'] = None
        o['flat'] = []
        return o
    ext = cls.__extends__
    o['ext'] = None if ext is None else snap(ext, depth + 1)
    if is_complex(cls):
        o['fields'] = [[n, snap(t, depth + 1)] for n, t in cls._type_info.items()]
        o['flat'] = list(cls.get_flat_type_info(cls).keys())
    else:
        o['fields'] = []
        o['flat'] = []
    return o


# ------------------------------------------------------------------------------------ the implementation side of a history
class Crash(Exception):
    pass


class Impl:
    """a pool of real spyne classes and the interpreter of history operations on them"""

    def __init__(self, tag='H'):
        self.pool = [base_class(n) for n in BASES]
        self.tag = tag
        from spyne.protocol import ProtocolBase
        self.prots = []
        for spec in PROT_SPECS:
            p = ProtocolBase()
            p.type_attrs = dict(spec)
            self.prots.append(p)
        self.registry = {}      # id -> class: everything ever reachable from the pool (kept alive)
        self.created = 0
        self.handed = None
        self.walk()

    # ---- reachability
    def neighbours(self, c):
        out = []
        ti = c.__dict__.get('_type_info') if isinstance(c.__dict__.get('_type_info', None), dict) else getattr(c, '_type_info', None)
        if isinstance(ti, dict):
            out += list(ti.values())
        for a in ('__extends__', '__orig__', 'type'):
            v = getattr(c, a, None)
            if isinstance(v, type):
                out.append(v)
        out += [b for b in c.__bases__ if b.__dict__.get('__module__') == 'c15hist']
        var = getattr(c.Attributes, '_variants', None)
        if var is not None and c.__dict__.get('__module__') == 'c15hist':
            # (the variants of the library's own roots - every Array ever made - are not part of this history)
            out += [v for v in var.keys() if v.__dict__.get('__module__') == 'c15hist' or v.__orig__ is not None and v.__orig__.__module__ == 'c15hist']
        return out

    def walk(self):
        todo = list(self.pool)
        seen = set()
        while todo:
            c = todo.pop()
            if id(c) in seen:
                continue
            seen.add(id(c))
            self.registry[id(c)] = c
            todo += [n for n in self.neighbours(c) if id(n) not in seen]

    def reaches(self, src, dst):
        """does `src` (transitively: fields, base, wrapped type) use `dst` or any other variant of dst's original?
        (appending such a type to dst would build a recursive type; histories stay acyclic)"""
        root = lambda c: getattr(c, '__orig__', None) or c
        seen, todo = set(), [src]
        while todo:
            c = todo.pop()
            if root(c) is root(dst):
                return True
            if id(c) in seen:
                continue
            seen.add(id(c))
            ti = getattr(c, '_type_info', None)
            if isinstance(ti, dict):
                todo += list(ti.values())
            for a in ('__extends__', 'type'):
                v = getattr(c, a, None)
                if isinstance(v, type):
                    todo.append(v)
        return False

    # ---- operations
    def kw(self, j):
        return {k: unaval(v) for k, v in j}

    def apply(self, op):
        """returns the new class (appended to the pool) or None; raises Crash(class name)"""
        cx, P, B, ModelBase = impl_env()
        k = op['k']
        try:
            new = None
            if k == 'cust':
                src = self.pool[op['src']]
                kw = self.kw(op['kw'])
                if op.get('ca') is not None:
                    kw['child_attrs'] = {n: self.kw(v) for n, v in op['ca']}
                if op.get('caa') is not None:
                    kw['child_attrs_all'] = self.kw(op['caa'])
                if op.get('prot') is not None:
                    kw['prot'] = self.prots[op['prot']]
                if op.get('nx') is not None:
                    kw['child_attrs_noexc'] = {n: self.kw(v) for n, v in op['nx']}
                if op.get('sa') is not None:
                    kw['serializer_attrs'] = self.kw(op['sa'])
                import copy as _copy
                self.handed = (kw, _copy.deepcopy({a: b for a, b in kw.items() if isinstance(b, dict)}))
                if kind_of(src) == 'xmlattr' and op.get('getitem'):
                    new = src[kw]            # ModelBaseMeta.__getitem__
                elif is_complex(src) or kind_of(src) == 'xmlattr':
                    new = src.customize(**kw)
                elif op.get('pos'):
                    # Decimal(total_digits[, fraction_digits]) / Unicode(max_len): the positional spellings
                    kw = dict(kw)
                    if kind_of(src) == 'number':
                        args = [kw.pop('total_digits')] + ([kw.pop('fraction_digits')] if op['pos'] == 2 else [])
                        if op['pos'] == 1:
                            kw.pop('fraction_digits')
                    else:
                        args = [kw.pop('max_len')]
                    new = src(*args, **kw)
                else:
                    new = src(**kw)          # "calling a primitive with constraints"
            elif k == 'array':
                src = self.pool[op['src']]
                kw = self.kw(op['kw'])
                if op.get('member') is not None:
                    kw['member_name'] = op['member']
                if op.get('flat'):
                    kw['wrapped'] = False
                new = (cx.Iterable if op.get('iter') else cx.Array)(src, **kw)
            elif k == 'mand':
                new = cx.Mandatory(self.pool[op['src']])
            elif k == 'sub':
                from spyne.util.odict import odict
                body = odict()
                if op.get('ns') is not None:
                    body['__namespace__'] = op['ns']
                for n, t in op['fields']:
                    body[n] = self.pool[t]
                base = cx.ComplexModel if op.get('base') is None else self.pool[op['base']]
                body['__module__'] = 'c15hist'
                if op.get('asMixin'):
                    body['__mixin__'] = True
                if op.get('attrs') is not None:
                    # class K(Base):  class Attributes(Base.Attributes): <assignments>
                    body['Attributes'] = type(base.Attributes)('Attributes', (base.Attributes,), dict(self.kw(op['attrs'])))
                bases = tuple(self.pool[m] for m in op.get('mixins') or ()) + (base,)
                if op.get('produce'):
                    new = cx.ComplexModel.produce(op['ns'], op['name'], [(n, self.pool[t]) for n, t in op['fields']])
                    new.__module__ = 'c15hist'
                else:
                    new = cx.ComplexModelMeta(op['name'], bases, body)
            elif k == 'append':
                self.pool[op['c']].append_field(op['name'], self.pool[op['t']])
            elif k == 'insert':
                self.pool[op['c']].insert_field(op['idx'], op['name'], self.pool[op['t']])
            elif k == 'xmlattr':
                new = cx.XmlAttribute(self.pool[op['src']])
            elif k == 'xcust':
                src = self.pool[op['src']]
                kw = xkw_build(self, op['x'])
                kw.update(self.kw(op.get('kw') or []))
                how = op.get('how')
                if how == 'store_as':
                    new = src.store_as('json')
                elif how == 'novalidate_freq':
                    new = src.novalidate_freq()
                elif is_complex(src) or kind_of(src) == 'xmlattr':
                    new = src.customize(**kw)
                else:
                    new = src(**kw)
            else:
                raise core.Infra('unknown op %r' % (op,))
        except core.Infra:
            raise
        except Exception as e:
            self.walk()
            raise Crash(type(e).__name__)
        if new is not None:
            self.pool.append(new)
            self.created += 1
        self.walk()
        return new


# ------------------------------------------------------------------------------------ T3: shallow observation of one class
def cval(v):
    if isinstance(v, dict):
        return {'d': sorted([[repr(k) if not isinstance(k, str) else k, cval(x)] for k, x in v.items()], key=lambda p: p[0])}
    if isinstance(v, type):
        return {'cls': id(v)}
    if isinstance(v, (list, tuple)):
        return {'l': [cval(x) for x in v]}
    if callable(v):
        return {'s': 'callable'}
    return aval(v)


RICH_NATIVE = [None, -1, 0, 1, 5, 10, 127, 128, 255, 256, 2 ** 31 - 1, 2 ** 31, D('1.5'), 10 ** 30]
RICH_STR = ['', 'a', 'ab', 'abc', 'A1', 'abcde', '12345', 'a' * 10, 'a' * 12, 'a' * 2000]


def rich_verdicts(c):
    k = kind_of(c)
    out = [bool(c.validate_native(c, None)), bool(c.validate_string(c, None))]
    try:
        if k == 'number':
            out += [bool(c.validate_native(c, v)) for v in RICH_NATIVE[1:]]
            out += [bool(c.validate_string(c, s)) for s in RICH_STR]
        elif k == 'unicode':
            out += [bool(c.validate_native(c, s)) for s in RICH_STR]
            out += [bool(c.validate_string(c, s)) for s in RICH_STR]
    except Exception as e:          # a constraint the probe cannot be compared with (e.g. ge='x')
        out.append('exc:' + type(e).__name__)
    return out


def expected_flat(c):
    """flat field order computed from first principles: parents first, then own, a redeclared name keeps its place"""
    chain = []
    x = c
    while x is not None:
        chain.append(x)
        x = getattr(x, '__extends__', None)
    keys = []
    for x in reversed(chain):
        for n in x._type_info.keys():
            if n not in keys:
                keys.append(n)
    return keys


def shallow(c):
    A = c.Attributes
    attrs = {}
    for k in dir(A):
        if k.startswith('_') or k in BOOKKEEPING:
            continue
        attrs[k] = cval(getattr(A, k))
    attrs['nullable'] = cval(A.nullable)
    o = {'attrs': attrs, 'doc': c.Annotations.doc, 'tn': tname(c), 'ns': c.__namespace__, 'verd': rich_verdicts(c)}
    for a in ('__extends__', '__orig__', 'type'):
        v = getattr(c, a, None)
        o[a] = id(v) if isinstance(v, type) else None
    ti = getattr(c, '_type_info', None)
    if isinstance(ti, dict):
        o['ti'] = [[n, id(t)] for n, t in ti.items()]
        if is_complex(c):
            o['flat'] = list(c.get_flat_type_info(c).keys())
            o['ids'] = [n for n, _ in c.get_identifiers()]           # primary-key fields
            sub = c.Attributes._subclasses
            o['subclasses'] = None if sub is None else [id(x) for x in sub]
            # (read past the memo: it is not invalidated when an *empty* class is subclassed - a staleness of the
            # cache, not of the models)
            memo = getattr(getattr(impl_env()[0].ComplexModelBase.__dict__['get_subclasses'], '__func__', None), 'memo', None)
            if memo is not None:
                memo.clear()
            o['get_subclasses'] = [id(x) for x in c.get_subclasses()]
    if hasattr(c, 'ancestors'):
        o['ancestors'] = [id(x) for x in c.ancestors()]
    return o


class SchemaObs:
    """own schema fragment of a complex class, rendered by the real XmlSchema generator; the generator assigns
    namespaces/type names to the classes it visits, which is undone afterwards (observation must not be a step)"""
    KEYS = ('__namespace__', '__type_name__', '_type_info')

    def __init__(self, impl):
        self.impl = impl

    def canon(self, el, anon=()):
        """element tree with QName-valued attributes resolved to {uri}local (prefix spellings do not matter);
        references to types that had no name before this rendering are masked"""
        attrs = []
        for k, v in sorted(el.attrib.items()):
            if k in ('type', 'base', 'ref') and ':' in v:
                p, l = v.split(':', 1)
                v = '{%s}%s' % (el.nsmap.get(p), l)
                if v in anon:
                    v = '{anonymous}'
            attrs.append([k, v])
        return [el.tag, attrs, [self.canon(ch, anon) for ch in el if isinstance(ch.tag, str)]]

    def render(self, c):
        """-> (fragment with the names of anonymous types masked, fragment as published)"""
        from spyne.util.xml import get_schema_documents
        Empty = impl_env()[3].Empty
        saved = [(x, {k: x.__dict__[k] for k in self.KEYS if k in x.__dict__}) for x in self.impl.registry.values()]
        try:
            try:
                docs = get_schema_documents([c], 'c15.tns')
            except Exception as e:
                return 'exc:' + type(e).__name__, 'exc:' + type(e).__name__
            anon = set()
            for x, d in saved:
                if d.get('__type_name__', None) is Empty and isinstance(x.__dict__.get('__type_name__'), str):
                    anon.add('{%s}%s' % (x.__dict__.get('__namespace__', x.__namespace__), x.__dict__['__type_name__']))
            ns, tn = c.get_namespace(), c.get_type_name()
            masked, plain = [], []
            for pref, doc in sorted(docs.items()):
                if doc.get('targetNamespace') != ns:
                    continue
                for el in doc:
                    if el.get('name') == tn and el.tag.endswith('Type'):
                        masked.append(json.dumps(self.canon(el, anon)))
                        plain.append(json.dumps(self.canon(el)))
            return '\n'.join(masked), '\n'.join(plain)
        finally:
            for x, d in saved:
                for k in self.KEYS:
                    if k in d:
                        if x.__dict__.get(k, _ABSENT) is not d[k]:
                            setattr(x, k, d[k])
                    elif k in x.__dict__:
                        try:
                            delattr(x, k)
                        except AttributeError:
                            pass
            self.impl.walk()


# ------------------------------------------------------------------------------------ keywords outside the Lean model (T3 only)
def _x_upper(v):
    return v


def _x_lower(v):
    return v


def _x_factory():
    return 7


X_KINDS = {'parser': ('any',), 'in_cast': ('any',), 'sanitizer': ('any',), 'out_cast': ('any',), 'logged': ('any',),
           'default_factory': ('simple',), 'values_dict': ('unicode',), 'pa': ('any',), 'prot_attrs': ('any',),
           'fk': ('simple',), 'store_as': ('complex',), 'encoding': ('bytes',)}


def xkw_build(impl, names):
    """the real keyword arguments for the symbolic names of an `xcust` operation"""
    from spyne.protocol import ProtocolBase
    kw = {}
    for n in names:
        if n in ('parser', 'in_cast'):
            kw[n] = _x_upper
        elif n in ('sanitizer', 'out_cast'):
            kw[n] = _x_lower
        elif n == 'logged':
            kw[n] = False
        elif n == 'default_factory':
            kw[n] = _x_factory
        elif n == 'values_dict':
            kw[n] = {'a': 'letter a', 'b': 'letter b'}
        elif n in ('pa', 'prot_attrs'):
            kw[n] = {impl.prots[1]: {'min_occurs': 1}, (ProtocolBase, impl.prots[2]): {'exc': True}}
        elif n == 'fk':
            kw[n] = 'c15_table.id'
        elif n == 'store_as':
            kw[n] = 'json'
        elif n == 'encoding':
            kw[n] = 'hex'
    return kw


def xkw_check(impl, new, src, names, report):
    """exactly what was asked for, in a container of the derived class's own"""
    from spyne.protocol import ProtocolBase
    A, S = new.Attributes, src.Attributes
    for n in names:
        if n in ('parser', 'in_cast') and A.parser is not _x_upper:
            report('exact:x:parser', 'parser=f requested, the derived class has %r' % (A.parser,))
        if n in ('sanitizer', 'out_cast') and A.sanitizer is not _x_lower:
            report('exact:x:sanitizer', 'sanitizer=f requested, the derived class has %r' % (A.sanitizer,))
        if n == 'logged' and A.logged is not False:
            report('exact:x:logged', 'logged=False requested, the derived class has %r' % (A.logged,))
        if n == 'default_factory' and A.default_factory is not _x_factory:
            report('exact:x:default_factory', 'default_factory=f requested, the derived class has %r' % (A.default_factory,))
        if n == 'values_dict' and not (list(A.values) == ['a', 'b'] and dict(A.values_dict) == {'a': 'letter a', 'b': 'letter b'}):
            report('exact:x:values_dict', 'values_dict requested, values=%r values_dict=%r' % (A.values, A.values_dict))
        if n in ('pa', 'prot_attrs'):
            pa = A.prot_attrs
            ok = pa is not None and pa.get(impl.prots[1]) == {'min_occurs': 1} and pa.get(impl.prots[2]) == {'exc': True} \
                and pa.get(ProtocolBase) == {'exc': True}
            if not ok:
                report('exact:x:prot_attrs', 'prot_attrs requested, the derived class has %r' % (pa,))
            if pa is not None and pa is S.prot_attrs:
                report('alias:prot_attrs', 'the prot_attrs dict of the derived class is the one of its source')
        if n == 'fk':
            from sqlalchemy.schema import ForeignKey
            t = A.sqla_column_args[0]
            if not (len(t) == len((S.sqla_column_args or ((), {}))[0]) + 1 and isinstance(t[-1], ForeignKey)):
                report('exact:x:foreign_key', 'foreign_key requested, column args are %r' % (t,))
        if n == 'store_as':
            from spyne.model import json as pssm_json
            if not isinstance(A.store_as, pssm_json):
                report('exact:x:store_as', "store_as='json' requested, the derived class has %r" % (A.store_as,))
        if n == 'encoding':
            from spyne.model.binary import BINARY_ENCODING_HEX
            if A.encoding != BINARY_ENCODING_HEX or new.__type_name__ != 'hexBinary':
                report('exact:x:encoding', "encoding='hex' requested: encoding=%r type name %r" % (A.encoding, new.__type_name__))


def gen_xop(rng, impl):
    pool = impl.pool
    kinds = [kind_of(c) for c in pool]
    i = rng.randrange(len(pool))
    k = kinds[i]
    fam = 'complex' if k in ('complex', 'array', 'iterable') else ('simple' if k in ('number', 'unicode', 'simple', 'bytes') else k)
    names = [n for n, ks in X_KINDS.items() if 'any' in ks or fam in ks or k in ks]
    if k == 'xmlattr':
        names = [n for n in names if n not in ('fk',)]
    op = {'k': 'xcust', 'src': i, 'x': rng.sample(names, rng.choice([1, 1, 2])), 'kw': gen_kw(rng, 'any', n=rng.choice([0, 1]), for_child=True)}
    if 'fk' in op['x'] and 'pk' in dict(op['kw']):
        pass
    if fam == 'complex' and k == 'complex' and rng.random() < 0.25:
        op['how'] = rng.choice(['store_as', 'novalidate_freq'])
        op['x'] = ['store_as'] if op['how'] == 'store_as' else []
        op['kw'] = []
    return op


# ------------------------------------------------------------------------------------ history generator
COMMON_KW = {
    'min_occurs': [0, 1, 2], 'max_occurs': [1, 2, 5, 'unbounded', INF, 'inf'], 'nillable': [True, False],
    'nullable': [True, False], 'sub_name': ['alt', 'other'], 'exc': [True, False],
    'exc_table': [True, False], 'voa': [True, False], 'validate_on_assignment': [True], 'read_only': [True],
    'foo': [1, 'bar'], '_private': [1], 'doc': ['some text'],
    # keywords the loop handles by writing into the sqla_column_args dict / plain database attributes
    'pk': [True], 'primary_key': [True, False], 'autoincrement': [True], 'onupdate': ['now'], 'server_default': ['x', '0'],
    'index': [True, 'btree'], 'unique': [True], 'sub_ns': ['ns.sub'], 'order': [0, 1, 2],
}
NUMBER_KW = {'ge': [-5, 0, 3, 100, 300], 'gt': [-5, 0, 3, 100, 255, 300], 'le': [-5, 0, 3, 100, 300, 2 ** 31],
             'lt': [-5, 0, 3, 100, 300], 'total_digits': [3, 10], 'fraction_digits': [0, 2, 12],
             'max_str_len': [5, 20], 'values': [[1, 2, 3], [0], []], 'default': [None, 0, 7]}
UNICODE_KW = {'min_len': [0, 1, 3], 'max_len': [2, 5, 10, INF], 'pattern': ['[a-z]+', 'a*', '[0-9]+', '[a-z]*', None],
              'values': [['a', 'b'], ['abc'], []], 'default': [None, 'x', 'abc']}
SIMPLE_TN = {'type_name': ['STn', 'Other']}
COMPLEX_KW = {'type_name': ['Ren', 'Ren2'], 'namespace': ['ns.a', 'ns.b']}
FIELD_NAMES = ['a', 'b', 'c', 'd', 'e', 'f', 'g']


def gen_kw(rng, kind, n=None, for_child=False):
    table = dict(COMMON_KW)
    if kind == 'number':
        table.update(NUMBER_KW)
    elif kind == 'unicode':
        table.update(UNICODE_KW)
    if kind in ('number', 'unicode', 'simple', 'bytes'):
        table.update(SIMPLE_TN)
    if kind in ('complex', 'array', 'iterable') and not for_child:
        table.update(COMPLEX_KW)
    if for_child:
        for k in ('doc', '_private'):
            table.pop(k, None)
    n = n if n is not None else rng.choice([0, 1, 1, 1, 2, 2, 3])
    keys = rng.sample(sorted(table), min(n, len(table)))
    return [[k, aval(rng.choice(table[k]))] for k in keys]


def flat_names(cls):
    names = []
    x = cls
    while x is not None:
        names += [n for n in x._type_info.keys() if n not in names]
        x = x.__extends__
    return names


def gen_op(rng, impl, step, serial):
    pool = impl.pool
    idx = list(range(len(pool)))
    kinds = [kind_of(c) for c in pool]
    simple = [i for i in idx if kinds[i] in ('number', 'unicode', 'simple', 'bytes')]
    cplx = [i for i in idx if kinds[i] == 'complex']
    arrs = [i for i in idx if kinds[i] in ('array', 'iterable')]
    w = [('cust_simple', 28), ('sub', 16 if step > 0 else 60), ('array', 10), ('mand', 10), ('xmlattr', 2)]
    if cplx:
        w += [('cust_complex', 16), ('append', 11), ('insert', 7)]
    if arrs:
        w += [('cust_array', 4)]
    r = rng.randrange(sum(x for _, x in w))
    for name, x in w:
        if r < x:
            break
        r -= x
    if name == 'cust_simple':
        i = rng.choice(simple + [j for j in idx if kinds[j] == 'xmlattr'][:1])
        k = kinds[i] if kinds[i] != 'xmlattr' else 'simple'
        kw = gen_kw(rng, k)
        derived = [j for j in simple if j >= len(BASES)]
        if derived and rng.random() < 0.45:
            # re-derive a facet the source already customised, with another value (depth >= 2)
            i = rng.choice(derived)
            k = kinds[i]
            kw = gen_kw(rng, k)
            own = vars(pool[i].Attributes)
            table = dict(NUMBER_KW if k == 'number' else UNICODE_KW if k == 'unicode' else {})
            again = [a for a in sorted(table) if a in own or '_' + a in own]
            for a in rng.sample(again, min(len(again), rng.choice([1, 1, 2]))):
                cur = getattr(pool[i].Attributes, a, None)
                other = [v for v in table[a] if cval(v) != cval(cur)]
                if other:
                    kw = [p for p in kw if p[0] != a] + [[a, aval(rng.choice(other))]]
        op = {'k': 'cust', 'src': i, 'kw': kw}
        if rng.random() < 0.15:
            op['prot'] = rng.randrange(len(PROT_SPECS))
            op['kw'] = [p for p in kw if p[0] not in ('type_name',)]
        elif kinds[i] == 'xmlattr' and rng.random() < 0.5:
            op['getitem'] = True
        elif k == 'number' and rng.random() < 0.12:
            # positional spelling: Decimal(td) means total_digits=td, fraction_digits=0; Decimal(td, fd)
            two = rng.random() < 0.5
            td, fd = rng.choice([3, 10]), (rng.choice([0, 2]) if two else 0)
            op['kw'] = [p for p in kw if p[0] not in ('total_digits', 'fraction_digits')] + \
                       [['total_digits', aval(td)], ['fraction_digits', aval(fd)]]
            op['pos'] = 2 if two else 1
        elif k == 'unicode' and rng.random() < 0.12:
            op['kw'] = [p for p in kw if p[0] != 'max_len'] + [['max_len', aval(rng.choice([2, 5, 10]))]]
            op['pos'] = 1
        return op
    if name in ('cust_complex', 'cust_array'):
        i = rng.choice(cplx if name == 'cust_complex' else arrs)
        op = {'k': 'cust', 'src': i, 'kw': gen_kw(rng, 'complex')}
        names = flat_names(pool[i])
        r = rng.random()
        if r < 0.45:
            cand = names + ['zz', rng.choice(FIELD_NAMES)]
            ks = rng.sample(cand, min(len(cand), rng.choice([1, 1, 2, 3])))
            op['ca'] = [[n, gen_kw(rng, 'any', n=rng.choice([1, 2]), for_child=True)] for n in dict.fromkeys(ks)]
        if 0.35 < r < 0.6:
            op['caa'] = gen_kw(rng, 'any', n=rng.choice([1, 1, 2]), for_child=True)
        if rng.random() < 0.15:
            op['prot'] = rng.randrange(len(PROT_SPECS))
        if name == 'cust_array' and rng.random() < 0.5:
            # serializer_attrs: the member is customised (alone: no child attributes next to it)
            op['sa'] = gen_kw(rng, 'any', n=rng.choice([1, 2]), for_child=True)
            op.pop('ca', None)
            op.pop('caa', None)
            return op
        if name == 'cust_complex' and rng.random() < 0.15:
            cand = names + ['zz', rng.choice(FIELD_NAMES)]
            ks = rng.sample(cand, min(len(cand), rng.choice([1, 2])))
            op['nx'] = [[n, gen_kw(rng, 'any', n=rng.choice([0, 1, 2]), for_child=True)] for n in dict.fromkeys(ks)]
        if r >= 0.78:
            # both dicts, a field name that does not exist yet, the same key with DIFFERENT values
            table = {'min_occurs': [0, 1, 2], 'max_occurs': [1, 2, 5], 'nillable': [True, False], 'sub_name': ['alt', 'other'],
                     'exc': [True, False], 'read_only': [True, False]}
            nm = rng.choice([n for n in FIELD_NAMES + ['later', 'zz'] if n not in names])
            caa, one = [], []
            for a in rng.sample(sorted(table), rng.choice([1, 2])):
                v1, v2 = rng.sample(table[a], 2)
                caa.append([a, aval(v1)])
                one.append([a, aval(v2)])
            op['caa'] = caa + gen_kw(rng, 'any', n=rng.choice([0, 1]), for_child=True)
            op['ca'] = [[nm, one]] + ([[rng.choice(names), gen_kw(rng, 'any', n=1, for_child=True)]] if names and rng.random() < 0.5 else [])
        return op
    if name == 'sub':
        nf = rng.choice([0, 1, 2, 2, 3, 3, 4])
        names = rng.sample(FIELD_NAMES, nf)
        fields = [[n, rng.choice(idx)] for n in names]
        base = None
        # (a customised class with own fields cannot be subclassed: AssertionError; one without is not modelled)
        def on_empty_base(c):
            # declared on a user class that had no fields then: its Attributes derive from that class's without it
            # being its base class (`__extends__` is None) - the known empty-base corner, not used as a base again
            for x in c.__mro__:
                if x.__dict__.get('__module__') == 'c15hist' and x.__dict__.get('__orig__') is None and \
                        x.__extends__ is None and any(b.__dict__.get('__module__') == 'c15hist' and
                                                      not b.__dict__.get('__mixin__') for b in x.__bases__):
                    return True
            return False
        cand = [i for i in cplx if (pool[i].__orig__ is None or len(pool[i]._type_info) > 0)
                and not getattr(pool[i], '__mixin__', False)       # (a mixin as only base: use 'mixins')
                and not on_empty_base(pool[i])]
        if cand and rng.random() < 0.55:
            base = rng.choice(cand)
        op = {'k': 'sub', 'name': 'K%s_%d' % (serial, step), 'base': base, 'ns': rng.choice([None, 'ns.a', 'ns.k']),
              'fields': fields}
        mixable = [i for i in cplx if pool[i].__dict__.get('__mixin__') is True and pool[i].__orig__ is None]
        if base is None and rng.random() < 0.12 and nf >= 1:
            op['asMixin'] = True            # class M(ComplexModel): __mixin__ = True
            op['ns'] = op['ns'] or 'ns.a'
        if base is not None:        # (Python refuses a mixin that the base class already has: no consistent MRO)
            mixable = [i for i in mixable if pool[i] not in pool[base].__mro__]
        if base is None and 'asMixin' not in op and rng.random() < 0.2:
            op['produce'] = True            # ComplexModel.produce(namespace, type_name, members)
            op['ns'] = op['ns'] or 'ns.a'
            return op
        if 'asMixin' not in op and mixable and rng.random() < 0.5:
            op['mixins'] = rng.sample(mixable, min(len(mixable), rng.choice([1, 1, 2])))
            op['ns'] = op['ns'] or 'ns.a'
        if rng.random() < 0.4:
            # the class declares its own `class Attributes(Base.Attributes)`, with or without assignments
            table = {'min_occurs': [0, 1], 'max_occurs': [1, 2], 'nillable': [True, False], 'sub_name': ['alt'],
                     'exc': [False], 'foo': [42], 'nullable': [True, False]}
            # (nillable and nullable in one class body must agree: AttributesMeta asserts it)
            ks = rng.sample(sorted(table), rng.choice([0, 0, 1, 2]))
            if 'nullable' in ks and 'nillable' in ks:
                ks.remove('nillable')
            op['attrs'] = [[a, aval(rng.choice(table[a]))] for a in ks]
        return op
    if name == 'array':
        op = {'k': 'array', 'src': rng.choice(idx), 'kw': gen_kw(rng, 'complex', n=rng.choice([0, 0, 1, 2]))}
        r = rng.random()
        if r < 0.2:
            op['member'] = rng.choice(['item', 'm'])
        elif r < 0.32:
            op['flat'] = True
            op['kw'] = [p for p in op['kw'] if p[0] not in ('type_name', 'namespace')]
        elif r < 0.45:
            op['iter'] = True
        return op
    if name == 'mand':
        return {'k': 'mand', 'src': rng.choice(idx)}
    if name == 'xmlattr':
        return {'k': 'xmlattr', 'src': rng.choice(simple)}
    # append / insert
    c = rng.choice(cplx)
    existing = flat_names(pool[c])
    nm = rng.choice(FIELD_NAMES + ['h', 'i'] + existing[:2])
    waiting = []
    for v in (pool[c].Attributes._variants or ()):
        waiting += [n for n in (v.Attributes._delayed_child_attrs or {}) if n not in waiting]
    waiting += [n for n in (pool[c].Attributes._delayed_child_attrs or {}) if n not in waiting]
    if waiting and rng.random() < 0.5:
        nm = rng.choice(waiting)             # a field some variant has delayed child attributes for
    cand = [j for j in idx if not impl.reaches(pool[j], pool[c])]
    t = rng.choice(cand)
    if name == 'append':
        return {'k': 'append', 'c': c, 'name': nm, 't': t}
    return {'k': 'insert', 'c': c, 'idx': rng.choice([0, 0, 1, 2, 5]), 'name': nm, 't': t}


# ------------------------------------------------------------------------------------ T1 facts
HW_BOUNDS = {'Integer32': (-2 ** 31, 2 ** 31 - 1), 'UnsignedInteger8': (0, 255), 'UnsignedInteger': (0, None)}


def module_ns(cls):
    ret = []
    for f in cls.__module__.split('.'):
        if f.startswith('_'):
            break
        ret.append(f)
    return '.'.join(ret)


def measure_facts():
    cx, P, B, ModelBase = impl_env()
    from spyne import const
    from spyne.const.xml import PREFMAP
    from spyne.util.odict import odict
    f = {}
    # Mandatory(Array): does the array passed in keep its member?
    A = cx.Array(P.Integer)
    m0 = list(A._type_info.values())[0]
    cx.Mandatory(A)
    f['mandRule'] = 'copies' if list(A._type_info.values())[0] is m0 else 'mutatesOriginal'
    # `_variants`: does a subclass feed the variants of its base?
    Ab = cx.ComplexModelMeta('C15FactA', (cx.ComplexModel,), odict([('__module__', 'c15hist'), ('a', P.Integer)]))
    Bb = cx.ComplexModelMeta('C15FactB', (Ab,), odict([('__module__', 'c15hist'), ('b', P.Integer)]))
    A1 = Ab.customize(min_occurs=1)
    Bb.append_field('zz', P.Unicode)
    f['varRule'] = 'inheritedFromBase' if 'zz' in A1._type_info else 'ownPerClass'
    # ... and when the subclass declares its own `class Attributes(Base.Attributes)`?
    Ax = cx.ComplexModelMeta('C15FactAX', (cx.ComplexModel,), odict([('__module__', 'c15hist'), ('a', P.Integer)]))
    Bx = cx.ComplexModelMeta('C15FactBX', (Ax,), odict([('__module__', 'c15hist'),
                             ('Attributes', type(Ax.Attributes)('Attributes', (Ax.Attributes,), {'some_option': 42})),
                             ('b', P.Integer)]))
    A1x = Ax.customize(min_occurs=1)
    Bx.customize(min_occurs=1)
    Bx.append_field('zz', P.Unicode)
    f['varRuleX'] = 'inheritedFromBase' if 'zz' in A1x._type_info else 'ownPerClass'
    # who registers in `_subclasses` of a base class: class statements only, or customised variants as well?
    Sb = cx.ComplexModelMeta('C15FactSB', (cx.ComplexModel,), odict([('__module__', 'c15hist'), ('a', P.Integer)]))
    Ss = cx.ComplexModelMeta('C15FactSS', (Sb,), odict([('__module__', 'c15hist'), ('b', P.Integer)]))
    Ss.customize(min_occurs=1)
    cx.Mandatory(Ss)
    f['subsRule'] = 'classStatementsOnly' if list(Sb.Attributes._subclasses or ()) == [Ss] else 'alsoVariants'
    # customize(prot=p): are the keywords merged into a copy of the protocol's type_attrs?
    from spyne.protocol import ProtocolBase
    pr = ProtocolBase()
    pr.type_attrs = {'empty_is_none': True}
    P.Unicode.customize(prot=pr, max_len=4)
    f['protCopy'] = 'copied' if pr.type_attrs == {'empty_is_none': True} else 'shared'
    f['prots'] = [[[k, aval(v)] for k, v in spec.items()] for spec in PROT_SPECS]
    # fields of `__mixin__` bases: first, in their own order?
    Mx = cx.ComplexModelMeta('C15FactMx', (cx.ComplexModel,), odict([('__module__', 'c15hist'), ('__mixin__', True),
                                                                   ('x', P.Integer), ('y', P.Integer), ('z', P.Integer)]))
    Kx = cx.ComplexModelMeta('C15FactKx', (Mx, cx.ComplexModel), odict([('__module__', 'c15hist'), ('c', P.Integer)]))
    keys = list(Kx._type_info.keys())
    f['mixinOrder'] = 'declared' if keys == ['x', 'y', 'z', 'c'] else ('reversed' if keys == ['z', 'y', 'x', 'c'] else 'other')
    # order of the delayed child attributes when a field is added later: does the field's own entry win?
    for key, how in (('delayAppend', 'append'), ('delayInsert', 'insert')):
        Ad = cx.ComplexModelMeta('C15FactD' + how, (cx.ComplexModel,), odict([('__module__', 'c15hist'), ('a', P.Integer)]))
        Vd = Ad.customize(child_attrs_all=dict(min_occurs=1), child_attrs=dict(later=dict(min_occurs=2)))
        if how == 'append':
            Ad.append_field('later', P.Integer)
        else:
            Ad.insert_field(0, 'later', P.Integer)
        mo = Vd._type_info['later'].Attributes.min_occurs
        f[key] = 'allFirst' if mo == 2 else 'oneFirst'
    # does re-deriving `pattern` recompile the regex that validation uses?
    pa = P.Unicode(pattern='[a-z]+')(pattern='[0-9]+')
    f['patRule'] = 'always' if pa.Attributes._pattern_re.pattern == '[0-9]+' else 'onlyWhenUnset'
    # does customising a number keep its max_str_len?
    # ... and does total_digits=d give d + k for one offset k (whatever the library's k is: separator, sign, ...)?
    m5 = P.Decimal(total_digits=5).Attributes.max_str_len
    m9 = P.Decimal(total_digits=9).Attributes.max_str_len
    follows = (P.Integer32(ge=0).Attributes.max_str_len == P.Integer32.Attributes.max_str_len
               and m5 != INF and m9 != INF and m5 - 5 == m9 - 9 and m5 >= 5)
    f['mslRule'] = 'followsRequested' if follows else 'resetsFromParent'
    f['mslExtra'] = int(m5) - 5 if follows else 2
    global MSL_EXTRA
    MSL_EXTRA = f['mslExtra'] if follows else None
    # is the column-keyword dict of sqla_column_args a copy of the source's, or the same object?
    code = P.Unicode(max_len=32)
    code(pk=True)
    f['colCopy'] = 'shallow' if code.Attributes.sqla_column_args[-1] else 'deep'
    for n in BASES + ROOTS:
        if base_class(n).Attributes.sqla_column_args is not None:
            raise core.Infra('base class %s has sqla_column_args (the model starts from None)' % n)
    # declared order of a class body
    ns = {}
    names = ['zeta', 'alpha', 'mid', 'beta', 'omega', 'b2', 'a1', 'k9']
    exec('from spyne.model.complex import ComplexModel\nfrom spyne.model.primitive import Integer\n'
         'class C15FactOrder(ComplexModel):\n' + ''.join('    %s = Integer\n' % n for n in names), ns)
    f['dictOrdered'] = list(ns['C15FactOrder']._type_info.keys()) == names and sys.version_info >= (3, 7)
    # ... and does a class statement enumerate anything in hash order? (fresh interpreters, several hash seeds)
    probe = ('from spyne.model.complex import ComplexModel\nfrom spyne.model.primitive import Integer, Unicode\n'
             'T=[Integer(order=0), Unicode(order=0), Integer(order=1), Unicode(order=0), Integer(order=2), Unicode(order=1)]\n'
             'class C(ComplexModel):\n    plain = Integer\n' +
             ''.join('    %s = T[%d]\n' % (n, i) for i, n in enumerate(['alpha', 'beta', 'gamma', 'delta', 'epsilon', 'zeta'])) +
             'print(",".join(C._type_info.keys()))\n')
    env = dict(os.environ, PYTHONWARNINGS='ignore')
    env['PYTHONPATH'] = os.pathsep.join([p for p in [os.environ.get('SPYNE_REPO')] if p])
    outs = set()
    procs = [subprocess.Popen([sys.executable, '-B', '-c', probe], env=dict(env, PYTHONHASHSEED=str(hs)),
                              stdout=subprocess.PIPE, stderr=subprocess.PIPE, text=True) for hs in range(6)]
    for pr in procs:
        o, e = pr.communicate(timeout=120)
        if pr.returncode != 0:
            raise core.Infra('hash-seed probe failed: ' + e[-500:])
        outs.add(o.strip())
    f['hashSeedOrders'] = sorted(outs)
    f['dictOrdered'] = f['dictOrdered'] and len(outs) == 1
    f['mandPrefix'], f['mandSuffix'] = const.MANDATORY_PREFIX, const.MANDATORY_SUFFIX
    f['arrPrefix'], f['arrSuffix'] = const.ARRAY_PREFIX, const.ARRAY_SUFFIX
    f['prefNs'] = sorted(PREFMAP.keys())
    f['numDefaults'] = [[k, aval(getattr(P.Decimal.Attributes, k))] for k in ('gt', 'ge', 'lt', 'le', 'total_digits', 'fraction_digits')]
    f['uniDefaults'] = [[k, aval(getattr(P.Unicode.Attributes, k))] for k in ('min_len', 'max_len', 'pattern')]
    bases = []
    for n in BASES + ROOTS:
        c = base_class(n)
        lo, hi = HW_BOUNDS.get(n, (None, None))
        t = c.__type_name__
        bases.append({'name': n, 'kind': kind_of(c) if n != 'XmlAttribute' else 'xmlattr', 'attrs': attrs_of(c),
                      'tn': None if t is ModelBase.Empty else (t if t is not None else c.__name__),
                      'ns': c.__namespace__, 'modNs': module_ns(c), 'lo': lo, 'hi': hi})
    f['bases'] = bases
    return f


MSL_EXTRA = None
GOOD = {'mandRule': 'copies', 'varRule': 'ownPerClass', 'varRuleX': 'ownPerClass', 'patRule': 'always', 'delayAppend': 'allFirst', 'delayInsert': 'allFirst', 'protCopy': 'copied', 'subsRule': 'classStatementsOnly', 'mixinOrder': 'declared', 'mslRule': 'followsRequested', 'colCopy': 'deep',
        'dictOrdered': True}


def lean_str(s):
    return json.dumps(s)


def lean_aval(j):
    if j is None:
        return '.none'
    if j is True:
        return '(.bool true)'
    if j is False:
        return '(.bool false)'
    if 'i' in j:
        return '(.int (%s))' % j['i']
    if 'inf' in j:
        return '.inf'
    if 'ninf' in j:
        return '.ninf'
    if 's' in j:
        return '(.str %s)' % lean_str(j['s'])
    if 'eset' in j:
        return '.eset'
    if 'l' in j:
        if all(x is not None and isinstance(x, dict) and 'i' in x for x in j['l']):
            return '(.ints [%s])' % ', '.join('(%s)' % x['i'] for x in j['l'])
        return '(.strs [%s])' % ', '.join(lean_str(x['s']) for x in j['l'])
    raise ValueError(j)


def lean_kw(kw):
    return '[' + ', '.join('(%s, %s)' % (lean_str(k), lean_aval(v)) for k, v in kw) + ']'


def lean_opt(v, f=lean_str):
    return 'none' if v is None else '(some %s)' % f(v)


def facts_lean(f):
    b = lambda x: 'true' if x else 'false'
    names = [x['name'] for x in f['bases']]
    lines = []
    for x in f['bases']:
        lines.append('    { name := %s, kind := .%s, attrs := %s,\n      tn := %s, ns := %s, modNs := %s, lo := %s, hi := %s }' % (
            lean_str(x['name']), x['kind'], lean_kw(x['attrs']), lean_opt(x['tn']), lean_opt(x['ns']),
            lean_str(x['modNs']), lean_opt(x['lo'], lambda i: '(%d)' % i), lean_opt(x['hi'], lambda i: '(%d)' % i)))
    return '''-- GENERATED by harness/c15.py (T1) from /repo on every run. Do not edit.
import SpyneModel.Derive
namespace SpyneModel.Generated
open SpyneModel.Derive

def facts15 : Facts15 where
  mandRule := .%s
  varRule := .%s
  varRuleX := .%s
  patRule := .%s
  delayAppend := .%s
  delayInsert := .%s
  protCopy := .%s
  subsRule := .%s
  mixinOrder := .%s
  prots := [%s]
  mslRule := .%s
  mslExtra := %d
  colCopy := .%s
  dictOrdered := %s
  mandPrefix := %s
  mandSuffix := %s
  arrPrefix := %s
  arrSuffix := %s
  prefNs := [%s]
  keys := [%s]
  numDefaults := %s
  uniDefaults := %s
  bases := [
%s]
  complexRoot := %d
  arrayRoot := %d
  iterRoot := %d
  xmlattrRoot := %d

end SpyneModel.Generated
''' % (f['mandRule'], f['varRule'], f['varRuleX'], f['patRule'], f['delayAppend'], f['delayInsert'], f['protCopy'], f['subsRule'], f['mixinOrder'],
       ', '.join(lean_kw(x) for x in f['prots']), f['mslRule'], f['mslExtra'], f['colCopy'], b(f['dictOrdered']), lean_str(f['mandPrefix']), lean_str(f['mandSuffix']),
       lean_str(f['arrPrefix']), lean_str(f['arrSuffix']), ', '.join(lean_str(s) for s in f['prefNs']),
       ', '.join(lean_str(s) for s in MODEL_KEYS), lean_kw(f['numDefaults']), lean_kw(f['uniDefaults']),
       ',\n'.join(lines), names.index('ComplexModel'), names.index('Array'), names.index('Iterable'),
       names.index('XmlAttribute'))


def model_parallel(ctx, queries, workers=None):
    """ctx.model over several driver processes (one history takes the interpreter a few 100 ms)"""
    import threading
    if not queries:
        return []
    workers = max(1, min(workers or (os.cpu_count() or 4) - 2, 12, len(queries)))
    chunks = [queries[i::workers] for i in range(workers)]
    res = [None] * workers
    errs = []

    def work(i):
        try:
            res[i] = ctx.model(chunks[i], driver='C15')
        except BaseException as e:        # re-raised in the caller
            errs.append(e)
    ths = [threading.Thread(target=work, args=(i,)) for i in range(workers)]
    [t.start() for t in ths]
    [t.join() for t in ths]
    if errs:
        raise errs[0]
    out = [None] * len(queries)
    for i in range(workers):
        for k, a in enumerate(res[i]):
            out[i + k * workers] = a
    return out


# ------------------------------------------------------------------------------------ T3: the property on the implementation
def norm_requested(kw):
    """what a customisation with these keywords is documented to set: attribute -> value"""
    out = {}
    doc = None
    for k, v in kw.items():
        if k.startswith('_') or k in ('type_name', 'child_attrs', 'child_attrs_all', 'prot', 'protocol', 'p'):
            continue
        if k == 'doc':
            doc = v
        elif k == 'voa':
            out['validate_on_assignment'] = v
        elif k == 'nullable':
            out['nillable'] = v
        elif k == 'exc_table':
            out['exc_table'] = v
            out['exc_db'] = v
        elif k == 'max_occurs' and v in ('unbounded', 'inf', INF):
            out['max_occurs'] = INF
        elif k in ('pk', 'primary_key'):
            out['primary_key'] = v
        elif k in ('autoincrement', 'onupdate', 'server_default'):
            pass                      # go into the column keywords, checked by col_requested
        else:
            out[k] = v
    if 'nullable' in kw and 'nillable' in kw and kw['nullable'] != kw['nillable']:
        # a contradictory request (the two spellings of one property, class bodies assert they agree): the keyword loop
        # lets the later one win and a protocol's type_attrs reorder the keywords - either value is what was asked for
        out['nillable'] = _EITHER
    return out, doc


def col_requested(kw):
    """what a customisation with these keywords adds to the column keywords"""
    out = {}
    for k, v in kw.items():
        if k in ('pk', 'primary_key'):
            out['primary_key'] = v
        elif k in ('autoincrement', 'onupdate', 'server_default'):
            out[k] = v
    return out


def check_exact(ctx, new, src, kw, opk, report):
    """the derived class carries exactly the requested constraints: requested ones are set, all other public
    attributes are those of the source"""
    req, doc = {}, None
    for one in (kw if isinstance(kw, list) else [kw]):      # several customisations applied one after the other
        r, d = norm_requested(one)
        req.update(r)
        doc = d if d is not None else doc
    for k, v in req.items():
        got = getattr(new.Attributes, k, _ABSENT)
        if v is _EITHER:
            if got not in (True, False):
                report('exact:%s:requested:%s' % (opk, k), 'requested both True and False, the derived class has %r' % (got,))
            continue
        if got is _ABSENT or cval(got) != cval(v):
            report('exact:%s:requested:%s' % (opk, k), 'requested %s=%r, the derived class has %r' % (k, v, None if got is _ABSENT else got))
    if doc is not None and new.Annotations.doc != doc:
        report('exact:%s:doc' % opk, 'requested doc not set')
    if 'nillable' in req and new.Attributes.nullable != (new.Attributes.nillable if req['nillable'] is _EITHER else req['nillable']):
        report('exact:%s:requested:nullable' % opk, 'nullable does not follow nillable')
    # column keywords: the source's, plus the requested ones, in a dict of the derived class's own
    want_col = dict((src.Attributes.sqla_column_args or ((), {}))[-1])
    for one in (kw if isinstance(kw, list) else [kw]):
        want_col.update(col_requested(one))
    got_sca = new.Attributes.sqla_column_args
    if got_sca is None or cval(dict(got_sca[-1])) != cval(want_col):
        report('exact:sqla_column_args', 'column keywords of the derived class are %r, expected %r' % (
            None if got_sca is None else got_sca[-1], want_col))
    derived = {'sqla_column_args', 'translations'}
    if 'total_digits' in req or 'max_str_len' in req:
        derived.add('max_str_len')          # documented to follow total_digits (+ separator and sign)
        msl = getattr(new.Attributes, 'max_str_len', None)
        # (relative to the library's own offset, measured in T1 - not to a constant of ours)
        if req.get('max_str_len') is None and req.get('total_digits') is not None and \
                not (msl is not None and msl != INF and (MSL_EXTRA is None or msl == req['total_digits'] + MSL_EXTRA)):
            report('exact:derived:max_str_len', 'total_digits=%r requested, max_str_len is %r' % (req['total_digits'], getattr(new.Attributes, 'max_str_len', None)))
    if 'values' in req:
        derived.add('values_dict')
    if 'pattern' in req:
        derived |= {'unicode_pattern', 'upattern'}      # the same metaclass property
    for k in dir(src.Attributes):
        if k.startswith('_') or k in BOOKKEEPING or k in req or k in derived:
            continue
        if k == 'nullable' and 'nillable' in req:
            continue        # (one property; a class body that assigned `nullable` makes dir() list it)
        a, b = cval(getattr(src.Attributes, k)), cval(getattr(new.Attributes, k, None))
        if a != b:
            report('exact:unrequested:%s:%s' % (kind_of(src), k),
                   'attribute %s was not requested but changed from %r to %r' % (k, getattr(src.Attributes, k), getattr(new.Attributes, k, None)))
    # what the metaclass property setters keep behind the public names travels along as well
    for hid_name, pub in (('_default_factory', 'default_factory'), ('_nullable', 'nillable'), ('_pattern', 'pattern'),
                          ('_pattern_re', 'pattern')):
        if pub in req or hid_name not in dir(src.Attributes):
            continue
        a, b = getattr(src.Attributes, hid_name, None), getattr(new.Attributes, hid_name, None)
        same = (a is b) or (a == b) or (getattr(a, 'pattern', 0) == getattr(b, 'pattern', 1))
        if not same and not (hid_name == '_nullable' and src.Attributes.nullable == new.Attributes.nullable):
            report('exact:unrequested:hidden:' + hid_name, 'the derived class lost/changed %s of its source (%r -> %r) although %s was not requested' % (hid_name, a, b, pub))
    if 'nillable' not in req and src.Attributes.nullable != new.Attributes.nullable:
        report('exact:%s:unrequested:nullable' % opk, 'nullable changed without being requested')
    if kind_of(new) != kind_of(src):
        report('exact:%s:kind' % opk, 'the derived class is of another kind')


def expected_verdicts(c):
    """the verdict function of a type computed from its *public* facets only (the specification):
    (validate_native on the probes, validate_string on the probes)"""
    import re
    A = c.Attributes
    k = kind_of(c)
    nil = bool(A.nullable)

    def in_values(v):
        vals = A.values
        return vals is None or len(vals) == 0 or v in vals
    if k == 'number':
        lo = hi = None
        for n, (l, u) in HW_BOUNDS.items():
            if issubclass(c, base_class(n)):
                lo = l if lo is None or (l is not None and l > lo) else lo
                hi = u if hi is None or (u is not None and u < hi) else hi
        native = [in_values(v) and v > A.gt and v >= A.ge and v < A.lt and v <= A.le
                  and (lo is None or v >= lo) and (hi is None or v <= hi) for v in PROBE_INTS]
        string = [n <= A.max_str_len for n in PROBE_LENS]
    elif k == 'unicode':
        pat = A.pattern
        native = [in_values(x) and (pat is None or re.fullmatch(pat, x) is not None) for x in PROBE_STRS]
        string = [A.min_len <= n <= A.max_len for n in PROBE_LENS]
    else:
        return None
    return [nil, nil] + [bool(x) for x in native], [bool(x) for x in string]


def actual_verdicts(c):
    k = kind_of(c)
    probes = PROBE_INTS if k == 'number' else PROBE_STRS
    mk = (lambda n: '1' * n) if k == 'number' else (lambda n: 'a' * n)
    return ([bool(c.validate_native(c, None)), bool(c.validate_string(c, None))]
            + [bool(c.validate_native(c, v)) for v in probes], [bool(c.validate_string(c, mk(n))) for n in PROBE_LENS])


def schema_seq_names(fragment):
    if not fragment or fragment.startswith('exc:'):
        return None
    XS = '{http://www.w3.org/2001/XMLSchema}'

    def find(node):
        if node[0] == XS + 'sequence':
            return node
        for ch in node[2]:
            r = find(ch)
            if r is not None:
                return r
        return None
    seq = find(json.loads(fragment.split('\n')[0]))
    if seq is None:
        return []
    return [dict(e[1]).get('name') for e in seq[2] if e[0] == XS + 'element' and dict(e[1]).get('name')]


SAMPLE_VALUE = {'number': 1, 'unicode': 'v', 'simple': True, 'bytes': [b'x']}


def output_orders(c):
    """element order of an instance of `c` in the real XmlDocument and JsonDocument (dict) output"""
    from spyne.util.xml import get_object_as_xml
    from spyne.util.dictdoc import get_object_as_dict
    flat = c.get_flat_type_info(c)
    inst = (c.__orig__ or c)()
    for k, t in flat.items():
        kd = kind_of(t)
        v = SAMPLE_VALUE.get(kd)
        if kd in ('array', 'iterable'):
            m = list(t._type_info.values())[0]
            v = [SAMPLE_VALUE[kind_of(m)]] if kind_of(m) in SAMPLE_VALUE and kind_of(m) != 'bytes' else None
        elif kd not in SAMPLE_VALUE:
            v = None
        if v is not None and t.Attributes.max_occurs > 1 and kd in SAMPLE_VALUE:
            v = [v]
        try:
            setattr(inst, k, v)
        except Exception:
            pass
    xml = [e.tag.split('}')[-1] for e in get_object_as_xml(inst, c, no_namespace=True)]
    dct = list(get_object_as_dict(inst, c).keys())
    return xml, dct


def order_consistent(observed, flat_names):
    """`observed` lists a subset of `flat_names` in the same relative order (a field that a subclass declares
    again is written once per declaring class; only the first occurrence is compared)"""
    if len(set(flat_names)) != len(flat_names):
        return True
    observed = list(dict.fromkeys(observed))
    s = set(observed)
    return observed == [x for x in flat_names if x in s]


class Oracle:
    """T3 for one history: compares shallow observations of every known class across each step"""

    def __init__(self, ctx, impl, hid, with_schema):
        self.ctx, self.impl, self.hid = ctx, impl, hid
        self.schema = SchemaObs(impl) if with_schema else None
        self.ops = []
        self.delayed = {}        # id(class) -> {field name: kwargs} given as child_attrs for a field that did not exist
        self.delayed_all = {}    # id(class) -> child_attrs_all in force for fields added later
        self.prev = self.observe()

    def observe(self):
        obs = {}
        for i, c in self.impl.registry.items():
            o = shallow(c)
            if self.schema is not None and is_complex(c) and c in self.impl.pool and c.__dict__.get('__module__') == 'c15hist':
                o['schema'], o['schema_names'] = self.schema.render(c)
            obs[i] = o
        return obs

    def report(self, fid, what, extra=None):
        self.ctx.hit('t3-fail:' + fid.split(':')[0])
        self.ctx.finding(fid, what, dict({'history': list(self.ops), 'step': len(self.ops) - 1, 'oracle': fid,
                                          'hid': self.hid}, **(extra or {})))

    def step(self, op, res, new, pre):
        """`pre`: facts recorded before the op ran (own variants of the target, sources, ...)"""
        impl = self.impl
        self.ops.append(op)
        cur = self.observe()
        k = op['k']
        # ---- frame
        allowed = pre.get('allowed', set())
        for i, before in self.prev.items():
            after = cur.get(i)
            if after is None or i in allowed:
                continue
            changed = sorted(x for x in after if x not in ('flat', 'ids') and after[x] != before.get(x))
            if k == 'sub' and new is not None and new.__extends__ is not None and (
                    i in pre.get('allowed_sub', ()) or
                    getattr(impl.registry[i].Attributes, '_subclasses', None) is new.__extends__.Attributes._subclasses or
                    (is_complex(impl.registry[i]) and new.__extends__ in impl.registry[i].get_subclasses())):
                # (everything that sees the very list the new class was added to: the class it extends, that class's
                # variants, and classes whose Attributes derive from it without an entry of their own)
                changed = [x for x in changed if x not in ('subclasses', 'get_subclasses')]
            if 'schema' in changed and (str(after['schema']).startswith('exc:') or str(before.get('schema')).startswith('exc:')):
                # the schema generator itself fails on the interface this class now belongs to
                changed = [x for x in changed if x not in ('schema', 'schema_names')]
                self.report('schema:unrenderable', 'after %s the schema generator raises for the untouched class %s (%s -> %s)' % (
                    k, impl.registry[i].__name__, str(before.get('schema'))[:40], str(after['schema'])[:40]))
            if changed == ['schema_names']:
                changed = []
                self.report('schema:anonymous-type-name', 'after %s the schema of the untouched class %s refers to a shared '
                            'unnamed (customised primitive) type under another generated name' % (k, impl.registry[i].__name__),
                            {'changed': {'schema_names': [before.get('schema_names'), after['schema_names']]}})
            if changed:
                c = impl.registry[i]
                detail = {}
                for x in changed:
                    if x == 'attrs':
                        detail[x] = {a: [before['attrs'].get(a), after['attrs'].get(a)] for a in after['attrs'] if after['attrs'][a] != before['attrs'].get(a)}
                    else:
                        detail[x] = [before.get(x), after[x]]
                self.report('frame:%s:%s:%s' % (k, kind_of(c), '+'.join(changed)),
                            '%s (%s) changed a %s it must leave alone (%s: %s)' % (k, res, kind_of(c), c.__name__, ', '.join(changed)),
                            {'changed': json.loads(json.dumps(detail, default=str))})
        # ---- the protocols' own defaults are not a place to merge keywords into
        for pi, (pr, spec) in enumerate(zip(impl.prots, PROT_SPECS)):
            if pr.type_attrs != spec:
                self.report('frame:prot:type_attrs', '%s (%s) changed the type_attrs of protocol %d from %r to %r' % (
                    k, res, pi, spec, {a: b for a, b in pr.type_attrs.items() if a not in ('prot', 'child_attrs', 'child_attrs_all')}))
        # ---- the verdict function of every new type is the one its public facets call for
        for i, c in impl.registry.items():
            if i in self.prev:
                continue
            try:
                exp = expected_verdicts(c)
                act = actual_verdicts(c) if exp is not None else None
            except Exception as e:          # facets the probes cannot be compared with
                self.ctx.hit('verdict-skipped:' + type(e).__name__)
                continue
            if exp is not None and exp != act:
                part = 'native' if exp[0] != act[0] else 'string'
                self.report('verdict:%s:%s' % (kind_of(c), part),
                            'validation of a type derived by %s does not follow its facets (%s): pattern=%r values=%r '
                            'min_len=%r max_len=%r; verdicts %r, facets call for %r' % (
                                k, part, getattr(c.Attributes, 'pattern', None), getattr(c.Attributes, 'values', None),
                                getattr(c.Attributes, 'min_len', None), getattr(c.Attributes, 'max_len', None),
                                act[0 if part == 'native' else 1], exp[0 if part == 'native' else 1]))
        # ---- containers that spyne writes into must not be one object in two Attributes classes
        owners = {}
        for i, c in impl.registry.items():
            A = c.Attributes
            own = vars(A)
            cands = []
            sca = own.get('sqla_column_args')
            if isinstance(sca, tuple) and sca and isinstance(sca[-1], dict):
                cands.append(('sqla_column_args', sca[-1]))
            if isinstance(own.get('_delayed_child_attrs'), dict):
                cands.append(('_delayed_child_attrs', own['_delayed_child_attrs']))
            for name, obj in cands:
                first = owners.setdefault((name, id(obj)), A)
                if first is not A:
                    self.report('alias:' + name, 'the %s dict of two different classes is one object (%s derived by %s): '
                                'a later customisation of either writes into both' % (name, c.__name__, k))
        # ---- flat order = parents first, everywhere
        for i, c in impl.registry.items():
            if 'ancestors' in cur[i]:
                chain, x = [], getattr(c, '__extends__', None)
                while x is not None:
                    chain.append(id(x))
                    x = getattr(x, '__extends__', None)
                if cur[i]['ancestors'] != chain:
                    self.report('order:ancestors', 'ancestors() of %s is not its chain of base classes' % c.__name__)
            if is_complex(c) and 'flat' in cur[i]:
                pk = [n for n, t in c.get_flat_type_info(c).items() if getattr(t.Attributes, 'primary_key', None)]
                if cur[i]['ids'] != pk:
                    self.report('order:identifiers', 'get_identifiers() of %s lists %r, the primary-key fields are %r' % (c.__name__, cur[i]['ids'], pk))
                exp = expected_flat(c)
                if cur[i]['flat'] != exp:
                    self.report('order:flat:%s' % k, 'flat type info of %s is %r, parents-first declaration order is %r' % (c.__name__, cur[i]['flat'], exp))
                sch = cur[i].get('schema')
                names = schema_seq_names(sch) if sch is not None else None
                if names is not None:
                    own = [(t.Attributes.sub_name or n) for n, t in c._type_info.items()]
                    if not order_consistent(names, own):
                        self.report('order:schema:%s' % k, 'schema sequence of %s is %r, declared order is %r' % (c.__name__, names, own))
        if res == 'ok':
            # ---- exactly the requested constraints
            if k == 'cust':
                kw = impl.kw(op['kw'])
                if op.get('prot') is not None and PROT_SPECS[op['prot']]:
                    # the protocol's defaults, then what was asked for
                    kw = [dict(PROT_SPECS[op['prot']]), kw]
                check_exact(self.ctx, new, pre['src'], kw, 'cust', self.report)
                if is_complex(new):
                    if op.get('sa') is None and [n for n, _ in pre['src_fields']] != list(new._type_info.keys()):
                        self.report('exact:cust:fields', 'customize changed the field names/order')
                    if op.get('ca') is None and op.get('caa') is None and op.get('nx') is None and op.get('sa') is None \
                            and [id(t) for _, t in pre['src_fields']] != [id(t) for t in new._type_info.values()]:
                        self.report('exact:cust:fieldtypes', 'customize without child attributes changed field types')
                    if op.get('sa') is None and flat_names(new) != pre['src_flat']:
                        # known edge: a class in the chain was declared on a base that had no fields *then*
                        edge, x = False, pre['src']
                        while x is not None and not edge:
                            pb = (x.__orig__ or x).__bases__[0]
                            edge = x.__extends__ is None and len(getattr(pb, '_type_info', None) or ()) > 0
                            x = x.__extends__
                        self.report('exact:cust:flat' + (':empty-base' if edge else ''),
                                    'customize changed the inherited fields: %r -> %r' % (pre['src_flat'], flat_names(new)))
                    if new._type_info is pre['src']._type_info:
                        self.report('exact:cust:shared-type-info', 'the customized class shares its _type_info with the source')
                    caa = impl.kw(op['caa']) if op.get('caa') is not None else None
                    ca = {n: impl.kw(v) for n, v in op['ca']} if op.get('ca') is not None else {}
                    if op.get('nx') is not None:
                        # child_attrs_noexc: exclude everything, except the fields named
                        caa = dict(caa or {}, exc=True)
                        for n, v in op['nx']:
                            ca[n] = dict(impl.kw(v), exc=False)
                    # child attributes for fields that do not exist yet wait for them (also in variants of this variant)
                    d = dict(self.delayed.get(id(pre['src']), {}))
                    d.update({n: v for n, v in ca.items() if n not in pre['src_flat']})
                    self.delayed[id(new)] = d
                    if caa is not None or id(pre['src']) in self.delayed_all:
                        self.delayed_all[id(new)] = caa if caa is not None else self.delayed_all[id(pre['src'])]
                    srcf = dict(pre['src_fields'])
                    for n, t in new._type_info.items():
                        want = [w for w in (caa, ca.get(n)) if w]
                        if want and n in srcf:
                            check_exact(self.ctx, t, srcf[n], want, 'child', self.report)
            if k == 'cust' and impl.handed is not None:
                # the dicts the caller handed over are the caller's: a derivation has no business writing into them
                live, before = impl.handed
                for a, b in before.items():
                    if live[a] != b:
                        self.report('caller-dict:' + a, 'customize(%s=...) wrote into the dict it was given: %r -> %r' % (a, b, live[a]))
            if k == 'cust' and op.get('sa') is not None and kind_of(pre['src']) in ('array', 'iterable'):
                m_old = pre['src_fields'][0][1]
                m_new = list(new._type_info.values())[0]
                sa = impl.kw(op['sa'])
                if m_new.Attributes.max_occurs == INF and (sa.get('max_occurs') == 1 or
                                                           ('max_occurs' not in sa and m_old.Attributes.max_occurs == 1)):
                    sa['max_occurs'] = INF      # "hack to default to unbounded arrays" (_set_serializer)
                check_exact(self.ctx, m_new, m_old, sa, 'serializer_attrs', self.report)
            if k == 'xcust':
                if op.get('how') == 'novalidate_freq':
                    if new.Attributes.validate_freq is not False:
                        self.report('exact:x:novalidate_freq', 'novalidate_freq() did not switch validate_freq off')
                xkw_check(impl, new, pre['src'], op['x'], self.report)
                if kind_of(new) != kind_of(pre['src']):
                    self.report('exact:x:kind', 'the derived class is of another kind')
            if k in ('mand', 'array') and new is not None and is_complex(new) and is_complex(pre['src']) and \
                    (k == 'mand' or op.get('flat')):
                # a variant of a variant: the delayed child attributes travel along
                self.delayed[id(new)] = dict(self.delayed.get(id(pre['src']), {}))
                if id(pre['src']) in self.delayed_all:
                    self.delayed_all[id(new)] = self.delayed_all[id(pre['src'])]
            if k == 'cust':
                pass
            elif k == 'mand':
                src = pre['src']
                want = {'min_occurs': 1, 'nillable': False}
                if kind_of(src) == 'unicode':
                    want['min_len'] = 1
                check_exact(self.ctx, new, src, want, 'mand', self.report)
                if kind_of(src) in ('array', 'iterable') and pre['src_fields'][0][1].Attributes.min_occurs == 0:
                    m = list(new._type_info.values())[0]
                    if m.Attributes.min_occurs < 1 or m.Attributes.nullable:
                        self.report('exact:mand:member', 'Mandatory(array): the member of the new array is not mandatory')
            elif k == 'array' and not op.get('flat'):
                src = pre['src']
                items = list(new._type_info.items())
                if len(items) != 1:
                    self.report('exact:array:members', 'array with %d members' % len(items))
                else:
                    m = items[0][1]
                    if m is not src:
                        check_exact(self.ctx, m, src, {'max_occurs': INF}, 'array-member', self.report)
                    if op.get('member') is not None and src.__type_name__ is not impl_env()[3].Empty and items[0][0] != op['member']:
                        self.report('exact:array:member-name', 'member_name not honoured')
            elif k == 'array':
                src = pre['src']
                kw = impl.kw(op['kw'])
                if src.Attributes.max_occurs == 1:
                    kw['max_occurs'] = 'unbounded'
                check_exact(self.ctx, new, src, kw, 'array-flat', self.report)
            elif k == 'sub':
                mix = []
                for m in op.get('mixins') or ():
                    mix += [n for n in expected_flat(impl.pool[m]) if n not in mix]
                want = mix + [n for n, _ in op['fields'] if n not in mix]
                # field types with an `order` attribute are taken out and inserted at that position, one by one
                tis = dict(new._type_info.items())
                plain = [n for n in want if tis[n].Attributes.order is None]
                for n in want:
                    if tis[n].Attributes.order is not None:
                        plain.insert(tis[n].Attributes.order, n)
                want = plain
                if list(new._type_info.keys()) != want:
                    self.report('order:declared', 'declared %r, _type_info has %r' % (want, list(new._type_info.keys())))
                for a, v in (op.get('attrs') or []):
                    if cval(getattr(new.Attributes, 'nillable' if a == 'nullable' else a, None)) != cval(unaval(v)):
                        self.report('exact:sub:attrs', 'attribute %s declared in the class statement is not in force' % a)
                for n, t in op['fields']:
                    if n in mix:
                        continue
                    if new._type_info[n] is not impl.pool[t]:
                        self.report('exact:sub:fieldtype', 'declared field type replaced')
            # ---- evolution reaches the class and all its variants, nobody else (frame above)
            if k in ('append', 'insert'):
                for x in pre['targets']:
                    keys = list(x._type_info.keys())
                    old = pre['keys'][id(x)]
                    nm = op['name']
                    if nm not in keys:
                        self.report('evolve:%s:missing' % k, 'field %r did not reach %s variant of %s' % (nm, 'a' if x is not pre['c'] else 'the class itself, not a', pre['c'].__name__))
                        continue
                    if k == 'append':
                        exp = old if nm in old else old + [nm]
                    else:
                        rest = [y for y in old if y != nm]
                        exp = rest[:op['idx']] + [nm] + rest[op['idx']:]
                    if keys != exp:
                        self.report('evolve:%s:position' % k, 'field order after %s is %r, expected %r' % (k, keys, exp))
                    req = {}
                    for w in (self.delayed_all.get(id(x)), self.delayed.get(id(x), {}).get(nm)):
                        if w:
                            req.update(norm_requested(w)[0])
                    if req:
                        for a, v in req.items():
                            got = getattr(x._type_info[nm].Attributes, a, _ABSENT)
                            if v is _EITHER:
                                continue
                            if got is _ABSENT or cval(got) != cval(v):
                                self.report('evolve:delayed-child-attrs', 'child attribute %s=%r given for field %r before it existed '
                                            'is not applied in a variant (%r)' % (a, v, nm, None if got is _ABSENT else got))
                    if k == 'insert':
                        self.delayed.get(id(x), {}).pop(nm, None)
        self.prev = cur

    def final(self):
        """protocol output order of every pooled complex model"""
        for c in self.impl.pool:
            if kind_of(c) != 'complex':
                continue
            flat = c.get_flat_type_info(c)
            names = [(t.Attributes.sub_name or n) for n, t in flat.items()]
            chain, x = [], c
            while x is not None:
                chain += list(x._type_info.keys())
                x = x.__extends__
            if len(set(chain)) != len(chain):
                self.ctx.hit('output-skipped:redeclared-field')     # written once per declaring class
                continue
            if any(t.Attributes.order is not None for t in flat.values()):
                self.ctx.hit('output-skipped:explicit-order')       # `order` is the documented override of the sequence
                continue
            try:
                xml, dct = output_orders(c)
            except Exception as e:
                self.ctx.hit('output-skipped:' + type(e).__name__)
                continue
            self.ctx.hit('output-checked')
            if not order_consistent(xml, names):
                self.report('order:xml-output', 'XmlDocument wrote %r, declared order is %r' % (xml, names))
            self.instance_checks(c, flat)
            if not order_consistent(dct, names):
                self.report('order:json-output', 'JsonDocument wrote %r, declared order is %r' % (dct, names))


def _instance_checks(self, c, flat):
    """everything an instance does with the field order: positional construction, item access, repr, as_dict,
    defaults, the flattened (HttpRpc) key view"""
    keys = list(flat.keys())
    own = list(c._type_info.keys())
    if c.__orig__ is not None:
        return          # instances are instances of the original class
    if any(t.Attributes.validate_on_assignment or t.Attributes.read_only for t in flat.values()) or \
            any(isinstance(getattr(c, k, None), property) for k in flat):
        # (assignment checkers are installed with a late-binding closure over the field name - all of them guard the
        # last field - which is about assignment validation, not about derivation or order)
        self.ctx.hit('instance-skipped:validate_on_assignment')
        return
    try:
        vals = list(range(100, 100 + len(keys)))
        inst = c.get_serialization_instance(vals)
        got = [getattr(inst, k, None) for k in keys]
        if got != vals:
            self.report('order:positional', 'get_serialization_instance(list) of %s assigns %r to %r' % (c.__name__, got, keys))
        for i, k in enumerate(own):
            if inst[i] != getattr(inst, k, None):
                self.report('order:getitem', 'instance[%d] of %s is not its field %r' % (i, c.__name__, k))
        if len(inst) != len(own):
            self.report('order:len', 'len(instance) of %s is %d, it has %d own fields' % (c.__name__, len(inst), len(own)))
        inst2 = c.get_serialization_instance(dict(zip(keys, vals)))
        if [getattr(inst2, k, None) for k in keys] != vals:
            self.report('order:from-dict', 'get_serialization_instance(dict) of %s loses values' % c.__name__)
        rep = repr(inst)
        pos = [rep.find('%s=' % k) for k in keys]
        if any(p < 0 for p in pos) or pos != sorted(pos):
            if len(set(keys)) == len(keys) and not any(a != b and a.endswith(b) for a in keys for b in keys):
                self.report('order:repr', 'repr(instance) of %s lists the fields as %r' % (c.__name__, rep[:120]))
        if list(inst.as_dict().keys()) != keys:
            self.report('order:as_dict', 'as_dict() of %s has keys %r, declared order is %r' % (c.__name__, list(inst.as_dict().keys()), keys))
        # the defaults of the field types are what a fresh instance starts with
        fresh = (c.__orig__ or c)()
        for k, t in (c.__orig__ or c).get_flat_type_info(c.__orig__ or c).items():
            fac = t.Attributes.default_factory
            if fac is not None and getattr(fresh, k, None) != fac():
                self.report('exact:default_factory', 'field %r of %s has a default_factory giving %r, a fresh instance has %r' % (k, c.__name__, fac(), getattr(fresh, k, None)))
            d = t.Attributes.default
            if fac is None and d is not None and getattr(fresh, k, None) != d:
                self.report('exact:default', 'field %r of %s has default %r, a fresh instance has %r' % (k, c.__name__, d, getattr(fresh, k, None)))
        self.ctx.hit('instance-checked')
    except Exception as e:
        self.ctx.hit('instance-skipped:' + type(e).__name__)
    try:
        sti = c.get_simple_type_info(c)
        top = [k for k in sti.keys() if '.' not in k]
        if not order_consistent(top, keys):
            self.report('order:simple-type-info', 'get_simple_type_info of %s lists %r, declared order is %r' % (c.__name__, top, keys))
        self.ctx.hit('simple-type-info-checked')
    except Exception as e:
        self.ctx.hit('simple-type-info-skipped:' + type(e).__name__)


Oracle.instance_checks = _instance_checks


def pre_facts(impl, op):
    """what the oracle needs to know about the state before the operation"""
    pre = {}
    k = op['k']
    if k in ('cust', 'mand', 'array', 'xmlattr', 'xcust'):
        src = impl.pool[op['src']]
        pre['src'] = src
        ti = getattr(src, '_type_info', None)
        pre['src_fields'] = list(ti.items()) if isinstance(ti, dict) else []
        pre['src_flat'] = flat_names(src) if is_complex(src) else []
    if k == 'sub' and op.get('base') is not None:
        # a class statement adds itself to `_subclasses` of the class it extends (seen by its variants, and by
        # get_subclasses() of every class above it)
        b = impl.pool[op['base']]
        chain = []
        x = b if len(b._type_info) > 0 else b.__extends__
        while x is not None:
            chain.append(x)
            x = x.__extends__
        allowed = set()
        for x in chain:
            allowed.add(id(x))
            allowed |= {id(v) for v in impl.registry.values() if is_complex(v) and v.__dict__.get('__orig__') is x}
        pre['allowed_sub'] = allowed
    if k in ('append', 'insert'):
        c = impl.pool[op['c']]
        targets = [c]
        if c.__orig__ is None:
            targets += [x for x in impl.registry.values() if is_complex(x) and x.__dict__.get('__orig__') is c]
        pre['c'] = c
        pre['targets'] = targets
        pre['allowed'] = {id(x) for x in targets}
        pre['keys'] = {id(x): list(x._type_info.keys()) for x in targets}
    return pre


# ------------------------------------------------------------------------------------ corpus: hand-written histories
def _kw(**k):
    return [[a, aval(v)] for a, v in k.items()]


I_, U_, D_, I32_, U8_, UI_, B_, BA_ = range(8)      # pool indices of the bases
CORPUS = [
    # Mandatory(Array(...)) with a second observer of the array (D18)
    ('mandatory-array', [{'k': 'array', 'src': I_, 'kw': []}, {'k': 'mand', 'src': 8},
                         {'k': 'array', 'src': 8, 'kw': []}, {'k': 'mand', 'src': 10}, {'k': 'mand', 'src': U_},
                         {'k': 'array', 'src': U_, 'kw': [], 'iter': True}, {'k': 'mand', 'src': 13}]),
    # a subclass must not feed (or be fed by) the variants of its base
    ('variants-of-subclass', [{'k': 'sub', 'name': 'CA', 'base': None, 'ns': 'ns.a', 'fields': [['a', I_], ['b', U_]]},
                              {'k': 'sub', 'name': 'CB', 'base': 8, 'ns': None, 'fields': [['c', I_]]},
                              {'k': 'cust', 'src': 8, 'kw': _kw(min_occurs=1)},
                              {'k': 'cust', 'src': 9, 'kw': _kw(min_occurs=1)},
                              {'k': 'append', 'c': 9, 'name': 'w', 't': U_},
                              {'k': 'append', 'c': 8, 'name': 'z', 't': I_},
                              {'k': 'insert', 'c': 9, 'idx': 0, 'name': 'v', 't': I_},
                              {'k': 'cust', 'src': 10, 'kw': _kw(nillable=False)},
                              {'k': 'append', 'c': 8, 'name': 'y', 't': B_}]),
    # variants are registered after the subclass exists; base customised later
    ('variants-late', [{'k': 'sub', 'name': 'LA', 'base': None, 'ns': None, 'fields': [['a', I_]]},
                       {'k': 'sub', 'name': 'LB', 'base': 8, 'ns': None, 'fields': [['b', I_]]},
                       {'k': 'cust', 'src': 9, 'kw': _kw(max_occurs=3)},
                       {'k': 'cust', 'src': 8, 'kw': _kw(sub_name='alt')},
                       {'k': 'append', 'c': 8, 'name': 'n', 't': U_}, {'k': 'append', 'c': 9, 'name': 'm', 't': U_}]),
    # delayed child attributes: a name nobody declares yet, then appended / inserted
    ('delayed-child-attrs', [{'k': 'sub', 'name': 'DA', 'base': None, 'ns': 'ns.a', 'fields': [['a', I_], ['b', U_]]},
                             {'k': 'cust', 'src': 8, 'kw': [], 'ca': [['a', _kw(min_occurs=1)], ['later', _kw(max_occurs=5)]]},
                             {'k': 'cust', 'src': 8, 'kw': [], 'caa': _kw(nillable=False)},
                             {'k': 'cust', 'src': 9, 'kw': _kw(min_occurs=2)},
                             {'k': 'append', 'c': 8, 'name': 'later', 't': U_},
                             {'k': 'insert', 'c': 8, 'idx': 1, 'name': 'later', 't': I_},
                             {'k': 'append', 'c': 8, 'name': 'later', 't': B_}]),
    # child attributes through a base class
    ('child-attrs-inherited', [{'k': 'sub', 'name': 'PA', 'base': None, 'ns': None, 'fields': [['a', I_], ['b', U_]]},
                               {'k': 'sub', 'name': 'PB', 'base': 8, 'ns': None, 'fields': [['c', I32_], ['d', 8]]},
                               {'k': 'cust', 'src': 9, 'kw': _kw(type_name='Ren'), 'ca': [['a', _kw(min_occurs=1)], ['c', _kw(exc=True)], ['zz', _kw(default=7)]]},
                               {'k': 'cust', 'src': 9, 'kw': [], 'caa': _kw(min_occurs=1)},
                               {'k': 'append', 'c': 8, 'name': 'zz', 't': I_}, {'k': 'append', 'c': 9, 'name': 'zz', 't': I_}]),
    # customised primitives: defaults, bounds, aliases, type names
    ('primitives', [{'k': 'cust', 'src': I32_, 'kw': _kw(ge=0)}, {'k': 'cust', 'src': 8, 'kw': _kw(le=100, voa=True)},
                    {'k': 'cust', 'src': U8_, 'kw': _kw(ge=300)}, {'k': 'cust', 'src': U8_, 'kw': _kw(gt=255)},
                    {'k': 'cust', 'src': U8_, 'kw': _kw(lt=0)}, {'k': 'cust', 'src': I32_, 'kw': _kw(le=-2 ** 31 - 1)},
                    {'k': 'cust', 'src': D_, 'kw': _kw(total_digits=3, fraction_digits=12)},
                    {'k': 'cust', 'src': D_, 'kw': _kw(total_digits=10, fraction_digits=2)},
                    {'k': 'cust', 'src': 10, 'kw': _kw(min_occurs=1)},
                    {'k': 'cust', 'src': U_, 'kw': _kw(max_len=5, type_name='Short')},
                    {'k': 'cust', 'src': 12, 'kw': _kw(max_len=INF, exc_table=True)},
                    {'k': 'cust', 'src': U_, 'kw': _kw(nullable=False, max_occurs='unbounded', _private=1, doc='d')},
                    {'k': 'cust', 'src': BA_, 'kw': _kw(min_occurs=1)}, {'k': 'cust', 'src': B_, 'kw': _kw(values=[])},
                    {'k': 'xmlattr', 'src': 8}, {'k': 'cust', 'src': 17, 'kw': _kw(min_occurs=1)},
                    {'k': 'mand', 'src': 8}, {'k': 'mand', 'src': 12}, {'k': 'array', 'src': 12, 'kw': []},
                    {'k': 'array', 'src': 8, 'kw': _kw(min_occurs=1), 'member': 'item'},
                    {'k': 'array', 'src': I_, 'kw': _kw(min_occurs=1), 'flat': True}]),
    # subclassing: empty base, customised base, insert positions
    ('subclassing', [{'k': 'sub', 'name': 'E0', 'base': None, 'ns': None, 'fields': []},
                     {'k': 'sub', 'name': 'E1', 'base': 8, 'ns': 'ns.k', 'fields': [['x', I_], ['y', U_]]},
                     {'k': 'append', 'c': 8, 'name': 'late', 't': I_},
                     {'k': 'cust', 'src': 9, 'kw': _kw(min_occurs=1)},
                     {'k': 'sub', 'name': 'E2', 'base': 10, 'ns': None, 'fields': [['q', I_]]},
                     {'k': 'sub', 'name': 'E3', 'base': 9, 'ns': None, 'fields': [['x', U_], ['z', 9]]},
                     {'k': 'insert', 'c': 9, 'idx': 5, 'name': 'tail', 't': I_},
                     {'k': 'insert', 'c': 9, 'idx': 1, 'name': 'x', 't': B_},
                     {'k': 'append', 'c': 10, 'name': 'only-variant', 't': I_}]),
]

CORPUS.append(
    # several fields with `order=`: inserted one after the other, in declaration sequence - under every hash seed
    ('ordered-fields', [{'k': 'cust', 'src': U_, 'kw': _kw(order=0)}, {'k': 'cust', 'src': I_, 'kw': _kw(order=0)},
                        {'k': 'cust', 'src': B_, 'kw': _kw(order=1)}, {'k': 'cust', 'src': D_, 'kw': _kw(order=0)},
                        {'k': 'sub', 'name': 'Ord', 'base': None, 'ns': 'ns.a',
                         'fields': [['plain', I_], ['alpha', 8], ['beta', 9], ['gamma', 10], ['delta', 11], ['epsilon', 8],
                                    ['zeta', 9], ['last', U_]]},
                        {'k': 'cust', 'src': 12, 'kw': _kw(min_occurs=1)},
                        {'k': 'sub', 'name': 'Ord2', 'base': 12, 'ns': 'ns.a', 'fields': [['p', 9], ['q', 8], ['r', 11]]}]))
CORPUS.append(
    # an unnamed customised primitive shared by a class and its later subclass: who names it in the schema?
    ('anonymous-type-name', [{'k': 'cust', 'src': U_, 'kw': _kw(max_len=5)},
                             {'k': 'sub', 'name': 'N1', 'base': None, 'ns': 'ns.a', 'fields': [['a', I_], ['d', 8]]},
                             {'k': 'sub', 'name': 'N2', 'base': 9, 'ns': 'ns.a', 'fields': [['c', 8]]},
                             {'k': 'sub', 'name': 'N0', 'base': None, 'ns': 'ns.a', 'fields': [['z', 8]]}]))

# a history outside the generated (acyclic) space on which the property is known to fail
RECURSIVE = [{'k': 'sub', 'name': 'RA', 'base': None, 'ns': None, 'fields': [['a', I_]]},
             {'k': 'cust', 'src': 8, 'kw': [], 'caa': _kw(nillable=False)},
             {'k': 'cust', 'src': 8, 'kw': _kw(min_occurs=1)},
             {'k': 'append', 'c': 8, 'name': 'self', 't': 10}]


# ------------------------------------------------------------------------------------ running histories
def run_history(ctx, hid, ops=None, rng=None, length=0, with_schema=False, oracle=True, exotic=False):
    """one history on the implementation with the T3 oracle; returns (ops, [(res, delta)...])"""
    impl = Impl()
    orc = Oracle(ctx, impl, hid, with_schema) if oracle else None
    last = []

    def delta():
        d = []
        for i, c in enumerate(impl.pool):
            s = snap(c)
            if i < len(last):
                if last[i] != s:
                    d.append([i, s])
                    last[i] = s
            else:
                d.append([i, s])
                last.append(s)
        return d

    trace = [('init', delta())]
    done = []
    n = len(ops) if ops is not None else length
    for step in range(n):
        if ops is not None:
            op = ops[step]
        elif exotic and step > 1 and rng.random() < 0.4:
            op = gen_xop(rng, impl)
        else:
            op = gen_op(rng, impl, step, hid)
        pre = pre_facts(impl, op) if orc else {}
        try:
            new = impl.apply(op)
            res = 'ok'
        except Crash as e:
            new, res = None, 'err:' + str(e)
        done.append(op)
        ctx.hit('op:' + op['k'] + (':err' if res != 'ok' else ''))
        if op['k'] == 'cust':
            if op.get('ca') is not None:
                ctx.hit('op:cust:child_attrs')
            if op.get('caa') is not None:
                ctx.hit('op:cust:child_attrs_all')
        if orc:
            orc.step(op, res, new, pre)
        trace.append((res, delta()))
        ctx.case({'h': hid, 'step': step, 'op': op, 'res': res}, nontrivial=True)
        ctx.cov['traces_validated_against_impl'] += 1
    if orc:
        orc.final()
    return done, trace, impl


SPEC_PROTS_JSON = [[[k, aval(v)] for k, v in spec.items()] for spec in PROT_SPECS]


def compare_with_model(ctx, runs):
    """T2: `runs` = [(hid, ops, trace)]"""
    answers = model_parallel(ctx, [{'op': 'run', 'bases': len(BASES), 'ops': ops} for _, ops, _ in runs])
    for (hid, ops, trace), a in zip(runs, answers):
        if 'driver_error' in a:
            raise core.Infra('driver error: %r' % (a,))
        steps = a['steps']
        for si, ((res, d), ms) in enumerate(zip(trace, steps)):
            ok = (res == ms['res']) and d == ms['delta']
            if ok and 'prots' in ms and ms['prots'] != SPEC_PROTS_JSON:
                ctx.disagree('prots', {'hid': hid, 'history': ops[:si], 'step': si - 1}, SPEC_PROTS_JSON, ms['prots'])
                break
            if not ok:
                what = 'result' if res != ms['res'] else 'snapshot'
                di, dm = dict((i, s) for i, s in d), dict((i, s) for i, s in ms['delta'])
                diffs = []
                for i in sorted(set(di) | set(dm)):
                    if di.get(i) != dm.get(i):
                        diffs.append({'pool': i, 'diff': first_diff(di.get(i), dm.get(i))})
                ctx.disagree('history', {'hid': hid, 'history': ops[:si], 'step': si - 1, 'what': what},
                             {'res': res, 'diff': diffs[:3]}, {'res': ms['res']})
                break


def first_diff(x, y, path=''):
    if isinstance(x, dict) and isinstance(y, dict):
        for k in sorted(set(x) | set(y)):
            r = first_diff(x.get(k), y.get(k), path + '/' + k)
            if r:
                return r
        return None
    if isinstance(x, list) and isinstance(y, list) and len(x) == len(y):
        for n, (p, q) in enumerate(zip(x, y)):
            r = first_diff(p, q, path + '/%d' % n)
            if r:
                return r
        return None
    if x != y:
        return '%s: impl=%s model=%s' % (path, json.dumps(x, default=str)[:200], json.dumps(y, default=str)[:200])
    return None


# ------------------------------------------------------------------------------------ other hash seeds (fresh interpreters)
def final_state(ops_list):
    """final deep snapshots, schema fragments and output orders for a list of histories (no oracle)"""
    class _Ctx:
        cov = {'traces_validated_against_impl': 0}

        def hit(self, *a):
            pass

        def case(self, *a, **k):
            pass
    out = []
    for ops in ops_list:
        done, trace, impl = run_history(_Ctx(), 0, ops=ops, oracle=False)
        so = SchemaObs(impl)
        st = {'res': [r for r, _ in trace], 'snaps': [snap(c) for c in impl.pool], 'schema': [], 'out': []}
        for c in impl.pool:
            if is_complex(c) and c.__dict__.get('__module__') == 'c15hist':
                st['schema'].append(so.render(c))
            if kind_of(c) == 'complex':
                try:
                    st['out'].append(output_orders(c))
                except Exception as e:
                    st['out'].append('exc:' + type(e).__name__)
        out.append(st)
    return out


def child_main():
    ops_list = json.load(sys.stdin)
    json.dump({'seed': os.environ.get('PYTHONHASHSEED'), 'states': final_state(ops_list)}, sys.stdout, default=str)


def other_seeds(ctx, ops_list, seeds):
    ref = json.loads(json.dumps(final_state(ops_list), default=str))
    env = dict(os.environ)
    env['PYTHONPATH'] = os.pathsep.join([p for p in [os.environ.get('SPYNE_REPO'), core.VERIF] if p])
    env['PYTHONWARNINGS'] = 'ignore'
    procs = []
    for s in seeds:
        e = dict(env, PYTHONHASHSEED=str(s))
        procs.append((s, subprocess.Popen([sys.executable, '-B', '-c', 'import harness.c15 as m; m.child_main()'],
                                          cwd=core.VERIF, env=e, stdin=subprocess.PIPE, stdout=subprocess.PIPE,
                                          stderr=subprocess.PIPE, text=True)))
    data = json.dumps(ops_list)
    for s, p in procs:
        out, err = p.communicate(data, timeout=600)
        if p.returncode != 0:
            raise core.Infra('hash-seed child failed: ' + err[-1500:])
        got = json.loads(out)
        if str(got['seed']) != str(s):
            raise core.Infra('hash seed not applied')
        ctx.cov['hash_seed_runs'] = ctx.cov.get('hash_seed_runs', 0) + 1
        for hi, (a, b) in enumerate(zip(ref, got['states'])):
            ctx.cov['evaluations'] += 1
            if a != b:
                part = [k for k in a if a[k] != b[k]]
                ctx.hit('t3-fail:hashseed')
                ctx.finding('order:hash-seed:' + '+'.join(part),
                            'under PYTHONHASHSEED=%s the %s of the pooled models differ' % (s, '/'.join(part)),
                            {'history': ops_list[hi], 'hash_seed': s, 'oracle': 'hash-seed',
                             'diff': first_diff(a, b)})


# ------------------------------------------------------------------------------------ run
CORPUS_ORDERED = [c for c in CORPUS if c[0] == 'ordered-fields'][0][1]
FACT_WITNESS = {
    'mandRule': [{'k': 'array', 'src': I_, 'kw': []}, {'k': 'mand', 'src': 8}],
    'varRule': CORPUS[1][1][:5],
    'varRuleX': [{'k': 'sub', 'name': 'XBase', 'base': None, 'ns': None, 'fields': [['a', U_]]},
                 {'k': 'sub', 'name': 'XDerived', 'base': 8, 'ns': None, 'fields': [['b', I_]], 'attrs': _kw(foo=42)},
                 {'k': 'cust', 'src': 8, 'kw': _kw(min_occurs=1)}, {'k': 'cust', 'src': 9, 'kw': _kw(min_occurs=1)},
                 {'k': 'append', 'c': 9, 'name': 'late', 't': B_}, {'k': 'insert', 'c': 8, 'idx': 0, 'name': 'early', 't': I_},
                 {'k': 'sub', 'name': 'XD2', 'base': 9, 'ns': None, 'fields': [['c', I_]], 'attrs': []},
                 {'k': 'cust', 'src': 12, 'kw': _kw(max_occurs=2)}, {'k': 'append', 'c': 12, 'name': 'z', 't': U_},
                 {'k': 'append', 'c': 9, 'name': 'y', 't': U_}],
    'patRule': [{'k': 'cust', 'src': U_, 'kw': _kw(pattern='[a-z]+')}, {'k': 'cust', 'src': 8, 'kw': _kw(pattern='[0-9]+')},
                {'k': 'cust', 'src': 9, 'kw': _kw(pattern=None)}, {'k': 'cust', 'src': 10, 'kw': _kw(pattern='a*', min_len=1)},
                {'k': 'cust', 'src': 8, 'kw': _kw(min_len=3, max_len=5)}, {'k': 'cust', 'src': 12, 'kw': _kw(min_len=0, max_len=2)},
                {'k': 'cust', 'src': I_, 'kw': _kw(ge=0, le=100)}, {'k': 'cust', 'src': 14, 'kw': _kw(ge=3, le=300)},
                {'k': 'cust', 'src': 15, 'kw': _kw(values=[1, 2, 3])}, {'k': 'cust', 'src': 16, 'kw': _kw(values=[0])},
                {'k': 'cust', 'src': 8, 'kw': _kw(values=['a', 'b'])}, {'k': 'cust', 'src': 18, 'kw': _kw(values=['abc'])}],
    'delayAppend': [{'k': 'sub', 'name': 'DA', 'base': None, 'ns': None, 'fields': [['a', I_], ['b', U_]]},
                    {'k': 'cust', 'src': 8, 'kw': [], 'ca': [['later', _kw(min_occurs=2, nillable=True)], ['b', _kw(min_occurs=2)]],
                     'caa': _kw(min_occurs=1, nillable=False)},
                    {'k': 'cust', 'src': 9, 'kw': _kw(max_occurs=2)},
                    {'k': 'append', 'c': 8, 'name': 'later', 't': I_},
                    {'k': 'insert', 'c': 8, 'idx': 0, 'name': 'later', 't': U_},
                    {'k': 'cust', 'src': 8, 'kw': [], 'ca': [['z2', _kw(sub_name='alt')]], 'caa': _kw(sub_name='other')},
                    {'k': 'insert', 'c': 8, 'idx': 1, 'name': 'z2', 't': B_}, {'k': 'append', 'c': 8, 'name': 'z2', 't': I_}],
    'delayInsert': [{'k': 'sub', 'name': 'DA', 'base': None, 'ns': None, 'fields': [['a', I_], ['b', U_]]},
                    {'k': 'cust', 'src': 8, 'kw': [], 'ca': [['later', _kw(min_occurs=2, nillable=True)], ['b', _kw(min_occurs=2)]],
                     'caa': _kw(min_occurs=1, nillable=False)},
                    {'k': 'cust', 'src': 9, 'kw': _kw(max_occurs=2)},
                    {'k': 'append', 'c': 8, 'name': 'later', 't': I_},
                    {'k': 'insert', 'c': 8, 'idx': 0, 'name': 'later', 't': U_},
                    {'k': 'cust', 'src': 8, 'kw': [], 'ca': [['z2', _kw(sub_name='alt')]], 'caa': _kw(sub_name='other')},
                    {'k': 'insert', 'c': 8, 'idx': 1, 'name': 'z2', 't': B_}, {'k': 'append', 'c': 8, 'name': 'z2', 't': I_}][:3] + [{'k': 'insert', 'c': 8, 'idx': 0, 'name': 'later', 't': U_}],
    'protCopy': [{'k': 'sub', 'name': 'Person', 'base': None, 'ns': 'ns.a', 'fields': [['name', U_], ['age', I_]]},
                 {'k': 'sub', 'name': 'Pet', 'base': None, 'ns': 'ns.a', 'fields': [['name', U_], ['legs', I_]]},
                 {'k': 'cust', 'src': U_, 'kw': _kw(max_len=4), 'prot': 1},
                 {'k': 'cust', 'src': 8, 'kw': [], 'ca': [['name', _kw(max_len=2)]], 'prot': 1},
                 {'k': 'cust', 'src': U_, 'kw': [], 'prot': 1}, {'k': 'cust', 'src': 9, 'kw': [], 'prot': 1},
                 {'k': 'cust', 'src': I_, 'kw': _kw(ge=0), 'prot': 2}, {'k': 'cust', 'src': I_, 'kw': _kw(min_occurs=0), 'prot': 2},
                 {'k': 'cust', 'src': I_, 'kw': _kw(le=5), 'prot': 0}, {'k': 'cust', 'src': U_, 'kw': [], 'prot': 2}],
    'mixinOrder': [{'k': 'sub', 'name': 'M1', 'base': None, 'ns': 'ns.a', 'fields': [['x', I_], ['y', U_], ['z', B_]], 'asMixin': True},
                   {'k': 'sub', 'name': 'M2', 'base': None, 'ns': 'ns.a', 'fields': [['u', I_], ['v', U_]], 'asMixin': True},
                   {'k': 'sub', 'name': 'PA', 'base': None, 'ns': 'ns.a', 'fields': [['a', I_]]},
                   {'k': 'sub', 'name': 'K1', 'base': None, 'ns': 'ns.a', 'fields': [['c', I_]], 'mixins': [8]},
                   {'k': 'sub', 'name': 'K2', 'base': 10, 'ns': 'ns.a', 'fields': [['c', I_], ['y', I_]], 'mixins': [8, 9]},
                   {'k': 'cust', 'src': 12, 'kw': _kw(min_occurs=1)}, {'k': 'append', 'c': 12, 'name': 'w', 't': U_},
                   {'k': 'sub', 'name': 'K3', 'base': 11, 'ns': 'ns.a', 'fields': [['d', I_]], 'mixins': [9], 'attrs': _kw(foo=1)}],
    'noexc+order+sa': [{'k': 'sub', 'name': 'NA', 'base': None, 'ns': 'ns.a', 'fields': [['a', I_], ['b', U_], ['c', I_]]},
                       {'k': 'cust', 'src': 8, 'kw': [], 'nx': [['a', _kw(max_occurs=2)], ['zz', _kw(min_occurs=3)]],
                        'caa': _kw(min_occurs=1), 'ca': [['b', _kw(min_occurs=2)], ['a', _kw(sub_name='alt')]]},
                       {'k': 'cust', 'src': 8, 'kw': [], 'nx': [['c', []]]},
                       {'k': 'append', 'c': 8, 'name': 'zz', 't': I_},
                       {'k': 'cust', 'src': U_, 'kw': _kw(order=0)}, {'k': 'cust', 'src': I_, 'kw': _kw(order=1)},
                       {'k': 'sub', 'name': 'OB', 'base': None, 'ns': 'ns.a', 'fields': [['x', I_], ['y', 11], ['z', 12], ['w', U_]]},
                       {'k': 'array', 'src': I_, 'kw': []},
                       {'k': 'cust', 'src': 14, 'kw': _kw(max_occurs=3), 'sa': _kw(min_occurs=1)},
                       {'k': 'cust', 'src': 15, 'kw': [], 'sa': _kw(nillable=False, sub_ns='ns.sub')},
                       {'k': 'sub', 'name': 'OC', 'base': 13, 'ns': 'ns.a', 'fields': [['q', 12], ['r', 15]], 'attrs': _kw(nullable=False)}],
    'subsRule': [{'k': 'sub', 'name': 'SBase', 'base': None, 'ns': 'ns.a', 'fields': [['a', I_]]},
                 {'k': 'sub', 'name': 'SSub', 'base': 8, 'ns': 'ns.a', 'fields': [['b', U_]]},
                 {'k': 'cust', 'src': 9, 'kw': _kw(min_occurs=1)},
                 {'k': 'cust', 'src': 9, 'kw': [], 'ca': [['b', _kw(min_occurs=1)]], 'caa': _kw(nillable=False)},
                 {'k': 'mand', 'src': 9}, {'k': 'array', 'src': 9, 'kw': []},
                 {'k': 'sub', 'name': 'SSub2', 'base': 8, 'ns': 'ns.a', 'fields': [['c', I_]]},
                 {'k': 'sub', 'name': 'SSubSub', 'base': 9, 'ns': 'ns.a', 'fields': [['d', I_]]},
                 {'k': 'cust', 'src': 15, 'kw': _kw(max_occurs=2)}],
    'mslRule': [{'k': 'cust', 'src': I32_, 'kw': _kw(ge=0)}, {'k': 'cust', 'src': D_, 'kw': _kw(total_digits=5)}],
    'colCopy': [{'k': 'cust', 'src': U_, 'kw': _kw(max_len=32)}, {'k': 'cust', 'src': 8, 'kw': _kw(pk=True)},
                {'k': 'cust', 'src': 8, 'kw': _kw(min_len=2)},
                {'k': 'sub', 'name': 'Item', 'base': None, 'ns': 'ns.a', 'fields': [['id', 9], ['label', 8], ['alias', 10]]},
                {'k': 'cust', 'src': 10, 'kw': _kw(autoincrement=True, index=True)},
                {'k': 'cust', 'src': 11, 'kw': _kw(pk=True)}, {'k': 'cust', 'src': 13, 'kw': _kw(server_default='x', unique=True)}],
    'dictOrdered': CORPUS_ORDERED + [{'k': 'sub', 'name': 'W', 'base': None, 'ns': None, 'fields': [['zeta', I_], ['alpha', U_], ['mid', I_]]}],
}


def run(ctx):
    core.assert_repo()
    f = measure_facts()
    ctx.facts = {k: v for k, v in f.items() if k != 'bases'}
    ctx.write_generated('Facts15.lean', facts_lean(f))
    for k, good in GOOD.items():
        ctx.hit('fact:%s=%s' % (k, f[k]))
        if f[k] != good:
            # the witness history is replayed below with the oracle; it produces the concrete finding
            ctx.log('T1: switch %s measured %r (good: %r)' % (k, f[k], good))
    ctx.cov['facts'] = ctx.facts
    ctx.prove()

    runs = []
    nschema = 10 ** 9 if ctx.thorough else 40
    # ---- corpus + switch witnesses
    hid = 0
    for name, ops in [('witness:' + k, w) for k, w in FACT_WITNESS.items()] + CORPUS:
        done, trace, _ = run_history(ctx, name, ops=ops, with_schema=True)
        runs.append((name, done, trace))
        ctx.hit('corpus')
    # ---- the known recursive-type history (outside the generated space)
    recursive_case(ctx)
    # ---- class statements with SelfReference fields (T3 only)
    selfref_cases(ctx)
    # ---- random histories
    n = 1500 if ctx.thorough else 150
    for hid in range(n):
        length = ctx.rng.choice([8, 12, 16, 20, 24, 30, 40] if ctx.thorough else [8, 12, 16, 20, 24, 30])
        done, trace, _ = run_history(ctx, hid, rng=ctx.rng, length=length, with_schema=hid < nschema)
        runs.append((hid, done, trace))
        ctx.hit('len:%d' % length)
        if hid % 25 == 24:
            gc.collect()
    # ---- directed: what an exotic keyword set survives every further derivation, down to fresh instances
    directed = [{'k': 'xcust', 'src': U_, 'x': ['default_factory', 'parser'], 'kw': []},          # 8
                {'k': 'cust', 'src': 8, 'kw': _kw(max_len=5)},                                     # 9
                {'k': 'cust', 'src': 9, 'kw': []},                                                 # 10
                {'k': 'mand', 'src': 10},                                                          # 11
                {'k': 'array', 'src': 9, 'kw': []},                                                # 12
                {'k': 'sub', 'name': 'DF', 'base': None, 'ns': 'ns.a', 'fields': [['t', 9], ['u', 10], ['v', I_]]},   # 13
                {'k': 'cust', 'src': 13, 'kw': [], 'ca': [['t', _kw(min_occurs=1)]], 'caa': _kw(sub_name='alt')},   # 14
                {'k': 'xcust', 'src': I_, 'x': ['default_factory'], 'kw': []},                     # 15
                {'k': 'cust', 'src': 15, 'kw': _kw(ge=0)},                                         # 16
                {'k': 'append', 'c': 13, 'name': 'w', 't': 16},
                {'k': 'sub', 'name': 'DG', 'base': 13, 'ns': 'ns.a', 'fields': [['x', 16]]}]
    run_history(ctx, 'x-directed', ops=directed, with_schema=False, exotic=True)
    # ---- histories with keywords outside the Lean model (callables, prot_attrs, foreign keys, store_as, ...): T3 only
    for hid in range(200 if ctx.thorough else 24):
        run_history(ctx, 'x%d' % hid, rng=ctx.rng, length=ctx.rng.choice([8, 12, 16]), with_schema=False, exotic=True)
        ctx.hit('exotic-history')
    # ---- T2
    compare_with_model(ctx, runs)
    # ---- other hash seeds
    sel = [ops for _, ops, _ in runs[:len(FACT_WITNESS) + len(CORPUS)]] + [ops for _, ops, _ in runs[-(40 if ctx.thorough else 12):]]
    other_seeds(ctx, sel, [0, 1, 2, 3, 4, 12345] if not ctx.thorough else list(range(0, 17)))
    ctx.cov['histories'] = len(runs)
    ctx.cov['rule'] = ('one evaluation = one operation of a history applied to real spyne classes and observed (deep snapshot of '
                       'every pooled model for T2; shallow observation of every class reachable from the pool - all public '
                       'attributes, field table, verdicts, own schema fragment for the first histories - for T3), plus one per '
                       '(history, hash seed) rerun; histories = hand-written corpus + switch witnesses + seeded random sequences '
                       '(8-40 ops over a growing pool starting from 8 primitives: primitive/complex/array customisation with '
                       'attribute aliases, child_attrs, child_attrs_all, Array/Iterable/unwrapped, Mandatory, subclassing, '
                       'append_field, insert_field, XmlAttribute); distinct = distinct (history, step, op, outcome); all non-trivial')


SELF_KINDS = ['int', 'uni', 'self', 'self_cust', 'self_array', 'self_cust2']


def selfref_check(ctx, spec, serial):
    """class statement with SelfReference fields (plain, customized, in an Array): afterwards neither the class nor any
    variant created while the placeholders were being resolved may still hold a placeholder. T3 only: recursive
    types are outside the Lean model."""
    cx, P, B, ModelBase = impl_env()
    from spyne.util.odict import odict
    body = odict([('__module__', 'c15hist'), ('__namespace__', 'ns.self')])
    for n, kind in spec:
        body[n] = {'int': P.Integer, 'uni': P.Unicode, 'self': cx.SelfReference,
                   'self_cust': cx.SelfReference.customize(min_occurs=1),
                   'self_cust2': cx.SelfReference.customize(nillable=False, max_occurs=2),
                   'self_array': cx.Array(cx.SelfReference)}[kind]
    try:
        K = cx.ComplexModelMeta('S%d' % serial, (cx.ComplexModel,), body)
    except Exception as e:
        ctx.hit('selfref:crash:' + type(e).__name__)
        ctx.finding('selfref:class-statement-raises', 'class statement with self references raises %s' % type(e).__name__,
                    {'oracle': 'selfref', 'spec': spec})
        return

    def placeholder(t):
        if issubclass(t, cx.SelfReference):
            return True
        if issubclass(t, cx.Array):
            return any(issubclass(m, cx.SelfReference) for m in t._type_info.values())
        return False
    ctx.cov['evaluations'] += 1
    ctx.hit('selfref-checked')
    names = [n for n, _ in spec]
    for who, c in [('class', K)] + [('variant', v) for v in (K.Attributes._variants or ())]:
        if list(c._type_info.keys()) != names:
            ctx.finding('selfref:%s-fields' % who, 'fields of the %s are %r, declared %r' % (who, list(c._type_info.keys()), names),
                        {'oracle': 'selfref', 'spec': spec})
        left = [n for n, t in c._type_info.items() if placeholder(t)]
        if left:
            ctx.finding('selfref:%s-keeps-placeholder' % who,
                        'after the class statement the %s still has raw SelfReference placeholders in %r' % (who, left),
                        {'oracle': 'selfref', 'spec': spec})
    for n, kind in spec:
        t = K._type_info[n]
        if kind == 'self' and t is not K:
            ctx.finding('selfref:plain-not-class', 'a plain SelfReference field is not the class itself', {'oracle': 'selfref', 'spec': spec})
        if kind == 'self_cust' and not (getattr(t, '__orig__', None) is K and t.Attributes.min_occurs == 1):
            ctx.finding('selfref:customized', 'SelfReference.customize(min_occurs=1) did not become a min_occurs=1 variant of the class',
                        {'oracle': 'selfref', 'spec': spec})


def selfref_cases(ctx):
    specs = [[['a', 'self_cust'], ['b', 'self']], [['a', 'int'], ['b', 'self_array'], ['c', 'self']],
             [['a', 'self_cust'], ['b', 'self_cust2'], ['c', 'uni'], ['d', 'self']], [['a', 'self']],
             [['a', 'self_array'], ['b', 'self_cust'], ['c', 'self_array']]]
    for _ in range(300 if ctx.thorough else 40):
        n = ctx.rng.choice([2, 3, 3, 4])
        spec = [[FIELD_NAMES[i], ctx.rng.choice(SELF_KINDS)] for i in range(n)]
        if not any(k.startswith('self') for _, k in spec):
            spec[ctx.rng.randrange(n)][1] = 'self_cust'
        specs.append(spec)
    for i, spec in enumerate(specs):
        selfref_check(ctx, spec, i)


def recursive_case(ctx):
    """appending a variant of a class to the class itself while another variant has delayed child attributes:
    propagation dies half-way with RuntimeError (dictionary changed size during iteration)"""
    class _Q:
        cov = {'traces_validated_against_impl': 0}

        def hit(self, *a):
            pass

        def case(self, *a, **k):
            pass
    impl = Impl()
    for op in RECURSIVE[:-1]:
        impl.apply(op)
    c = impl.pool[8]
    variants = [x for x in impl.registry.values() if is_complex(x) and x.__dict__.get('__orig__') is c]
    try:
        impl.apply(RECURSIVE[-1])
        res = 'ok'
    except Crash as e:
        res = 'err:' + str(e)
    got = ['self' in x._type_info for x in [c] + variants]
    ctx.cov['evaluations'] += 1
    if res != 'ok' or not all(got):
        ctx.hit('recursive-append:' + res)
        ctx.finding('evolve:append:recursive-variant',
                    'A.append_field(name, <variant of A>) while another variant of A has delayed child_attrs_all: %s, '
                    'field present in class/variants: %r' % (res, got),
                    {'history': RECURSIVE, 'oracle': 'recursive', 'step': len(RECURSIVE) - 1})


def replay(ctx, obj):
    """re-execute a recorded history on the implementation (with the oracle) and on the model"""
    core.assert_repo()
    print('replay of:', obj.get('what'))
    ops = obj.get('history') or obj.get('query', {}).get('history')
    if ops is None and obj.get('oracle') != 'selfref':
        print('nothing to replay:', {k: obj[k] for k in obj if k.startswith('broken')})
        return 0
    if obj.get('oracle') == 'recursive':
        recursive_case(ctx)
    elif obj.get('oracle') == 'selfref':
        selfref_check(ctx, obj['spec'], 0)
    elif obj.get('oracle') == 'hash-seed':
        other_seeds(ctx, [ops], [obj.get('hash_seed', 1)])
    else:
        done, trace, impl = run_history(ctx, obj.get('hid', 'replay'), ops=ops, with_schema=True)
        for op, (res, d) in zip(done, trace[1:]):
            print('  ', json.dumps(op), '->', res, 'changed pool slots', [i for i, _ in d])
        try:
            compare_with_model(ctx, [('replay', done, trace)])
        except core.Infra as e:
            print('model not available:', e)
    for l in ctx.known:
        print(l)
    n = len(ctx.violations)
    for rel, noinput, what in ctx.violations:
        print('FAILS on the implementation:', what)
    for d in getattr(ctx, '_disagreements', []):
        print('MODEL/IMPL DISAGREE:', json.dumps(d, default=str)[:800])
    if not n and not getattr(ctx, '_disagreements', []):
        print('property holds on this history; model and implementation agree')
    return 1 if n else 0
