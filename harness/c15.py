"""C15 — deriving a model never changes another model; field order is deterministic.

T1: behaviour switches (Mandatory(Array) rule, `_variants` cell ownership, ordered class namespace), constants and
    the attribute tables of the base classes, measured on the real classes -> SpyneModel/Generated/Facts15.lean
Proof: Props/C15.lean (instantiated with the regenerated facts)
T2: the same seeded history of derivation/evolution operations is applied to real spyne classes and to the Lean
    heap model; after every step the deep snapshot of every pooled model is compared (as deltas)
T3: the property itself on the real code: after every step every class known before the step (pool + everything
    reachable from it) must have an identical shallow observation (all public attributes, field table, verdicts on
    probe values, own schema fragment) unless the operation is allowed to change it; new types carry exactly the
    requested constraints; appended fields reach every variant; field order = declaration order, parents first, in
    type info, schema sequence and protocol output, also under other hash seeds (fresh interpreters).
"""
import decimal
import gc
import json
import os
import subprocess
import sys

from . import core

D = decimal.Decimal
INF = D('inf')


# ------------------------------------------------------------------------------------ impl access
def impl_env():
    from spyne.model import complex as cx
    from spyne.model import primitive as P
    from spyne.model import binary as B
    from spyne.model import ModelBase
    return cx, P, B, ModelBase


# base classes every history starts with: (name, attribute path)
BASES = ['Integer', 'Unicode', 'Decimal', 'Integer32', 'UnsignedInteger8', 'UnsignedInteger', 'Boolean', 'ByteArray']
# roots that are not pooled but are part of the model's initial heap
ROOTS = ['ComplexModel', 'Array', 'Iterable', 'XmlAttribute']

# attributes the model tracks (the "public constraints" of a type)
MODEL_KEYS = ['min_occurs', 'max_occurs', 'nillable', 'default', 'values', 'sub_name', 'exc', 'exc_table', 'exc_db',
              'validate_on_assignment', 'read_only', 'min_len', 'max_len', 'pattern', 'ge', 'gt', 'le', 'lt',
              'total_digits', 'fraction_digits', 'max_str_len', 'min_bound', 'max_bound', 'encoding', 'foo']
# attributes that every customisation (re)creates for its own bookkeeping; never part of the observation
BOOKKEEPING = {'translations', 'sqla_column_args', 'parent_variant', 'child_attrs', 'child_attrs_all',
               'child_attrs_noexc', 'sqla_mapper_args', 'methods'}


def base_class(name):
    cx, P, B, _ = impl_env()
    if name == 'ByteArray':
        return B.ByteArray
    if hasattr(P, name):
        return getattr(P, name)
    return getattr(cx, name)


def kind_of(cls):
    """python base family of a class -> the model's Kind"""
    cx, P, B, ModelBase = impl_env()
    if issubclass(cls, cx.XmlAttribute):
        return 'xmlattr'
    if issubclass(cls, cx.Iterable):
        return 'iterable'
    if issubclass(cls, cx.Array):
        return 'array'
    if issubclass(cls, cx.ComplexModelBase):
        return 'complex'
    if issubclass(cls, P.Decimal):
        return 'number'
    if issubclass(cls, P.Unicode):
        return 'unicode'
    if issubclass(cls, B.ByteArray):
        return 'bytes'
    return 'simple'


def is_complex(cls):
    return kind_of(cls) in ('complex', 'array', 'iterable')


# ------------------------------------------------------------------------------------ canonical values
def aval(v):
    """canonical JSON form of an attribute value (the model's AVal)"""
    if v is None:
        return None
    if v is True or v is False:
        return v
    if isinstance(v, int):
        return {'i': str(v)}
    if isinstance(v, (D, float)):
        if v == INF:
            return {'inf': True}
        if v == -INF:
            return {'ninf': True}
        if v == int(v):
            return {'i': str(int(v))}
        return {'s': 'dec:' + str(v)}
    if isinstance(v, str):
        return {'s': v}
    if isinstance(v, (set, frozenset)):
        if not v:
            return {'eset': True}
        return {'l': [aval(x) for x in sorted(v, key=repr)]}
    if isinstance(v, (list, tuple)):
        return {'l': [aval(x) for x in v]}
    return {'s': 'obj:' + type(v).__name__}


def unaval(j):
    if j is None or j is True or j is False:
        return j
    if 'i' in j:
        return int(j['i'])
    if 'inf' in j:
        return INF
    if 'ninf' in j:
        return -INF
    if 's' in j:
        return j['s']
    if 'eset' in j:
        return set()
    if 'l' in j:
        return [unaval(x) for x in j['l']]
    raise ValueError(j)


_ABSENT = object()


def tname(cls):
    _, _, _, ModelBase = impl_env()
    t = cls.__type_name__
    if t is ModelBase.Empty:
        return {'empty': True}
    if t is None:
        return {'s': cls.__name__}
    return {'s': t}


def attrs_of(cls, keys=MODEL_KEYS):
    out = []
    for k in keys:
        v = getattr(cls.Attributes, k, _ABSENT)
        if v is not _ABSENT:
            out.append([k, aval(v)])
    return out


# verdict probes shared with the model: native values and string lengths
PROBE_INTS = [-1, 0, 1, 5, 10, 127, 128, 255, 256, 2147483647, 2147483648]
PROBE_LENS = [0, 1, 2, 5, 10, 12]


def verdicts(cls):
    """validation verdicts the model reproduces from the attributes (T2 part)"""
    k = kind_of(cls)
    out = [bool(cls.validate_native(cls, None)), bool(cls.validate_string(cls, None))]
    if k == 'number':
        out += [bool(cls.validate_native(cls, i)) for i in PROBE_INTS]
        out += [bool(cls.validate_string(cls, '1' * n)) for n in PROBE_LENS]
    elif k == 'unicode':
        out += [bool(cls.validate_string(cls, 'a' * n)) for n in PROBE_LENS]
    return out


def snap(cls, depth=0):
    """deep, identity-free snapshot of a model: what T2 compares with the Lean model"""
    k = kind_of(cls)
    o = {'kind': k, 'tn': tname(cls), 'ns': cls.__namespace__, 'attrs': attrs_of(cls), 'v': verdicts(cls)}
    orig = cls.__dict__.get('__orig__', None) if k == 'xmlattr' else cls.__orig__
    o['orig'] = None if orig is None else tname(orig)
    if k == 'xmlattr':
        o['fields'] = [['type', snap(cls.type, depth + 1)]]
        o['ext'] = None
        return o
    ext = cls.__extends__
    o['ext'] = None if ext is None else snap(ext, depth + 1)
    if is_complex(cls):
        o['fields'] = [[n, snap(t, depth + 1)] for n, t in cls._type_info.items()]
        o['flat'] = list(cls.get_flat_type_info(cls).keys())
    else:
        o['fields'] = []
    return o


# ------------------------------------------------------------------------------------ the implementation side of a history
class Crash(Exception):
    pass


class Impl:
    """a pool of real spyne classes and the interpreter of history operations on them"""

    def __init__(self, tag='H'):
        self.pool = [base_class(n) for n in BASES]
        self.tag = tag
        self.registry = {}      # id -> class: everything ever reachable from the pool (kept alive)
        self.created = 0
        self.walk()

    # ---- reachability
    def neighbours(self, c):
        out = []
        ti = c.__dict__.get('_type_info') if isinstance(c.__dict__.get('_type_info', None), dict) else getattr(c, '_type_info', None)
        if isinstance(ti, dict):
            out += list(ti.values())
        for a in ('__extends__', '__orig__', 'type'):
            v = getattr(c, a, None)
            if isinstance(v, type):
                out.append(v)
        var = getattr(c.Attributes, '_variants', None)
        if var is not None and c.__dict__.get('__module__') == 'c15hist':
            # (the variants of the library's own roots - every Array ever made - are not part of this history)
            out += [v for v in var.keys() if v.__dict__.get('__module__') == 'c15hist' or v.__orig__ is not None and v.__orig__.__module__ == 'c15hist']
        return out

    def walk(self):
        todo = list(self.pool)
        while todo:
            c = todo.pop()
            if id(c) in self.registry:
                continue
            self.registry[id(c)] = c
            todo += [n for n in self.neighbours(c) if id(n) not in self.registry]

    def reaches(self, src, dst):
        """does `src` (transitively: fields, base, wrapped type) use `dst` or any other variant of dst's original?
        (appending such a type to dst would build a recursive type; histories stay acyclic)"""
        root = lambda c: getattr(c, '__orig__', None) or c
        seen, todo = set(), [src]
        while todo:
            c = todo.pop()
            if root(c) is root(dst):
                return True
            if id(c) in seen:
                continue
            seen.add(id(c))
            ti = getattr(c, '_type_info', None)
            if isinstance(ti, dict):
                todo += list(ti.values())
            for a in ('__extends__', 'type'):
                v = getattr(c, a, None)
                if isinstance(v, type):
                    todo.append(v)
        return False

    # ---- operations
    def kw(self, j):
        return {k: unaval(v) for k, v in j}

    def apply(self, op):
        """returns the new class (appended to the pool) or None; raises Crash(class name)"""
        cx, P, B, ModelBase = impl_env()
        k = op['k']
        try:
            new = None
            if k == 'cust':
                src = self.pool[op['src']]
                kw = self.kw(op['kw'])
                if op.get('ca') is not None:
                    kw['child_attrs'] = {n: self.kw(v) for n, v in op['ca']}
                if op.get('caa') is not None:
                    kw['child_attrs_all'] = self.kw(op['caa'])
                if is_complex(src) or kind_of(src) == 'xmlattr':
                    new = src.customize(**kw)
                else:
                    new = src(**kw)          # "calling a primitive with constraints"
            elif k == 'array':
                src = self.pool[op['src']]
                kw = self.kw(op['kw'])
                if op.get('member') is not None:
                    kw['member_name'] = op['member']
                if op.get('flat'):
                    kw['wrapped'] = False
                new = (cx.Iterable if op.get('iter') else cx.Array)(src, **kw)
            elif k == 'mand':
                new = cx.Mandatory(self.pool[op['src']])
            elif k == 'sub':
                from spyne.util.odict import odict
                body = odict()
                if op.get('ns') is not None:
                    body['__namespace__'] = op['ns']
                for n, t in op['fields']:
                    body[n] = self.pool[t]
                base = cx.ComplexModel if op.get('base') is None else self.pool[op['base']]
                body['__module__'] = 'c15hist'
                new = cx.ComplexModelMeta(op['name'], (base,), body)
            elif k == 'append':
                self.pool[op['c']].append_field(op['name'], self.pool[op['t']])
            elif k == 'insert':
                self.pool[op['c']].insert_field(op['idx'], op['name'], self.pool[op['t']])
            elif k == 'xmlattr':
                new = cx.XmlAttribute(self.pool[op['src']])
            else:
                raise core.Infra('unknown op %r' % (op,))
        except core.Infra:
            raise
        except Exception as e:
            self.walk()
            raise Crash(type(e).__name__)
        if new is not None:
            self.pool.append(new)
            self.created += 1
        self.walk()
        return new


# ------------------------------------------------------------------------------------ T3: shallow observation of one class
def cval(v):
    if isinstance(v, dict):
        return {'d': sorted([[repr(k) if not isinstance(k, str) else k, cval(x)] for k, x in v.items()], key=lambda p: p[0])}
    if isinstance(v, type):
        return {'cls': id(v)}
    if isinstance(v, (list, tuple)):
        return {'l': [cval(x) for x in v]}
    if callable(v):
        return {'s': 'callable'}
    return aval(v)


RICH_NATIVE = [None, -1, 0, 1, 5, 10, 127, 128, 255, 256, 2 ** 31 - 1, 2 ** 31, D('1.5'), 10 ** 30]
RICH_STR = ['', 'a', 'ab', 'abc', 'A1', 'abcde', '12345', 'a' * 10, 'a' * 12, 'a' * 2000]


def rich_verdicts(c):
    k = kind_of(c)
    out = [bool(c.validate_native(c, None)), bool(c.validate_string(c, None))]
    try:
        if k == 'number':
            out += [bool(c.validate_native(c, v)) for v in RICH_NATIVE[1:]]
            out += [bool(c.validate_string(c, s)) for s in RICH_STR]
        elif k == 'unicode':
            out += [bool(c.validate_native(c, s)) for s in RICH_STR]
            out += [bool(c.validate_string(c, s)) for s in RICH_STR]
    except Exception as e:          # a constraint the probe cannot be compared with (e.g. ge='x')
        out.append('exc:' + type(e).__name__)
    return out


def expected_flat(c):
    """flat field order computed from first principles: parents first, then own, a redeclared name keeps its place"""
    chain = []
    x = c
    while x is not None:
        chain.append(x)
        x = getattr(x, '__extends__', None)
    keys = []
    for x in reversed(chain):
        for n in x._type_info.keys():
            if n not in keys:
                keys.append(n)
    return keys


def shallow(c):
    A = c.Attributes
    attrs = {}
    for k in dir(A):
        if k.startswith('_') or k in BOOKKEEPING:
            continue
        attrs[k] = cval(getattr(A, k))
    attrs['nullable'] = cval(A.nullable)
    o = {'attrs': attrs, 'doc': c.Annotations.doc, 'tn': tname(c), 'ns': c.__namespace__, 'verd': rich_verdicts(c)}
    for a in ('__extends__', '__orig__', 'type'):
        v = getattr(c, a, None)
        o[a] = id(v) if isinstance(v, type) else None
    ti = getattr(c, '_type_info', None)
    if isinstance(ti, dict):
        o['ti'] = [[n, id(t)] for n, t in ti.items()]
        if is_complex(c):
            o['flat'] = list(c.get_flat_type_info(c).keys())
    return o


class SchemaObs:
    """own schema fragment of a complex class, rendered by the real XmlSchema generator; the generator assigns
    namespaces/type names to the classes it visits, which is undone afterwards (observation must not be a step)"""
    KEYS = ('__namespace__', '__type_name__', '_type_info')

    def __init__(self, impl):
        self.impl = impl

    def render(self, c):
        from spyne.util.xml import get_schema_documents
        from lxml import etree
        saved = [(x, {k: x.__dict__[k] for k in self.KEYS if k in x.__dict__}) for x in self.impl.registry.values()]
        known = set(self.impl.registry)
        try:
            try:
                docs = get_schema_documents([c], 'c15.tns')
            except Exception as e:
                return 'exc:' + type(e).__name__
            ns, tn = c.get_namespace(), c.get_type_name()
            out = []
            for pref, doc in sorted(docs.items()):
                if doc.get('targetNamespace') != ns:
                    continue
                for el in doc:
                    if el.get('name') == tn and el.tag.endswith('Type'):
                        out.append(etree.tostring(el, method='c14n').decode())
            return '\n'.join(out)
        finally:
            for x, d in saved:
                for k in self.KEYS:
                    if k in d:
                        if x.__dict__.get(k, _ABSENT) is not d[k]:
                            setattr(x, k, d[k])
                    elif k in x.__dict__:
                        try:
                            delattr(x, k)
                        except AttributeError:
                            pass
            self.impl.walk()
            for i in set(self.impl.registry) - known:      # classes created by the observation itself: none expected
                pass


# ------------------------------------------------------------------------------------ history generator
COMMON_KW = {
    'min_occurs': [0, 1, 2], 'max_occurs': [1, 2, 5, 'unbounded', INF, 'inf'], 'nillable': [True, False],
    'nullable': [True, False], 'default': [None, 0, 7, 'x'], 'sub_name': ['alt', 'other'], 'exc': [True, False],
    'exc_table': [True, False], 'voa': [True, False], 'validate_on_assignment': [True], 'read_only': [True],
    'foo': [1, 'bar'], '_private': [1], 'doc': ['some text'],
}
NUMBER_KW = {'ge': [-5, 0, 3, 100, 300], 'gt': [-5, 0, 3, 100, 255, 300], 'le': [-5, 0, 3, 100, 300, 2 ** 31],
             'lt': [-5, 0, 3, 100, 300], 'total_digits': [3, 10], 'fraction_digits': [0, 2, 12],
             'max_str_len': [5, 20], 'values': [[1, 2, 3], [0], []]}
UNICODE_KW = {'min_len': [0, 1, 3], 'max_len': [2, 5, 10, INF], 'pattern': ['[a-z]+', 'a*', None],
              'values': [['a', 'b'], ['abc'], []]}
SIMPLE_TN = {'type_name': ['STn', 'Other']}
COMPLEX_KW = {'type_name': ['Ren', 'Ren2'], 'namespace': ['ns.a', 'ns.b']}
FIELD_NAMES = ['a', 'b', 'c', 'd', 'e', 'f', 'g']


def gen_kw(rng, kind, n=None, for_child=False):
    table = dict(COMMON_KW)
    if kind == 'number':
        table.update(NUMBER_KW)
    elif kind == 'unicode':
        table.update(UNICODE_KW)
    if kind in ('number', 'unicode', 'simple', 'bytes'):
        table.update(SIMPLE_TN)
    if kind in ('complex', 'array', 'iterable') and not for_child:
        table.update(COMPLEX_KW)
    if for_child:
        for k in ('doc', '_private'):
            table.pop(k, None)
    n = n if n is not None else rng.choice([0, 1, 1, 1, 2, 2, 3])
    keys = rng.sample(sorted(table), min(n, len(table)))
    return [[k, aval(rng.choice(table[k]))] for k in keys]


def flat_names(cls):
    names = []
    x = cls
    while x is not None:
        names += [n for n in x._type_info.keys() if n not in names]
        x = x.__extends__
    return names


def gen_op(rng, impl, step, serial):
    pool = impl.pool
    idx = list(range(len(pool)))
    kinds = [kind_of(c) for c in pool]
    simple = [i for i in idx if kinds[i] in ('number', 'unicode', 'simple', 'bytes')]
    cplx = [i for i in idx if kinds[i] == 'complex']
    arrs = [i for i in idx if kinds[i] in ('array', 'iterable')]
    w = [('cust_simple', 28), ('sub', 16 if step > 0 else 60), ('array', 10), ('mand', 10), ('xmlattr', 2)]
    if cplx:
        w += [('cust_complex', 16), ('append', 11), ('insert', 7)]
    if arrs:
        w += [('cust_array', 4)]
    r = rng.randrange(sum(x for _, x in w))
    for name, x in w:
        if r < x:
            break
        r -= x
    if name == 'cust_simple':
        i = rng.choice(simple + [j for j in idx if kinds[j] == 'xmlattr'][:1])
        k = kinds[i] if kinds[i] != 'xmlattr' else 'simple'
        return {'k': 'cust', 'src': i, 'kw': gen_kw(rng, k)}
    if name in ('cust_complex', 'cust_array'):
        i = rng.choice(cplx if name == 'cust_complex' else arrs)
        op = {'k': 'cust', 'src': i, 'kw': gen_kw(rng, 'complex')}
        names = flat_names(pool[i])
        r = rng.random()
        if r < 0.45:
            cand = names + ['zz', rng.choice(FIELD_NAMES)]
            ks = rng.sample(cand, min(len(cand), rng.choice([1, 1, 2, 3])))
            op['ca'] = [[n, gen_kw(rng, 'any', n=rng.choice([1, 2]), for_child=True)] for n in dict.fromkeys(ks)]
        if 0.35 < r < 0.6:
            op['caa'] = gen_kw(rng, 'any', n=rng.choice([1, 1, 2]), for_child=True)
        return op
    if name == 'sub':
        nf = rng.choice([0, 1, 2, 2, 3, 3, 4])
        names = rng.sample(FIELD_NAMES, nf)
        fields = [[n, rng.choice(idx)] for n in names]
        base = None
        if cplx and rng.random() < 0.55:
            base = rng.choice(cplx)
        return {'k': 'sub', 'name': 'K%d_%d' % (serial, step), 'base': base, 'ns': rng.choice([None, 'ns.a', 'ns.k']),
                'fields': fields}
    if name == 'array':
        op = {'k': 'array', 'src': rng.choice(idx), 'kw': gen_kw(rng, 'complex', n=rng.choice([0, 0, 1, 2]))}
        r = rng.random()
        if r < 0.2:
            op['member'] = rng.choice(['item', 'm'])
        elif r < 0.32:
            op['flat'] = True
            op['kw'] = [p for p in op['kw'] if p[0] not in ('type_name', 'namespace')]
        elif r < 0.45:
            op['iter'] = True
        return op
    if name == 'mand':
        return {'k': 'mand', 'src': rng.choice(idx)}
    if name == 'xmlattr':
        return {'k': 'xmlattr', 'src': rng.choice(simple)}
    # append / insert
    c = rng.choice(cplx)
    existing = flat_names(pool[c])
    nm = rng.choice(FIELD_NAMES + ['h', 'i'] + existing[:2])
    cand = [j for j in idx if not impl.reaches(pool[j], pool[c])]
    t = rng.choice(cand)
    if name == 'append':
        return {'k': 'append', 'c': c, 'name': nm, 't': t}
    return {'k': 'insert', 'c': c, 'idx': rng.choice([0, 0, 1, 2, 5]), 'name': nm, 't': t}
