"""C03 — HttpRpc flat key/value fidelity.

T1: behaviour switches and constants measured on the real code -> SpyneModel/Generated/Facts03.lean
Proof: Props/C03.lean (instantiated with the regenerated facts)
T2: model-vs-implementation on _parse_qs, RE_HTTP_ARRAY_INDEX, _s2cmi, get_simple_type_info_with_prot,
    simple_dict_to_object (direct and through a real WSGI GET), object_to_simple_dict, and the HTTP
    response for a single primitive return value with out-headers
T3: the property itself on the real code: documented flattened spelling (any pair order, sparse or
    contiguous indexes, every hier_delim, strict_arrays on/off, validator None/soft) -> the user
    function receives exactly the values; object -> flat dict -> object round trip; exact response bytes
    and headers.
"""
import itertools
from urllib.parse import quote as _quote

from . import core

PRIMS = ('int', 'str', 'bool')
DELIMS = ['.', '.', '.', '_', '-', '/', '__', ':', '$', '..']
NAMES = ['a', 'b', 'c', 'ab', 'a_b', 'x', 'y', 'p', 'q', 'c1', 'A', 'item', 'ab_c', 'i', 's', 'n0', 'B_', 'zz', 'val', 'a1',
         'wsdl', 'WSDL', 'xwsdl', 'wsdl2']


def cps(s):
    return [ord(c) for c in s]


EXT = ('dec',)                    # leaf kinds outside the model: T3 only
INT_KINDS = {'i8': 'Integer8', 'u8': 'UnsignedInteger8', 'i16': 'Integer16', 'u16': 'UnsignedInteger16',
             'i32': 'Integer32', 'u32': 'UnsignedInteger32', 'i64': 'Integer64', 'u64': 'UnsignedInteger64'}


def py_of(f):
    """Python attribute name of a member; f['n'] is the name it has in keys (its sub_name when 'py' is given)"""
    return uncps(f['py']) if 'py' in f else uncps(f['n'])


def is_wsdl_qs(qs):
    """the harness's own reading of '?wsdl': the query is a request for the interface document iff the text before its
    first '=' is 'wsdl' (any case)"""
    return qs.split('=')[0].lower() == 'wsdl'


EXT_ALL = ('dt', 'date', 'dec', 'bytes')   # kinds drawn for the extended signatures (dt, date are modelled: shared leaf codec)       # leaf kinds beyond the model: exercised by T3 only (as arguments), dt also as out-header


def native_leaf(v):
    """python value of a leaf in the harness's value encoding"""
    import datetime as pydt
    from decimal import Decimal
    import pytz
    if 'dt' in v:
        y, mo, d, h, mi, s, us, tz = v['dt']
        if tz is None:
            tzinfo = None
        elif tz == 0:
            tzinfo = pytz.utc if us % 2 == 0 else pydt.timezone.utc
        else:
            tzinfo = pytz.FixedOffset(tz) if s % 2 == 0 else pydt.timezone(pydt.timedelta(minutes=tz))
        return pydt.datetime(y, mo, d, h, mi, s, us, tzinfo)
    if 'date' in v:
        return pydt.date(*v['date'])
    if 'dec' in v:
        return Decimal(v['dec'])
    if 'b' in v:
        return v['b']
    if 'i' in v:
        return int(v['i'])
    if 'x' in v:
        return [bytes(v['x'])]
    return uncps(v['s'])


def val_of_native(x):
    import datetime as pydt
    from decimal import Decimal
    if x is None:
        return None
    if isinstance(x, bool):
        return {'b': x}
    if isinstance(x, int):
        return {'i': str(x)}
    if isinstance(x, str):
        return {'s': cps(x)}
    if isinstance(x, pydt.datetime):
        off = x.utcoffset()
        tz = None if off is None else (off.days * 86400 + off.seconds) // 60
        return {'dt': [x.year, x.month, x.day, x.hour, x.minute, x.second, x.microsecond, tz]}
    if isinstance(x, pydt.date):
        return {'date': [x.year, x.month, x.day]}
    if isinstance(x, Decimal):
        return {'dec': format(x, 'f')}
    if isinstance(x, (list, tuple)) and all(isinstance(c, bytes) for c in x):
        return {'x': list(b''.join(x))}
    if isinstance(x, bytes):
        return {'x': list(x)}
    return {'?': repr(x)}


def http_date(v):
    """the RFC 1123 date of the instant a datetime leaf denotes (naive = GMT): independent of spyne"""
    import datetime as pydt
    from email.utils import format_datetime
    x = native_leaf(v)
    u = x.replace(tzinfo=pydt.timezone.utc) if x.tzinfo is None else x.astimezone(pydt.timezone.utc)
    return format_datetime(u, usegmt=True)


def uncps(l):
    return ''.join(chr(c) for c in l)


# ------------------------------------------------------------------------------------ implementation side
class Impl:
    """drives the real spyne objects; one instance per signature (list of root members)"""
    _cache = {}
    _prims = {}
    _subs = {}

    def __init__(self, fields, cfg=None, ret=None, hdr_fields=None, opts=None):
        from spyne import Application, Service, rpc, ComplexModel, Array, Integer, Unicode, Boolean, ByteArray, \
            DateTime, Date, Decimal, Fault
        from spyne.model.complex import ComplexModelMeta
        from spyne.protocol.http import HttpRpc
        from spyne.server.wsgi import WsgiApplication
        self.fields = fields
        self.P = {'int': Integer, 'str': Unicode, 'bool': Boolean, 'bytes': ByteArray, 'dt': DateTime, 'date': Date,
                  'dec': Decimal}
        self.Array, self.ComplexModel, self.Meta = Array, ComplexModel, ComplexModelMeta
        self.classes = {}
        cfg = cfg or {'strict': False, 'soft': False, 'delim': cps('.')}
        self.cfg = cfg
        types = [self.type_of(f) for f in fields]
        names = [py_of(f) for f in fields]
        self.got = got = {}
        self.retval = None
        self.out_header = None
        impl = self
        self.opts = opts = opts or {}
        style = opts.get('style', 'plain')      # how the user function hands its result over

        def f(ctx, *a):
            got['args'] = a
            got['in_header'] = ctx.in_header
            if impl.out_header is not None:
                ctx.out_header = [impl.out_header] if opts.get('hdr_as_list') else impl.out_header
            if style == 'fault':
                raise Fault('Client.Custom', 'nope')
            if style == 'two':
                return impl.retval, u'x'
            return impl.retval

        def fgen(ctx, *a):
            got['args'] = a
            if opts.get('gen_fault') == 'first':
                raise Fault('Client.Custom', 'nope')
            for i, c in enumerate(impl.retval):
                yield c
                if opts.get('gen_fault') == 'later':
                    raise Fault('Client.Custom', 'nope')
        def fbare(ctx, it):
            got['args'] = (it,)
            return impl.retval
        def f0(ctx):
            got['args'] = ()
            return impl.retval
        kw = {'_args': names}
        if opts.get('bare'):
            kw = {'_body_style': 'bare'}
        if opts.get('body_style') == 'out_bare':
            kw['_body_style'] = 'out_bare'
        if opts.get('body_style') == 'bare-noargs':
            kw, types = {'_body_style': 'bare'}, []
        if ret is not None and style != 'none':
            rt = self.P[ret]
            if opts.get('ret_enc'):
                rt = rt(encoding=opts['ret_enc'])
            kw['_returns'] = (rt, Unicode) if style == 'two' else rt
        self.in_hdr_cls = None
        if opts.get('in_hdr'):
            self.in_hdr_cls = self.Meta('ReqHeader', (ComplexModel,), {
                '_type_info': [(py_of(h), self.type_of(h)) for h in opts['in_hdr']], '__namespace__': 'tns'})
        self.hdr_cls = None
        if hdr_fields:
            self.hdr_cls = self.Meta('RespHeader', (ComplexModel,), {
                '_type_info': [(uncps(h['n']), self.type_of(h)) for h in hdr_fields], '__namespace__': 'tns'})
            kw['_out_header'] = self.hdr_cls
        dec = rpc(*types, **kw)(fgen if style == 'gen' else fbare if opts.get('bare') else
                                f0 if opts.get('body_style') == 'bare-noargs' else f)
        sattrs = {'f': dec}
        if self.in_hdr_cls is not None:
            sattrs['__in_header__'] = self.in_hdr_cls
        Svc = type(Service)('Svc', (Service,), sattrs)
        self.app = Application([Svc], 'tns', out_protocol=HttpRpc(ignore_uncap=bool(opts.get('ignore_uncap'))),
                               in_protocol=HttpRpc(validator='soft' if cfg['soft'] else None,
                                                   parse_cookie=opts.get('parse_cookie', True),
                                                   strict_arrays=cfg['strict'], hier_delim=uncps(cfg['delim'])))
        self.wsgi = WsgiApplication(self.app, chunked=opts.get('chunked', True))
        self.in_message = Svc.public_methods['f'].in_message

    # -- types
    def cls_of(self, t):
        c = self.classes.get(('base', t['cid']))
        if c is None:
            own = t['fields'][-t['nown']:] if 'base' in t else t['fields']
            d = {'_type_info': [(py_of(f), self.type_of(f)) for f in own], '__namespace__': 'tns'}
            if t.get('nofreq'):
                d['Attributes'] = type('Attributes', (self.ComplexModel.Attributes,), {'validate_freq': False})
            c = self.Meta('K%d' % t['cid'], (self.cls_of(t['base']) if 'base' in t else self.ComplexModel,), d)
            self.classes[('base', t['cid'])] = c
        return c

    def type_of(self, f):
        c = self.type_of0(f)
        if 'py' in f:       # the member goes by a sub_name in keys
            cache = Impl._subs if f['t']['k'] != 'obj' else self.classes
            key = ('sub', id(c), uncps(f['n']))
            c2 = cache.get(key)
            if c2 is None:
                c2 = cache[key] = (c, c.customize(sub_name=uncps(f['n'])))
            c = c2[1]
        return c

    def type_of0(self, f):
        t = f['t']
        inf = 'unbounded'
        if t['k'] != 'obj':
            # customised primitives are shared by all signatures of a run (spyne keeps every variant of a
            # type in per-class registries; thousands of throw-away variants make customize() slow)
            pkey = (t['k'], t.get('kind'), t.get('enc') if t.get('encd') else None, f['many'], f.get('wrap'), f['min'], f['max'], f.get('nillable', True),
                    core.canon(f.get('dflt')), f.get('ro'), f.get('dfac'))
            nil = {} if f.get('nillable', True) else {'nillable': False}
            if f.get('dflt') is not None and f.get('dfac'):
                nil['default_factory'] = (lambda v=native_leaf(f['dflt']): v)
            elif f.get('dflt') is not None:
                nil['default'] = native_leaf(f['dflt'])
            if f.get('ro'):
                nil['read_only'] = True
            c = Impl._prims.get(pkey)
            if c is None:
                base = self.P[t['k']]
                if t['k'] == 'bytes' and t.get('encd'):
                    base = base(encoding={'hex': 'hex', 'base64': 'base64', 'urlsafe': 'urlsafe_base64'}[t['enc']])
                if t['k'] == 'int' and t.get('kind') in INT_KINDS:
                    import spyne
                    base = getattr(spyne, INT_KINDS[t['kind']])
                if not f['many']:
                    c = base(min_occurs=f['min'], **nil) if (f['min'] or nil) else base
                elif f.get('wrap') == 'array':
                    c = self.Array(base)
                else:
                    c = base(max_occurs=inf if f['max'] is None else f['max'], min_occurs=f['min'])
                Impl._prims[pkey] = c
            return c
        base = self.cls_of(t)
        if not f['many']:
            return base
        key = (f.get('wrap'), t['cid'], f['min'], f['max'])
        c = self.classes.get(key)
        if c is None:
            if f.get('wrap') == 'array':
                c = self.Array(base)
            else:
                c = base.customize(max_occurs=inf if f['max'] is None else f['max'], min_occurs=f['min'])
            self.classes[key] = c
        return c

    # -- native <-> Val
    def to_val(self, x, many, t):
        if x is None:
            return None
        if many:
            return {'l': [self.to_val(e, False, t) for e in x]}
        if t['k'] == 'obj':
            return {'o': [[f['n'], self.to_val(getattr(x, py_of(f), None), f['many'], f['t'])] for f in t['fields']]}
        return val_of_native(x)

    def from_val(self, v, many, t, memo=None):
        """`memo` (a dict): equal sub-objects of one class become ONE instance (shared, not copied)"""
        if v is None:
            return None
        if many:
            return [self.from_val(e, False, t, memo) for e in v['l']]
        if t['k'] == 'obj':
            key = (t['cid'], core.canon(v))
            if memo is not None and key in memo:
                return memo[key]
            inst = self.cls_of(t)()
            for (n, fv), f in zip(v['o'], t['fields']):
                setattr(inst, py_of(f), self.from_val(fv, f['many'], f['t'], memo))
            if memo is not None:
                memo[key] = inst
            return inst
        return native_leaf(v)

    def root_val(self, args):
        return {'o': [[f['n'], self.to_val(a, f['many'], f['t'])] for f, a in zip(self.fields, args)]}

    # -- operations
    def get(self, qs, method='GET', env_extra=None):
        """a real WSGI request; canonical outcome + (status, headers, body)"""
        self.got.clear()
        st = {}

        def sr(status, headers, exc=None):
            st['status'], st['headers'] = status, headers
        env = {'QUERY_STRING': qs, 'PATH_INFO': '/f', 'REQUEST_METHOD': method, 'SERVER_NAME': 'localhost',
               'SERVER_PORT': '80', 'wsgi.url_scheme': 'http', 'SCRIPT_NAME': ''}
        if env_extra:
            env.update(env_extra)
        try:
            body = b''.join(self.wsgi(env, sr))
        except Exception as e:
            return {'crash': type(e).__name__}, st, b''
        if st.get('status', '').startswith('200') and 'args' in self.got:
            return {'ok': self.root_val(self.got['args'])}, st, body
        if 'args' not in self.got and body.startswith(b'<?xml') and b'definitions' in body[:400]:
            return {'wsdl': True}, st, body         # the transport answered with the interface document
        if st.get('status', '').startswith('400') and body.startswith(b'Client.'):
            return {'fault': 'Client.ValidationError'}, st, body
        return {'crash': body[:40].decode('latin1')}, st, body

    def decode_doc(self, doc):
        """simple_dict_to_object called directly on a flat document"""
        from spyne.model.fault import Fault
        d = {}
        for k, vs in doc:
            d[uncps(k)] = [None if v is None else uncps(v) for v in vs]
        prot = self.app.in_protocol
        try:
            inst = prot.simple_dict_to_object(None, d, self.in_message, prot.validator)
        except Fault as e:
            if str(e.faultcode).startswith('Client'):
                return {'fault': 'Client.ValidationError'}
            return {'crash': 'Fault'}
        except Exception as e:
            return {'crash': type(e).__name__}
        return {'ok': self.root_val([getattr(inst, py_of(f), None) for f in self.fields])}

    def encode_val(self, val, share=False):
        """object_to_simple_dict on the request object built from `val`; canonical list sorted by key"""
        inst = self.in_message()
        memo = {} if share else None
        for (n, fv), f in zip(val['o'], self.fields):
            setattr(inst, py_of(f), self.from_val(fv, f['many'], f['t'], memo))
        d = self.app.in_protocol.object_to_simple_dict(self.in_message, inst)
        out = []
        for k, v in d.items():
            if isinstance(v, list) and self.key_many(k):
                out.append([cps(k), {'many': [self.leaf_val(x) for x in v]}])
            elif v == 'empty' and self.is_complex_key(k):
                out.append([cps(k), 'empty'])
            else:
                out.append([cps(k), {'one': self.leaf_val(v)}])
        return out, d

    def key_many(self, k):
        """does the flat key denote a member that holds a list (so that a list value is a list of leaves)?"""
        from spyne.protocol.dictdoc.simple import RE_HTTP_ARRAY_INDEX
        sti = self.in_message.get_simple_type_info_with_prot(self.in_message, self.app.in_protocol,
                                                             hier_delim=self.app.in_protocol.hier_delim)
        m = sti.get(RE_HTTP_ARRAY_INDEX.sub('', k))
        return m is None or m.type.Attributes.max_occurs > 1

    def is_complex_key(self, k):
        from spyne.protocol.dictdoc.simple import RE_HTTP_ARRAY_INDEX
        sti = self.in_message.get_simple_type_info_with_prot(self.in_message, self.app.in_protocol,
                                                             hier_delim=self.app.in_protocol.hier_delim)
        m = sti.get(RE_HTTP_ARRAY_INDEX.sub('', k))
        return m is not None and m.can_be_empty

    @staticmethod
    def leaf_val(x):
        return val_of_native(x)

    def text_of(self, kind, x, key=None):
        ty = self.P[kind]
        if key is not None and kind == 'bytes':
            from spyne.protocol.dictdoc.simple import RE_HTTP_ARRAY_INDEX
            sti = self.in_message.get_simple_type_info_with_prot(self.in_message, self.app.in_protocol,
                                                                 hier_delim=self.app.in_protocol.hier_delim)
            m = sti.get(RE_HTTP_ARRAY_INDEX.sub('', key))
            if m is not None:
                ty = m.type
        r = self.app.out_protocol.to_unicode(ty, x)
        return r if isinstance(r, str) else str(r)      # (a key the harness cannot place: the comparison will tell)

    def sti(self):
        prot = self.app.in_protocol
        t = self.in_message.get_simple_type_info_with_prot(self.in_message, prot, hier_delim=prot.hier_delim)
        from spyne.model import Array
        res = []
        for k, m in t.items():
            many = m.type.Attributes.max_occurs > 1
            res.append([cps(k), [cps(p) for p in self.key_path(m.path)], bool(m.can_be_empty), bool(many)])
        return sorted(res)

    def key_path(self, path):
        """a path of Python member names as key names (sub_names)"""
        out, fields = [], self.fields
        for p in path:
            f = next((g for g in fields if py_of(g) == p), None)
            if f is None:
                out.append(p)
                fields = []
                continue
            out.append(uncps(f['n']))
            fields = f['t']['fields'] if f['t']['k'] == 'obj' else []
        return out


def get_impl(fields, cfg=None, ret=None, hdr_fields=None, opts=None):
    key = core.canon([fields, cfg, ret, hdr_fields, opts])
    i = Impl._cache.get(key)
    if i is None:
        if len(Impl._cache) > 400:
            Impl._cache.clear()
        i = Impl._cache[key] = Impl(fields, cfg, ret, hdr_fields, opts)
    return i


# ------------------------------------------------------------------------------------ type / value vocabulary
def P(kind):
    return {'k': kind}


def fld(name, t, many=False, wrap=None, mn=0, mx=1, nillable=True, py=None):
    """`py`: the Python name of the member; `name` is then its sub_name (the name it has in keys)"""
    if many and wrap is None:
        wrap = 'array'
    if many and wrap == 'array':
        mn, mx = 0, None
    f = {'n': cps(name), 'many': many, 'wrap': wrap, 'min': mn, 'max': (mx if many else 1), 't': t,
         'nillable': nillable}
    if py is not None:
        f['py'] = cps(py)
    return f


def obj(cid, fields):
    return {'k': 'obj', 'cid': cid, 'fields': fields}


def model_fields(fields):
    """strip harness-only attributes for the Lean driver"""
    def ty(t):
        return t if t['k'] != 'obj' else {'k': 'obj', 'cid': t['cid'], 'fields': [mf(f) for f in t['fields']]}

    def mf(f):
        return {'n': f['n'], 'many': f['many'], 'min': f['min'], 'max': f['max'], 'nillable': f.get('nillable', True),
                't': ty(f['t'])}
    return [mf(f) for f in fields]


def decl_fields(fields):
    """the declared signature for the Lean driver: model_fields plus the Python names of members with a sub_name"""
    def ty(t):
        return t if t['k'] != 'obj' else {'k': 'obj', 'cid': t['cid'], 'fields': [mf(f) for f in t['fields']]}

    def mf(f):
        d = {'n': f['n'], 'many': f['many'], 'min': f['min'], 'max': f['max'], 'nillable': f.get('nillable', True),
             't': ty(f['t'])}
        if 'py' in f:
            d['py'] = f['py']
        if f.get('dflt') is not None:
            d['dflt'] = f['dflt']
        if f.get('ro'):
            d['ro'] = True
        return d
    return [mf(f) for f in fields]


def sti_keys(fields, delim, prefix=()):
    """flattened keys of a signature (harness's own reading of the documented notation)"""
    out = []
    for f in fields:
        p = prefix + (uncps(f['n']),)
        out.append(delim.join(p))
        if f['t']['k'] == 'obj':
            out += sti_keys(f['t']['fields'], delim, p)
    return out


def cids(fields):
    out = []
    for f in fields:
        if f['t']['k'] == 'obj':
            out.append(f['t']['cid'])
            out += cids(f['t']['fields'])
    return out


def depth(fields):
    return 1 + max([depth(f['t']['fields']) for f in fields if f['t']['k'] == 'obj'] or [0])


def has_feature(fields, feat):
    for f in fields:
        if feat(f):
            return True
        if f['t']['k'] == 'obj' and has_feature(f['t']['fields'], feat):
            return True
    return False


class Gen:
    def __init__(self, rng):
        self.rng = rng
        self.next_cid = 1
        self.pool = []      # finished classes (Ty json), reusable
        self.big_used = False
        self.budget = 120
        self.ext = False    # also draw DateTime / Date / Decimal members (T3 only: outside the model)

    def fields(self, depth, n=None, top=False):
        rng = self.rng
        n = n or rng.choice([1, 2, 2, 3, 3, 4])
        names = rng.sample(NAMES, n)
        out = []
        for nm in names:
            r = rng.random()
            if depth > 0 and r < (0.55 if top else 0.4):
                if self.pool and rng.random() < 0.3:
                    t = rng.choice(self.pool)
                    if self._depth(t) > depth:
                        t = self.new_class(depth - 1)
                else:
                    t = self.new_class(depth - 1)
                many = rng.random() < 0.5
                wrap = rng.choice(['array', 'array', 'occurs']) if many else None
                mx = rng.choice([None, None, 2, 3, 20]) if wrap == 'occurs' else None
                out.append(fld(nm, t, many, wrap, 0, mx))
            else:
                kind = rng.choice(EXT_ALL) if (self.ext and rng.random() < 0.4) else rng.choice(PRIMS)
                pt = P(kind)
                if kind == 'bytes':
                    enc = rng.choice(['hex', 'base64', 'urlsafe', None, None])
                    pt = {'k': 'bytes', 'enc': enc or 'urlsafe'}
                    if enc:
                        pt['encd'] = True       # the member declares its encoding
                many = rng.random() < 0.3
                wrap = rng.choice(['array', 'occurs']) if many else None
                mx = rng.choice([None, 2, 5, 20]) if wrap == 'occurs' else None
                mn = 1 if (not many and rng.random() < 0.12) else 0
                out.append(fld(nm, pt, many, wrap, mn, mx))
        for f in out:       # members that go by a sub_name (at every depth, objects and arrays included)
            if rng.random() < 0.2:
                f['py'] = cps('py_' + uncps(f['n']) + rng.choice(['', '_', 'x']))
        return out

    def new_class(self, depth):
        rng = self.rng
        cid = self.next_cid
        self.next_cid += 1
        t = None
        if self.pool and rng.random() < 0.15:
            # a class that extends another: the inherited members come first in the flat type info
            base = rng.choice(self.pool)
            if self._depth(base) <= depth and 'base' not in base:
                names = set(core.canon(f['n']) for f in base['fields']) | set(core.canon(f.get('py')) for f in base['fields'])
                own = [f for f in self.fields(depth, n=rng.choice([1, 2]))
                       if core.canon(f['n']) not in names and core.canon(f.get('py')) not in names]
                if own:
                    t = {'k': 'obj', 'cid': cid, 'fields': list(base['fields']) + own, 'base': base, 'nown': len(own)}
        if t is None:
            t = obj(cid, self.fields(depth))
        self.pool.append(t)
        return t

    @staticmethod
    def _depth(t):
        return depth(t['fields'])

    # ---- values
    def leaf(self, kind):
        rng = self.rng
        if kind == 'int':
            return {'i': str(rng.choice([0, 1, -1, 7, 10, 42, 255, -128, 2 ** 31, -2 ** 63, 10 ** 30,
                                         rng.randrange(-10 ** 6, 10 ** 6), rng.getrandbits(80)]))}
        if kind == 'bool':
            return {'b': rng.random() < 0.5}
        if kind == 'bytes':
            return {'x': [rng.randrange(256) for _ in range(rng.choice([0, 1, 2, 3, 4, 7, 30]))]}
        if kind in ('dt', 'date'):
            import datetime as pydt
            d = pydt.date.fromordinal(rng.choice([rng.randrange(693596, 767010), 734869, 734868, 737484, 737485, 730120]))
            d = rng.choice([d, d.replace(day=1), d.replace(month=12, day=31), d.replace(month=1, day=1)])
            if kind == 'date':
                return {'date': [d.year, d.month, d.day]}
            tz = rng.choice([None, None, 0, 0, 180, -300, 330, -570, 840, -720, 60, -1, rng.randrange(-839, 840)])
            h, mi = rng.choice([(0, 0), (23, 59), (1, 30), (12, 0), (rng.randrange(24), rng.randrange(60))])
            return {'dt': [d.year, d.month, d.day, h, mi, rng.choice([0, 59, rng.randrange(60)]),
                           rng.choice([0, 0, 500000, rng.randrange(10 ** 6)]), tz]}
        if kind == 'dec':
            return {'dec': rng.choice(['0', '1', '-1', '1.5', '-2.50', '100', '0.001', '12345678901234567890.123456789',
                                       '%d.%02d' % (rng.randrange(-10 ** 6, 10 ** 6), rng.randrange(100))])}
        alphabet = ['a', 'b', 'Z', '0', ' ', '+', '&', '=', ';', '%', '[', ']', '[0]', '.', '_', '/', '?', '#', "'", '"',
                    'empty', 'é', 'ß', '✓', '中', '\U0001F600', ' ', '\x7f', '~', '-', '%41', '%zz', 'None', '\n']
        n = rng.choice([0, 1, 1, 2, 3, 5])
        return {'s': cps(''.join(rng.choice(alphabet) for _ in range(n)))}

    def value(self, fields, depth_left=4, must=False, markers=True):
        """a spellable object value {'o': ...} for the members; `must`: at least one member is spelled"""
        rng = self.rng
        if depth_left >= 4:
            self.big_used = False
            self.budget = 120          # leaves per value: keeps deep signatures from exploding
        while True:
            vals = [[f['n'], self.member(f, depth_left, markers=markers)] for f in fields]
            if not must or any(v is not None for _, v in vals):
                return {'o': vals}

    def member(self, f, depth_left, p_none=0.25, markers=True):
        rng = self.rng
        t = f['t']
        if rng.random() < p_none or (self.budget <= 0 and rng.random() < 0.85):
            return None
        if t['k'] != 'obj':
            if not f['many']:
                self.budget -= 1
                return self.leaf(t['k'])
            mx = f['max'] or 99
            n = min(mx, rng.choice([1, 1, 2, 3, 5, 12]))
            self.budget -= n
            return {'l': [self.leaf(t['k']) for _ in range(n)]}
        if not f['many']:
            if markers and rng.random() < 0.1:
                return {'o': [[g['n'], None] for g in t['fields']], 'marker': True}
            return self.value(t['fields'], depth_left - 1, must=True, markers=markers)
        if rng.random() < 0.12:
            return {'l': []}
        mx = f['max'] or 99
        big = depth_left >= 3 and not self.big_used and rng.random() < 0.3
        if big:
            self.big_used = True        # one long array (crossing the 9 -> 10 boundary) per value keeps cases small
        n = min(mx, rng.choice([10, 11, 12, 13]) if big else rng.choice([1, 1, 2, 2, 3]))
        return {'l': [self.value(t['fields'], depth_left - 1, must=True, markers=markers) for _ in range(n)]}


def strip_marker(v):
    if isinstance(v, dict):
        if 'o' in v:
            return {'o': [[n, strip_marker(x)] for n, x in v['o']]}
        if 'l' in v:
            return {'l': [strip_marker(x) for x in v['l']]}
    return v


def leaf_text(v, t=None):
    if 'dt' in v or 'date' in v:
        return native_leaf(v).isoformat()
    if 'dec' in v:
        return v['dec']
    if 'i' in v:
        return v['i']
    if 'b' in v:
        return 'true' if v['b'] else 'false'
    if 'x' in v:
        import base64
        enc = (t or {}).get('enc', 'urlsafe')
        b = bytes(v['x'])
        return b.hex() if enc == 'hex' else (base64.b64encode(b) if enc == 'base64' else base64.urlsafe_b64encode(b)).decode('ascii')
    return uncps(v['s'])


def spell(rng, fields, val, delim, prefix='', sparse=False, idx_style=0):
    """the documented flattened notation of a value: list of (key, text) pairs in member order.
    Arrays of objects get index `[i]`; `sparse`: strictly increasing arbitrary indexes instead of 0..n-1."""
    out = []
    for (n, v), f in zip(val['o'], fields):
        if v is None:
            continue
        key = prefix + uncps(f['n'])
        t = f['t']
        if t['k'] != 'obj':
            if f['many']:
                out += [(key, leaf_text(x, t)) for x in v['l']]
            else:
                out.append((key, leaf_text(v, t)))
        elif not f['many']:
            if v.get('marker'):
                out.append((key, 'empty'))
            else:
                out += spell(rng, t['fields'], v, delim, key + delim, sparse, idx_style)
        else:
            if not v['l']:
                out.append((key, 'empty'))
                continue
            idxs = list(range(len(v['l'])))
            if sparse:
                cur, idxs = rng.choice([0, 0, 1, 5, 9]), []
                for _ in v['l']:
                    idxs.append(cur)
                    cur += rng.choice([1, 1, 2, 3, 10, 91])
            for i, e in zip(idxs, v['l']):
                out += spell(rng, t['fields'], e, delim, '%s[%d]%s' % (key, i, delim), sparse, idx_style)
    return out


def permute_pairs(rng, pairs):
    """any order of the pairs that keeps the values of one key in their order (the meaning of repeated keys)"""
    order = list(range(len(pairs)))
    rng.shuffle(order)
    shuffled = [pairs[i] for i in order]
    by_key = {}
    for k, v in pairs:
        by_key.setdefault(k, []).append(v)
    pos = {k: 0 for k in by_key}
    out = []
    for k, _ in shuffled:
        out.append((k, by_key[k][pos[k]]))
        pos[k] += 1
    return out


UNRESERVED = set('ABCDEFGHIJKLMNOPQRSTUVWXYZabcdefghijklmnopqrstuvwxyz0123456789_.-~')


def render_qs(rng, pairs, style):
    """a query string for the pairs; style 0: quote(safe=''), 1: '+' for blanks and ';' separators mixed in,
    2: everything escaped, lower-case hex, 3: brackets left bare, 4: all characters a query may carry left bare"""
    def q(s, key):
        if style == 2:
            return ''.join('%%%02x' % b for b in s.encode('utf8'))
        if style == 1:
            return _quote(s, safe='').replace('%20', '+')
        if style == 3 and key:
            return _quote(s, safe='[]')
        if style == 4:
            # everything RFC 3986 allows in a query component left as it is (only the first '=' of a pair
            # separates name and value)
            return _quote(s, safe="[]:/?@!$'()*,." if key else "=:/?@!$'()*,.")
        return _quote(s, safe='')
    parts = [q(k, True) if v is None else '%s=%s' % (q(k, True), q(v, False)) for k, v in pairs]
    if style == 1:
        out = ''
        for i, p in enumerate(parts):
            out += ('' if i == 0 else rng.choice(['&', ';', '&&', '&;'])) + p
        return out + rng.choice(['', '&', ';'])
    return '&'.join(parts)


def doc_of_pairs(pairs):
    d = {}
    for k, v in pairs:
        d.setdefault(k, []).append(v)
    return [[cps(k), [None if v is None else cps(v) for v in vs]] for k, vs in d.items()]


# ------------------------------------------------------------------------------------ T1 facts
def measure_facts():
    from spyne.server.wsgi import _parse_qs
    from spyne import Integer, Boolean
    from spyne.protocol.http import HttpRpc
    f = {}
    inner = obj(1, [fld('x', P('int')), fld('y', P('str'))])
    cfg0 = {'strict': False, 'soft': False, 'delim': cps('.')}
    # tag scope: second member of the same class
    sig = [fld('a', inner), fld('b', inner)]
    r, _, _ = Impl(sig, cfg0).get('a.x=1&b.x=2')
    bx = None
    try:
        bx = r['ok']['o'][1][1]['o'][0][1]
    except Exception:
        pass
    f['tagScope'] = 'perBranch' if bx == {'i': '2'} else 'perRequestClass'
    # frequency scope (soft validation): observable only when both members are expanded
    if f['tagScope'] == 'perBranch':
        r, _, _ = Impl(sig, dict(cfg0, soft=True)).get('a.x=1&b.x=2')
        f['freqScope'] = 'perMember' if 'ok' in r else 'perClass'
    else:
        import inspect
        from spyne.protocol.dictdoc import simple
        src = inspect.getsource(simple.SimpleDictDocument.simple_dict_to_object)
        f['freqScope'] = 'perClass' if 'cfreq_key + (ncls, nidx)' in src else 'perMember'
    # key order: 12 indexed primitives / 12 objects with strict arrays
    sigp = [fld('p', P('int'), True)]
    r, _, _ = Impl(sigp, cfg0).get('&'.join('p[%d]=%d' % (i, i) for i in range(12)))
    got = [int(x['i']) for x in r['ok']['o'][0][1]['l']] if 'ok' in r else None
    sigo = [fld('p', obj(2, [fld('i', P('int'))]), True)]
    r2, _, _ = Impl(sigo, dict(cfg0, strict=True)).get('&'.join('p[%d].i=%d' % (i, i) for i in range(12)))
    if got == list(range(12)) and 'ok' in r2:
        f['keyOrder'] = 'natural'
    elif got == [0, 10, 11, 1, 2, 3, 4, 5, 6, 7, 8, 9] and 'fault' in r2:
        f['keyOrder'] = 'lexicographic'
    else:
        f['keyOrder'] = 'other'
    # an object spelled key=empty is validated (mandatory member missing -> rejected)
    mand = obj(3, [fld('x', P('int'), False, None, 1, 1, nillable=False), fld('y', P('str'))])
    r, _, _ = Impl([fld('o', mand)], dict(cfg0, soft=True)).get('o=empty')
    r2, _, _ = Impl([fld('p', mand, True)], dict(cfg0, soft=True, strict=True)).get('p[1].x=5')
    f['freqTouch'] = 'fault' in r and 'fault' in r2
    # the values of one list member under several keys are counted together
    w = fact_witness('freqAccumulates')
    r, _, _ = Impl(w['fields'], w['cfg']).get(w['qs'])
    r2, _, _ = Impl([fld('m', P('int'), True, 'occurs', 2, None)], w['cfg']).get('m[0]=1&m[1]=2')
    f['freqAccumulates'] = 'fault' in r and 'ok' in r2
    r, _, _ = Impl(sigo, cfg0).get('p=empty')
    f['emptyMarker'] = 'empty' if r.get('ok', {}).get('o', [[0, 0]])[0][1] == {'l': []} else 'other'
    seps = [c for c in '&;,| ' if list(_parse_qs('a=1%sb=2' % c).keys()) == ['a', 'b']]
    f['pairSeps'] = seps
    f['plusIsSpace'] = _parse_qs('a=+')['a'] == [' ']
    h = HttpRpc()

    def b(s):
        try:
            return h.from_unicode(Boolean, s)
        except Exception:
            return None
    f['boolFormWords'] = (b('checked'), b('on'), b('off')) == (True, True, False)
    try:
        f['intEmptyIsNone'] = h.from_unicode(Integer, '') is None
    except Exception:
        f['intEmptyIsNone'] = False
    # whose sub_name names a member of a nested object in the member table
    w = fact_witness('subNameScope')
    try:
        keys = set(uncps(k) for k, _, _, _ in Impl(w['fields'], cfg0).sti())
    except Exception:
        keys = set()
    f['subNameScope'] = ('member' if keys == {'o', 'o.qty', 'o.nm'} else
                         'container' if keys == {'o', 'o.o', 'o.nm'} or keys == {'o', 'o.o'} else 'other')
    # a declared ByteArray encoding against the protocol's suggestion
    w = fact_witness('bytesDeclaredWins')
    r, _, _ = Impl(w['fields'], cfg0).get(w['qs'])
    f['bytesDeclaredWins'] = r == {'ok': w['expected']}
    # which instances object_to_simple_dict refuses to enter a second time
    w = fact_witness('encGuard')
    try:
        impl_ = Impl(w['fields'], cfg0)
        enc, raw = impl_.encode_val(w['val'], share=True)
        keys = sorted(raw)
    except Exception:
        keys = None
    f['encGuard'] = ('rootOnly' if keys == ['a.x', 'b.x', 'l[0].x', 'l[1].x', 'l[2].x'] else
                     'visited' if keys == ['a.x'] or keys == ['a.x', 'l[1].x'] else 'other')
    # result hand-over: bare styles, declared text encoding of the return type
    ok_b = True
    for bs, qs in (('out_bare', 'a=1'), ('bare-noargs', '')):
        try:
            i_ = Impl([fld('a', P('int'))], None, 'str', None, {'body_style': bs})
            i_.retval = 'x\u00fc'
            r_, st_, body_ = i_.get(qs)
            ok_b = ok_b and st_.get('status', '').startswith('200') and body_ == 'x\u00fc'.encode('utf8')
        except Exception:
            ok_b = False
    f['bareReturnsServed'] = bool(ok_b)
    try:
        i_ = Impl([fld('a', P('int'))], None, 'str', None, {'ret_enc': 'iso-8859-9'})
        i_.retval = '\u011f\u00fc'
        r_, st_, body_ = i_.get('a=1')
        f['retEncDeclaredWins'] = body_ == '\u011f\u00fc'.encode('iso-8859-9')
    except Exception:
        f['retEncDeclaredWins'] = False
    # when a GET is answered with the WSDL
    from spyne.server.wsgi import WsgiApplication
    wa = Impl([fld('a', P('int'))], cfg0).wsgi

    def isw(qs):
        try:
            return bool(wa.is_wsdl_request({'REQUEST_METHOD': 'GET', 'QUERY_STRING': qs, 'PATH_INFO': '/f'}))
        except Exception:
            return None
    obs = tuple(isw(q) for q in WSDL_PROBES)
    f['wsdlRule'] = ('firstName' if obs == tuple(is_wsdl_qs(q) for q in WSDL_PROBES) else
                     'suffix' if obs == tuple(q.lower().endswith('wsdl') for q in WSDL_PROBES) else 'other')
    return f


WSDL_PROBES = ['wsdl', 'WSDL', 'Wsdl=1&a=2', 'wsdl=', 'a=1&wsdl', 'a=x.wsdl', 'a=wsdl', 'wsdl&a=1', 'xwsdl', 'wsdlx=1', '',
               'a=1', 'a=1&b=WSDL', 'wsdl=1&a=wsdl', 'a.wsdl=1', 'b=2&wsdl=1']


GOOD = {'keyOrder': 'natural', 'tagScope': 'perBranch', 'freqScope': 'perMember', 'subNameScope': 'member',
        'wsdlRule': 'firstName', 'encGuard': 'rootOnly', 'bytesDeclaredWins': True, 'bareReturnsServed': True,
        'retEncDeclaredWins': True}
GOOD_C05 = {'freqTouch': True, 'freqAccumulates': True}      # soft-validation switches: reported by part_c05 (property C05), modelled either way


def fact_witness(k):
    inner = obj(1, [fld('x', P('int')), fld('y', P('str'))])
    if k == 'subNameScope':
        item = obj(4, [fld('nm', P('str')), fld('qty', P('int'), py='quantity')])
        val = {'o': [[cps('o'), {'o': [[cps('nm'), {'s': cps('pen')}], [cps('qty'), {'i': '3'}]]}]]}
        return {'op': 'documented', 'fields': [fld('o', item, py='order')], 'cfg': {'strict': False, 'soft': False, 'delim': cps('.')},
                'qs': 'o.nm=pen&o.qty=3', 'expected': val}
    if k == 'bareReturnsServed':
        return {'op': 'return-style', 'style': 'out-bare', 'chunked': True}
    if k == 'retEncDeclaredWins':
        return {'op': 'return-encoding', 'enc': 'iso-8859-9', 'text': '\u011f\u00fc\u015f'}
    if k == 'bytesDeclaredWins':
        val = {'o': [[cps('k'), {'x': [0xde, 0xad, 0xbe, 0xef]}]]}
        return {'op': 'documented', 'fields': [fld('k', {'k': 'bytes', 'enc': 'hex', 'encd': True})],
                'cfg': {'strict': False, 'soft': False, 'delim': cps('.')}, 'qs': 'k=deadbeef', 'expected': val}
    if k == 'encGuard':
        pt = obj(6, [fld('x', P('int'))])
        p0, p1 = {'o': [[cps('x'), {'i': '1'}]]}, {'o': [[cps('x'), {'i': '2'}]]}
        val = {'o': [[cps('a'), p0], [cps('b'), p0], [cps('l'), {'l': [p0, p1, p0]}]]}
        return {'op': 'roundtrip', 'fields': [fld('a', pt), fld('b', pt), fld('l', pt, True)],
                'cfg': {'strict': False, 'soft': False, 'delim': cps('.')}, 'val': val, 'share': True}
    if k == 'wsdlRule':
        doc = obj(5, [fld('name', P('str')), fld('kind', P('str'))])
        val = {'o': [[cps('doc'), {'o': [[cps('name'), {'s': cps('stock.wsdl')}], [cps('kind'), {'s': cps('soap')}]]}],
                     [cps('n'), {'i': '1'}]]}
        return {'op': 'documented', 'fields': [fld('doc', doc), fld('n', P('int'))],
                'cfg': {'strict': False, 'soft': False, 'delim': cps('.')},
                'qs': 'doc.kind=soap&n=1&doc.name=stock.wsdl', 'expected': val}
    if k == 'freqAccumulates':
        return {'op': 'verdict', 'fields': [fld('m', P('int'), True, 'occurs', 0, 2)],
                'cfg': {'strict': False, 'soft': True, 'delim': cps('.')}, 'qs': 'm[0]=1&m[1]=2&m[2]=3', 'expected': 'fault'}
    if k == 'freqTouch':
        mand = obj(3, [fld('x', P('int'), False, None, 1, 1, nillable=False), fld('y', P('str'))])
        return {'op': 'verdict', 'fields': [fld('o', mand)], 'cfg': {'strict': False, 'soft': True, 'delim': cps('.')},
                'qs': 'o=empty', 'expected': 'fault'}
    if k == 'keyOrder':
        sig = [fld('p', obj(2, [fld('i', P('int'))]), True)]
        val = {'o': [[cps('p'), {'l': [{'o': [[cps('i'), {'i': str(i)}]]} for i in range(12)]}]]}
        return {'op': 'documented', 'fields': sig, 'cfg': {'strict': True, 'soft': False, 'delim': cps('.')},
                'qs': '&'.join('p[%d].i=%d' % (i, i) for i in range(12)), 'expected': val}
    sig = [fld('a', inner), fld('b', inner)]
    val = {'o': [[cps('a'), {'o': [[cps('x'), {'i': '1'}], [cps('y'), None]]}],
                 [cps('b'), {'o': [[cps('x'), {'i': '2'}], [cps('y'), None]]}]]}
    return {'op': 'documented', 'fields': sig, 'cfg': {'strict': False, 'soft': k == 'freqScope', 'delim': cps('.')},
            'qs': 'a.x=1&b.x=2', 'expected': val}


def facts_lean(f):
    b = lambda x: 'true' if x else 'false'
    ch = lambda c: "Char.ofNat %d" % ord(c)
    return '''-- GENERATED by harness/c03.py (T1) from /repo on every run. Do not edit.
import SpyneModel.Flat
import SpyneModel.Generated.Facts08
namespace SpyneModel.Generated
open SpyneModel SpyneModel.Flat

def facts03 : Facts03 where
  keyOrder := .%s
  tagScope := .%s
  freqScope := .%s
  leaf := facts08
  freqTouch := %s
  freqAccumulates := %s
  emptyMarker := %s
  pairSeps := [%s]
  plusIsSpace := %s
  boolFormWords := %s
  intEmptyIsNone := %s
  subNameScope := .%s
  wsdlRule := .%s
  encGuard := .%s
  bytesDeclaredWins := %s
  bareReturnsServed := %s
  retEncDeclaredWins := %s

end SpyneModel.Generated
''' % (f['keyOrder'], f['tagScope'], f['freqScope'], b(f['freqTouch']), b(f['freqAccumulates']),
       '"%s".toList' % f['emptyMarker'], ', '.join(ch(c) for c in f['pairSeps']),
       b(f['plusIsSpace']), b(f['boolFormWords']), b(f['intEmptyIsNone']), f['subNameScope'], f['wsdlRule'], f['encGuard'], b(f['bytesDeclaredWins']), b(f['bareReturnsServed']), b(f['retEncDeclaredWins']))


# ------------------------------------------------------------------------------------ fixed corpus
def corpus():
    """signatures with hand-picked shapes (always run first)"""
    I, S, B = P('int'), P('str'), P('bool')
    cm = obj(101, [fld('i', I), fld('s', S)])
    ccm = obj(102, [fld('i', I), fld('c', cm), fld('s', S)])
    res = [
        [fld('a', I), fld('b', S), fld('c', B)],
        [fld('s', S, True, 'occurs', 0, None)],
        [fld('cs', cm, True)],
        [fld('ccm', ccm)],
        [fld('ccm', obj(103, [fld('i', I), fld('c', cm, True, 'occurs', 0, 2), fld('s', S)]))],
        [fld('ccm', obj(104, [fld('i', I), fld('c', S, True), fld('s', S)]), True)],
        [fld('a', cm), fld('b', cm)],                                   # the same class twice
        [fld('o', obj(105, [fld('p', cm), fld('q', cm, True)]))],
        [fld('p', obj(106, [fld('i', I, False, None, 1), fld('cc', obj(107, [fld('d', S)]), True)]), True)],
        [fld('a', obj(108, [fld('b', obj(109, [fld('c', obj(110, [fld('d', I, True)]), True)]), True)]), True)],
        [fld('ab', I), fld('a', obj(111, [fld('b', I)]))],              # conflicting with delim '' only
        [fld('x', I, True, 'occurs', 1, 3), fld('y', B, False, None, 1)],
    ]
    return res


# ------------------------------------------------------------------------------------ run
def outcome_class(o):
    """canonical outcome: ok value / fault / crash (class names of crashes are not compared)"""
    if 'crash' in o:
        return {'crash': '*'}
    return o


def feature_of(fields, val_pairs, cfg):
    import re
    cs = cids(fields)
    if len(set(cs)) != len(cs):
        return 'same-class-twice'
    if any(int(d) >= 10 for k, _ in val_pairs for d in re.findall(r'\[([0-9]+)\]', k)):
        return 'index>=10'
    return 'other'


def own_known(ctx):
    """known findings of this property that are staged in fixes/C03-known.json (merged into known_findings.json by main)"""
    import json, os
    p = os.path.join(core.VERIF, 'fixes', 'C03-known.json')
    if os.path.exists(p):
        have = set(k.get('id') for k in ctx.known_findings)
        ctx.known_findings += [k for k in json.load(open(p)) if k.get('property') == ctx.prop and k.get('id') not in have]


def run(ctx):
    rng = ctx.rng
    own_known(ctx)
    # ---- T1
    from . import c08
    c08.refresh_facts(ctx)      # leaf switches -> Generated/Facts08.lean (Facts03 embeds them)
    f = measure_facts()
    ctx.facts = f
    ctx.write_generated('Facts03.lean', facts_lean(f))
    for k, good in GOOD.items():
        if f[k] != good:
            ctx.hit('fact-bad:' + k)
            w = fact_witness(k)
            if k == 'freqTouch':
                r0, _, _ = Impl(w['fields'], w['cfg']).get(w['qs'])
                r = None if 'fault' in r0 else 'soft validation lets %r through although member x is mandatory: %s' % (
                    w['qs'], core.canon(r0)[:200])
            elif w['op'] in ('return-style', 'return-encoding'):
                r = 'the result does not arrive as its exact text (see the replay)'
            elif w['op'] == 'roundtrip':
                r = check_roundtrip(w['fields'], w['cfg'], w['val'], w.get('share', False))
            else:
                r = check_documented(ctx, w['fields'], w['cfg'], w['qs'], w['expected'], report=False)
            if r is not None:
                ctx.finding('switch:%s=%s' % (k, f[k]), 'behaviour switch %s measured %r (good: %r): %s' % (k, f[k], good, r),
                            dict(w, fact=k, measured=f[k]))
    # ---- proof
    ctx.prove()

    Q = []

    def add(q, impl, nontrivial=True):
        Q.append((q, impl))
        ctx.case(q, nontrivial)
        ctx.hit('op:' + q['op'])

    t2_small(ctx, add)
    sigs = corpus()
    g = Gen(rng)
    n_sig = 900 if ctx.thorough else 300
    for i in range(n_sig):
        g.pool = g.pool[-6:]
        g.ext = (i % 5 == 4)
        if g.ext:
            g.pool = []
        sigs.append(g.fields(rng.choice([0, 1, 2, 2, 3, 3, 4] if ctx.thorough else [0, 1, 2, 2, 3]), top=True))
    model_ok = f['tagScope'] == 'perBranch'
    import gc
    for i, sig in enumerate(sigs):
        if i % 25 == 0:
            gc.freeze()     # the recorded queries are millions of small objects: keep them out of later collections
        if i and i % 100 == 0:
            ctx.log('%d signatures, %d queries' % (i, len(Q)))
        run_signature(ctx, g, sig, add, f, model_ok)
    t3_wsdl(ctx, add)
    t3_history(ctx, add)
    t3_defaults(ctx, add)
    t3_bare(ctx, add)
    t3_in_header(ctx, add)
    t3_return_styles(ctx, add)
    t3_return_encodings(ctx)
    t3_shared_headers(ctx)
    t3_conflict(ctx)
    t3_novalidate(ctx)
    t2_returns(ctx, g, add)
    ctx.log('implementation side done: %d queries' % len(Q))

    # ---- compare with the model
    answers = model_parallel(ctx, [q for q, _ in Q])
    ctx.log('model side done')
    for (q, impl), mod in zip(Q, answers):
        if isinstance(mod, dict) and 'driver_error' in mod:
            raise core.Infra('driver error: %r on %r' % (mod, q))
        a, b = impl, mod
        if q['op'] in ('flat.decode', 'http.get', 'http.get.decl', 'hdr.in'):
            a, b = outcome_class(impl), outcome_class(mod)
        if q['op'] in ('flat.encode', 'flat.encode.shared', 'sti', 'sti.decl'):
            b = sorted(mod)
        if a != b:
            ctx.disagree(q['op'], show_q(q), a, b)
    ctx.cov['facts'] = f
    ctx.assumptions += [
        'leaf kinds in the model: Integer, Unicode, Boolean (no facets); other primitives only through T3-free C08 lemmas',
        'POST form bodies / multipart need werkzeug (not installed): only the GET query-string path is driven',
        'urllib.parse.unquote/quote, int(), str.lower, list.insert, dict and sorted() are CPython oracles mirrored by the model and diffed in T2',
        'soft validation: acceptance of conformant documented requests is tested (T2/T3), only "soft never alters the value" is proved',
        'members are identified by their key name (sub_name if declared); Python names are a relabelling done by the harness; '
        'default values, self-referencing classes, File members, HttpPattern routing are outside the model',
    ]
    ctx.cov['rule'] = (
        'signature = nested object/array shape (depth<=4 thorough, <=3 quick; members int/str/bool, wrapped and '
        'max_occurs arrays, classes reused between members) x configuration (hier_delim, strict_arrays, validator); '
        'case = (signature, configuration, value, pair permutation, sparse/contiguous index choice, escaping style) for '
        'the documented notation, plus undocumented/garbled documents and query strings for T2; '
        'distinct = distinct canonical query; non-trivial = at least one pair reaches a member')


def model_parallel(ctx, queries, chunk=400):
    """ctx.model on chunks in parallel (the driver is interpreted; one process per chunk)"""
    import os
    from concurrent.futures import ThreadPoolExecutor
    chunks = [queries[i:i + chunk] for i in range(0, len(queries), chunk)]
    with ThreadPoolExecutor(max_workers=max(2, min(8, (os.cpu_count() or 4) // 2))) as ex:
        res = list(ex.map(lambda ch: ctx.model(ch, driver='C03'), chunks))
    return [a for r in res for a in r]


def show_q(q):
    q = dict(q)
    for k in ('qs', 's'):
        if isinstance(q.get(k), list):
            q[k + '_text'] = uncps(q[k])
    if 'doc' in q:
        q['doc_text'] = [[uncps(k), [None if v is None else uncps(v) for v in vs]] for k, vs in q['doc']]
    return q


def check_documented(ctx, fields, cfg, qs, expected_val, report=True, what='', fid=None, replay=None):
    """T3: a GET with the documented spelling makes the user function receive exactly the values"""
    impl = get_impl(fields, cfg)
    r, st, body = impl.get(qs)
    ctx.cov['traces_validated_against_impl'] += 1
    exp = {'wsdl': True} if is_wsdl_qs(qs) else {'ok': strip_marker(expected_val)}
    if r == exp:
        return None
    msg = 'query %r: expected %s, got %s' % (qs[:200], core.canon(exp)[:300], core.canon(r)[:300])
    if report:
        ctx.hit('t3-fail:' + (fid or 'documented'))
        ctx.finding(fid or 'documented', what + msg, replay or {})
    return msg


def run_signature(ctx, g, sig, add, facts, model_ok):
    rng = ctx.rng
    delim = rng.choice(DELIMS)
    keys = sti_keys(sig, delim)
    if len(set(keys)) != len(keys) or any('[' in k for k in keys):
        delim = '.'
        keys = sti_keys(sig, delim)
        if len(set(keys)) != len(keys):
            ctx.hit('skipped:key-conflict')
            return
    dup_cls = len(set(cids(sig))) != len(cids(sig))
    ctx.hit('sig:depth=%d' % depth(sig))
    ctx.hit('sig:delim=' + delim)
    if dup_cls:
        ctx.hit('sig:same-class-twice')
    if has_feature(sig, lambda f: 'base' in f['t']):
        ctx.hit('sig:inherited-members')
    ext = has_feature(sig, lambda f: f['t']['k'] in EXT)
    if ext:
        ctx.hit('sig:extended-leaf-kinds(T3 only)')
    use_model = (model_ok or not dup_cls) and not ext
    mf = model_fields(sig)
    base_cfg = {'strict': False, 'soft': False, 'delim': cps(delim)}
    # the member table
    if use_model:
        add({'op': 'sti', 'delim': cps(delim), 'fields': mf}, get_impl(sig, base_cfg).sti())
        if has_feature(sig, lambda f: 'py' in f):
            ctx.hit('sig:sub_name')
            add({'op': 'sti.decl', 'delim': cps(delim), 'fields': decl_fields(sig)}, get_impl(sig, base_cfg).sti())
    n_val = 5 if ctx.thorough else 3
    for vi in range(n_val):
        val = g.value(sig, 4)
        for strict in (False, True):
            for soft in (False, True):
                cfg = {'strict': strict, 'soft': soft, 'delim': cps(delim)}
                sparse = (not strict) and rng.random() < 0.6
                pairs = spell(rng, sig, val, delim, sparse=sparse)
                # soft validation: leave out values that miss a mandatory member (not conformant)
                conformant = not soft or conforms(sig, val)
                ctx.hit('cfg:strict=%s,soft=%s' % (strict, soft))
                ctx.hit('case:sparse' if sparse else 'case:contiguous')
                nperm = 1 if len(pairs) < 2 else (3 if ctx.thorough else 2)
                for pi in range(nperm):
                    pp = pairs if pi == 0 else permute_pairs(rng, pairs)
                    style = rng.choice([0, 0, 1, 2, 3, 4, 4])
                    qs = render_qs(rng, pp, style)
                    impl = get_impl(sig, cfg)
                    r, st, body = impl.get(qs)
                    nontrivial = len(pairs) > 0
                    if use_model:
                        add({'op': 'http.get', 'cfg': cfg, 'fields': mf, 'qs': cps(qs)}, r, nontrivial)
                    if conformant:
                        ctx.cov['traces_validated_against_impl'] += 1
                        exp = {'wsdl': True} if is_wsdl_qs(qs) else {'ok': strip_marker(val)}
                        if is_wsdl_qs(qs):
                            ctx.hit('case:genuine-wsdl-request')
                        elif 'wsdl' in qs.lower():
                            ctx.hit('case:wsdl-inside-query:' + ('last' if qs.lower().endswith('wsdl') else 'elsewhere'))
                        if r != exp:
                            feat = feature_of(sig, pairs, cfg)
                            fid = 'documented:%s:%s' % ('strict' if strict else 'lenient', feat)
                            ctx.hit('t3-fail:' + fid)
                            ctx.finding(fid, 'the documented spelling %r (strict_arrays=%s, validator=%s, hier_delim=%r) '
                                        'does not reach the user function as spelled: got %s' % (
                                            qs[:300], strict, 'soft' if soft else None, delim, core.canon(r)[:400]),
                                        {'op': 'documented', 'fields': sig, 'cfg': cfg, 'qs': qs, 'expected': strip_marker(val)})
                # the flat document directly, without the query string layer
                if use_model and vi == 0:
                    doc = doc_of_pairs(permute_pairs(rng, pairs))
                    add({'op': 'flat.decode', 'cfg': cfg, 'fields': mf, 'doc': doc}, get_impl(sig, cfg).decode_doc(doc), len(doc) > 0)
        # object -> flat dict -> object
        rt_val = g.value(sig, 4, markers=False)
        share = rng.random() < 0.5 and has_feature(sig, lambda f: f['t']['k'] == 'obj')
        if share:
            rt_val = make_shared(rng, sig, rt_val)     # the very same instance at several places
            ctx.hit('roundtrip:shared-instances')
        impl0 = get_impl(sig, base_cfg)
        enc, raw = impl0.encode_val(rt_val, share=share)
        if use_model:
            add({'op': 'flat.encode', 'delim': cps(delim), 'fields': mf, 'inst': rt_val}, sorted(enc))
            if share:
                add({'op': 'flat.encode.shared', 'delim': cps(delim), 'fields': mf, 'inst': labelled(sig, rt_val)}, sorted(enc))
        doc = []
        for k, v in raw.items():
            kind = leaf_kind(sig, k, delim)
            if isinstance(v, list) and impl0.key_many(k):
                if v:
                    doc.append([cps(k), [cps(impl0.text_of(kind, x, k)) for x in v]])
            elif v == 'empty' and impl0.is_complex_key(k):
                doc.append([cps(k), [cps('empty')]])
            elif v is None:
                doc.append([cps(k), [None]])          # a mandatory member that is None: the key without `=`
            else:
                doc.append([cps(k), [cps(impl0.text_of(kind, v, k))]])
        for strict in (False, True):
            cfg = {'strict': strict, 'soft': False, 'delim': cps(delim)}
            rng.shuffle(doc)
            back = get_impl(sig, cfg).decode_doc(doc)
            if not conforms(sig, rt_val):
                continue
            ctx.cov['traces_validated_against_impl'] += 1
            if back != {'ok': rt_val}:
                feat = feature_of(sig, [(uncps(k), None) for k, _ in doc], cfg)
                fid = 'roundtrip:%s:%s' % ('strict' if strict else 'lenient', feat)
                ctx.hit('t3-fail:' + fid)
                ctx.finding(fid, 'object_to_simple_dict followed by simple_dict_to_object (strict_arrays=%s) does not give the '
                            'object back: flat=%s got %s' % (strict, core.canon(show_q({'doc': doc})['doc_text'])[:300], core.canon(back)[:300]),
                            {'op': 'roundtrip', 'fields': sig, 'cfg': cfg, 'val': rt_val, 'share': share})
    # undocumented / garbled documents: model and implementation must still agree (T2 only)
    if use_model:
        for _ in range(6 if ctx.thorough else 3):
            cfg = {'strict': rng.random() < 0.5, 'soft': rng.random() < 0.5, 'delim': cps(delim)}
            doc = garbled_doc(rng, g, sig, keys, delim)
            r1 = get_impl(sig, cfg).decode_doc(doc)
            add({'op': 'flat.decode', 'cfg': cfg, 'fields': mf, 'doc': doc}, r1)
            ctx.hit('garbled')
            # T3 (pair_order_irrelevant): any document, any configuration: the key order does not matter
            if order_keys_distinct(doc) and len(doc) > 1:
                doc2 = list(doc)
                rng.shuffle(doc2)
                r2 = get_impl(sig, cfg).decode_doc(doc2)
                ctx.cov['traces_validated_against_impl'] += 1
                if outcome_class(r1) != outcome_class(r2):
                    ctx.hit('t3-fail:order-dependence')
                    ctx.finding('order-dependence', 'the outcome depends on the order of the keys: %s -> %s, %s -> %s' % (
                        core.canon(show_q({'doc': doc})['doc_text'])[:300], core.canon(r1)[:200],
                        core.canon(show_q({'doc': doc2})['doc_text'])[:300], core.canon(r2)[:200]),
                        {'op': 'order', 'fields': sig, 'cfg': cfg, 'doc': doc, 'doc2': doc2})


def conforms(fields, val):
    """every mandatory (min_occurs=1) member of every spelled object is present, max_occurs respected"""
    for (n, v), f in zip(val['o'], fields):
        if v is None:
            if f['min'] > 0:
                return False
            continue
        t = f['t']
        if f['many']:
            if f['max'] is not None and len(v['l']) > f['max']:
                return False
            if len(v['l']) < f['min']:
                return False
        if t['k'] == 'obj':
            for e in (v['l'] if f['many'] else [v]):
                if not conforms(t['fields'], e):
                    return False
    return True


def leaf_kind(fields, key, delim):
    """primitive kind of the member a flat key denotes"""
    import re
    k = re.sub(r'\[[0-9]+\]', '', key)

    def go(fs, prefix):
        for f in fs:
            p = prefix + uncps(f['n'])
            if f['t']['k'] != 'obj':
                if p == k:
                    return f['t']['k']
            else:
                r = go(f['t']['fields'], p + delim)
                if r:
                    return r
        return None
    return go(fields, '') or 'str'


def leaf_type(fields, key, delim):
    """type of the primitive member a flat key denotes (None: no such member)"""
    import re
    k = re.sub(r'\[[0-9]+\]', '', key)

    def go(fs, prefix):
        for f in fs:
            p = prefix + uncps(f['n'])
            if f['t']['k'] != 'obj':
                if p == k:
                    return f['t']
            else:
                r = go(f['t']['fields'], p + delim)
                if r:
                    return r
        return None
    return go(fields, '')


def garbled_doc(rng, g, sig, keys, delim):
    """a flat document outside the documented notation: indexes missing, doubled, on the wrong segment, with
    leading zeros; unknown keys; markers and junk values"""
    doc = {}
    for _ in range(rng.choice([1, 2, 3, 5, 8])):
        k = rng.choice(keys + keys + ['nokey', 'zz' + delim + 'q'])
        segs = k.split(delim) if delim in k else [k]
        out = []
        for s in segs:
            r = rng.random()
            if r < 0.45:
                s += '[%s]' % rng.choice(['0', '1', '2', '3', '7', '10', '11', '00', '01', '002', '5', '99'])
            if r < 0.06:
                s += '[%d]' % rng.randrange(3)
            if 0.9 < r < 0.93:
                s += rng.choice(['[]', '[x]', '[-1]', '[1', ']'])
            out.append(s)
        key = delim.join(out)
        kind = leaf_kind(sig, key, delim)
        lt = leaf_type(sig, key, delim)
        vals = []
        for _ in range(rng.choice([1, 1, 1, 2, 3])):
            r = rng.random()
            if kind == 'bytes':
                # text outside the alphabet of the declared codec is the leaf codecs' business (C08): canonical text only
                vals.append(None if r < 0.1 else leaf_text(g.leaf(kind), lt))
            elif r < 0.1:
                vals.append(None)
            elif r < 0.2:
                vals.append('empty')
            elif r < 0.28:
                vals.append('')
            elif r < 0.4:
                vals.append(rng.choice(['x', '1x', 'tru', ' 1', '1_0', '+5', 'ON', 'Checked', 'off', 'TRUE', '0', '-0']))
            else:
                vals.append(leaf_text(g.leaf(kind)))
        doc.setdefault(key, []).extend(vals)
    return [[cps(k), [None if v is None else cps(v) for v in vs]] for k, vs in doc.items()]


def order_keys_distinct(doc):
    import re
    norm = [re.sub(r'\[0*([0-9]+)\]', lambda m: '[%d]' % int(m.group(1)), uncps(k)) for k, _ in doc]
    return len(set(norm)) == len(norm)


def ascii_model_text(s):
    return all(ord(c) < 128 for c in s)


def t2_small(ctx, add):
    """the small mechanisms on their own: regex, _s2cmi, _parse_qs, quote/unquote"""
    import re
    rng = ctx.rng
    from spyne.protocol.dictdoc.simple import RE_HTTP_ARRAY_INDEX, _s2cmi
    from spyne.server.wsgi import _parse_qs
    from urllib.parse import unquote
    # keys
    alpha = ['a', 'b', '.', '[', ']', '0', '1', '9', '[0]', '[12]', '[007]', '_', 'x', '[]', '[[', ']]', '[1][2]', '-']
    keys = ['', 'a', 'a[0]', 'a[0].b', 'a[10].b[2].c', 'a[]', 'a[x]', 'a[1', 'a1]', '[5]', '[[5]]', 'a[0][1]', 'a[01].b', '[1][2][3]']
    for _ in range(600 if ctx.thorough else 150):
        keys.append(''.join(rng.choice(alpha) for _ in range(rng.randrange(1, 9))))
    for k in keys:
        add({'op': 'key.strip', 's': cps(k)}, cps(RE_HTTP_ARRAY_INDEX.sub('', k)))
        add({'op': 'key.idx', 's': cps(k)}, [int(x) for x in RE_HTTP_ARRAY_INDEX.findall(k)])
    # the order of the keys (the patched tree has `_key_order`; the pinned one sorts the plain strings)
    from spyne.protocol.dictdoc import simple as _simple
    korder = getattr(_simple, '_key_order', None)
    for _ in range(200 if ctx.thorough else 50):
        ks = list({rng.choice(keys) for _ in range(rng.randrange(2, 7))})
        rng.shuffle(ks)
        norm = [re.sub(r'\[0*([0-9]+)\]', lambda m: '[%d]' % int(m.group(1)), k) for k in ks]
        if len(set(norm)) != len(norm):
            continue            # keys that tie for the order keep their (dict) order: not compared
        add({'op': 'key.sort', 'keys': [cps(k) for k in ks]}, [cps(k) for k in (sorted(ks, key=korder) if korder else sorted(ks))])
    # _s2cmi: every insertion order of small index sets, and random larger ones
    seqs = [list(p) for n in range(1, 5) for p in itertools.permutations([0, 2, 3, 7][:n])]
    for _ in range(300 if ctx.thorough else 60):
        seqs.append(rng.sample(range(0, 40), rng.randrange(1, 12)))
    exhaustive = 0
    for seq in seqs:
        m, lst = {}, []
        for j, nidx in enumerate(seq):
            before = [[a, b] for a, b in m.items()]
            ret = _s2cmi(m, nidx)
            lst.insert(ret, nidx)
            add({'op': 's2cmi', 'm': before, 'nidx': nidx}, {'ret': ret, 'm': [[a, b] for a, b in m.items()]})
        exhaustive += 1
        # T3 for the mechanism: the list of inserted items is in index order, the map is the rank
        if lst != sorted(seq) or any(m[i] != sorted(seq).index(i) for i in seq):
            ctx.finding('s2cmi:order', '_s2cmi does not keep insertion sequence %r in index order: %r %r' % (seq, lst, m),
                        {'op': 's2cmi', 'seq': seq})
    ctx.cov['s2cmi_sequences'] = exhaustive
    # query strings
    qss = ['', 'p', 'p=', 'p=1', 'p=1&', 'p=1&q', 'p=1&q=', 'p=1&q=2&p', 'p=1&q=2&p=3', 'a=1;b=2', 'a=1&&b=2;;c', '=x', '==', 'a==b',
           'a=b=c', 'a+b=c+d', 'a%20b=%41%zz%4', '%e4%b8%ad=%F0%9F%98%80', 'a%5B0%5D.b=1', 'a[0].b=1&a[0].b=2', '%', '%%', '%%41', 'a=%C3%A9&a=%e9',
           '&', ';', '&=', 'k=%c3', 'k=%c3%28', 'k=%e2%82', 'k=%f0%9f%98', 'k=%ed%a0%80', 'k=%c0%af', 'k=%f5%80%80%80', 'k=%e0%80%80', 'k=%f4%90%80%80']
    al = ['a', 'b', '=', '&', ';', '+', '%', '4', '1', 'c', '3', 'A', 'f', '[', ']', '.', '%20', '%3D', '%26', '%2B', '%c3%a9', '%E2%9C%93', ' ']
    for _ in range(800 if ctx.thorough else 200):
        qss.append(''.join(rng.choice(al) for _ in range(rng.randrange(1, 14))))
    for qs in qss:
        d = _parse_qs(qs)
        add({'op': 'qs.parse', 'qs': cps(qs)}, [[cps(k), [None if v is None else cps(v) for v in vs]] for k, vs in d.items()])
    # quote / unquote of arbitrary scalar values (T3 of the percent coding: lossless)
    g = Gen(rng)
    for _ in range(500 if ctx.thorough else 120):
        s = uncps(g.leaf('str')['s']) + rng.choice(['', chr(rng.randrange(0x20, 0x7f)), chr(rng.choice([0x80, 0x7ff, 0x800, 0xffff, 0x10000, 0x10ffff, rng.randrange(0x80, 0xd800), rng.randrange(0xe000, 0x110000)]))])
        q = _quote(s, safe='')
        add({'op': 'qs.quote', 's': cps(s)}, cps(q))
        add({'op': 'qs.unquote', 's': cps(q)}, cps(unquote(q)))
        if unquote(q) != s:
            ctx.finding('percent-coding', 'unquote(quote(%r)) = %r' % (s, unquote(q)), {'op': 'quote', 's': cps(s)})


def history_setup(obj_):
    """warm endpoint + a member added to an argument class afterwards; returns (impl, new signature)"""
    import copy
    sig = copy.deepcopy(obj_['fields0'])
    impl = Impl(sig, obj_['cfg'])           # a fresh long-lived endpoint (not from the cache)
    r0, _, _ = impl.get(obj_['warm'])
    t = sig[0]['t']
    for _ in range(obj_['depth'] - 1):
        t = next(f for f in t['fields'] if f['t']['k'] == 'obj')['t']
    cls = impl.cls_of(t)
    newf = copy.deepcopy(obj_['new'])
    if obj_['how'] == 'append':
        cls.append_field(py_of(newf), impl.type_of(newf))
        t['fields'].append(newf)
    else:
        cls.insert_field(obj_['idx'], py_of(newf), impl.type_of(newf))
        t['fields'].insert(obj_['idx'], newf)
    return impl, sig, r0


def t3_history(ctx, add, c05=False):
    """history dimension: an endpoint that has already served a request, then `append_field` / `insert_field` on a class
    of its argument, then requests that use the new member: valid values are delivered, values outside the facets of the
    new member are rejected under soft validation"""
    rng = ctx.rng
    S, I = P('str'), P('int')
    n = (24 if ctx.thorough else 10)
    for ci in range(n):
        depth = rng.choice([1, 1, 2])
        inner = obj(950, [fld('name', S), fld('c', I)])
        item = inner if depth == 1 else obj(951, [fld('tag', S), fld('sub', inner, rng.random() < 0.4)])
        many = rng.random() < 0.4
        wrap = rng.choice(['array', 'occurs']) if many else None
        sig0 = [fld('item', item, many, wrap, 0, None if many else 1), fld('k', I)]
        kind = rng.choice(['i8', 'u8', 'i16', None])
        newt = dict(I, kind=kind) if kind else rng.choice([I, S])
        newf = fld(rng.choice(['qty', 'z', 'n2']), newt, py=rng.choice([None, None, 'py_new']))
        how = rng.choice(['append', 'append', 'insert'])
        soft = True if c05 else rng.random() < 0.5
        strict = rng.random() < 0.3
        cfg = {'strict': strict, 'soft': soft, 'delim': cps('.')}
        pre = 'item[0]' if many else 'item'
        subp = lambda f: ('sub[0]' if f['many'] else 'sub')
        path = pre if depth == 1 else pre + '.' + subp(next(f for f in item['fields'] if f['n'] == cps('sub')))
        hobj = {'op': 'history', 'fields0': sig0, 'cfg': cfg, 'depth': depth, 'new': newf, 'how': how, 'idx': rng.choice([0, 1]),
                'warm': path + '.name=x&k=1'}
        try:
            impl, sig, r0 = history_setup(hobj)
        except Exception as e:
            ctx.finding('history:setup-crash', 'append_field/insert_field after a served request raised %s' % type(e).__name__, hobj)
            continue
        ctx.hit('history:%s:depth=%d:%s' % (how, depth, 'array' if many else 'single'))
        if 'ok' not in r0:
            ctx.finding('history:warm-request', 'warm request %r not served: %s' % (hobj['warm'], core.canon(r0)[:200]), hobj)
            continue
        lo, hi = {'i8': (-128, 127), 'u8': (0, 255), 'i16': (-32768, 32767)}.get(kind, (None, None))
        nk = uncps(newf['n'])
        tries = [('5', True)]
        if newt['k'] == 'int':
            tries += [(str(hi), True), (str(lo), True)] if kind else [('999', True)]
            if kind and soft:
                tries += [(str(hi + 1), False), (str(lo - 1), False), ('999999', False)]
            if soft:
                tries += [('abc', False)]
        else:
            tries += [('wsdl', True), ('', True)]
        mf = model_fields(sig)
        for text, good in tries:
            qs = '%s.name=x&k=1&%s.%s=%s' % (path, path, nk, text)
            if rng.random() < 0.5:
                qs = '%s.%s=%s&k=1&%s.name=x' % (path, nk, text, path)
            r, st, body = impl.get(qs)
            ctx.cov['traces_validated_against_impl'] += 1
            add({'op': 'http.get', 'cfg': cfg, 'fields': mf, 'qs': cps(qs)}, r)
            ctx.hit('history:%s' % ('valid' if good else 'outside-facets'))
            if good:
                leaf = {'i': text} if newt['k'] == 'int' else {'s': cps(text)}
                okv = 'ok' in r and core.canon(leaf) in core.canon(r) and core.canon({'s': cps('x')}) in core.canon(r)
                if not okv:
                    ctx.finding('history:%s:new-member-not-delivered' % how,
                                'after a served request and %s_field(%r) on the argument class, %r does not deliver the '
                                'new member: %s' % (how, nk, qs, core.canon(r)[:300]), dict(hobj, qs=qs, good=True, leaf=leaf))
            elif 'fault' not in r:
                ctx.finding('history:%s:new-member-not-validated' % how,
                            'after a served request and %s_field(%r, %s) on the argument class, %r (outside the facets of '
                            'the new member) is not rejected by soft validation: %s' % (how, nk, kind or newt['k'], qs, core.canon(r)[:300]),
                            dict(hobj, qs=qs, good=False))


def make_shared(rng, fields, val):
    """copy sub-objects of `val` to other places of the same class (another member, another array position): with
    Impl.from_val(memo) the equal copies become ONE shared instance"""
    import copy
    val = copy.deepcopy(val)
    by_cls = {}

    def collect(fs, v):
        for (n, x), f in zip(v['o'], fs):
            if f['t']['k'] == 'obj' and x is not None:
                for e in (x['l'] if f['many'] else [x]):
                    by_cls.setdefault(f['t']['cid'], []).append(e)
                    collect(f['t']['fields'], e)
    collect(fields, val)

    def place(fs, v):
        for i, ((n, x), f) in enumerate(zip(v['o'], fs)):
            t = f['t']
            if t['k'] != 'obj':
                continue
            pool = by_cls.get(t['cid'], [])
            if f['many']:
                if x is not None and x['l'] and rng.random() < 0.6:
                    mx = f['max'] or 99
                    for _ in range(rng.choice([1, 2])):
                        if len(x['l']) < mx:
                            x['l'].insert(rng.randrange(len(x['l']) + 1), copy.deepcopy(rng.choice(pool)))
                for e in (x['l'] if x else []):
                    place(t['fields'], e)
            else:
                if pool and rng.random() < 0.5:
                    v['o'][i][1] = x = copy.deepcopy(rng.choice(pool))
                if x is not None:
                    place(t['fields'], x)
    place(fields, val)
    return val


def labelled(fields, val, memo=None):
    """the value with the identity of every object (equal objects of one class = one instance, as Impl.from_val(memo))"""
    memo = {} if memo is None else memo

    def lst(f, x):
        d = {'l': [go(f['t'], e) for e in x['l']]}
        if f['t']['k'] == 'obj':
            d['objs'] = True
        return d

    def go(t, v):
        if v is None:
            return None
        if t['k'] != 'obj':
            return v
        key = (t['cid'], core.canon(v))
        if key not in memo:
            memo[key] = len(memo) + 1
        return {'id': memo[key], 'o': [[n, (None if x is None else
                                          (lst(f, x) if f['many'] else go(f['t'], x)))]
                                         for (n, x), f in zip(v['o'], t['fields'])]}
    return {'id': 0, 'o': [[n, (None if x is None else (lst(f, x) if f['many'] else go(f['t'], x)))]
                           for (n, x), f in zip(val['o'], fields)]}


def check_roundtrip(fields, cfg, val, share):
    impl = Impl(fields, cfg)
    enc, raw = impl.encode_val(val, share=share)
    delim = uncps(cfg['delim'])
    doc = []
    for k, v in raw.items():
        kind = leaf_kind(fields, k, delim)
        if isinstance(v, list) and impl.key_many(k):
            if v:
                doc.append([cps(k), [cps(impl.text_of(kind, x, k)) for x in v]])
        elif v == 'empty' and impl.is_complex_key(k):
            doc.append([cps(k), [cps('empty')]])
        elif v is None:
            doc.append([cps(k), [None]])
        else:
            doc.append([cps(k), [cps(impl.text_of(kind, v, k))]])
    back = impl.decode_doc(doc)
    if back == {'ok': val}:
        return None
    return 'flat=%s got %s' % (core.canon(show_q({'doc': doc})['doc_text'])[:300], core.canon(back)[:300])


def fill_defaults(fields, val):
    """what the user function sees: members of a present object that no key assigns show their default; read-only
    members are never assigned"""
    if val is None:
        return None
    out = []
    for (n, v), f in zip(val['o'], fields):
        t = f['t']
        if t['k'] != 'obj':
            if f.get('ro') or v is None:
                v = f.get('dflt') if not f['many'] else (None if f.get('ro') else v)
        elif v is not None:
            v = {'l': [fill_defaults(t['fields'], e) for e in v['l']]} if f['many'] else fill_defaults(t['fields'], v)
        out.append([n, v])
    return {'o': out}


def decorate(rng, g, fields, p_dflt=0.35, p_ro=0.12):
    """give scalar primitive members (at every depth) a default / make them read-only; fresh copies of the classes"""
    import copy
    fields = copy.deepcopy(fields)

    def go(fs):
        for f in fs:
            t = f['t']
            if t['k'] == 'obj':
                t['cid'] += 5000        # a class of its own (the undecorated one may be cached)
                t.pop('base', None)     # ... with all its members declared in it
                t.pop('nown', None)
                go(t['fields'])
            elif not f['many'] and t['k'] in PRIMS:
                if rng.random() < p_dflt:
                    f['dflt'] = g.leaf(t['k'])
                    f['dfac'] = rng.random() < 0.3
                if rng.random() < p_ro:
                    f['ro'] = True
    go(fields)
    return fields


def t3_defaults(ctx, add):
    """declared defaults and read-only members: the request is decoded as spelled, members the request does not mention show
    their default (in the request class, in nested objects, in array elements, in `=empty` objects), read-only members
    are never assigned"""
    rng = ctx.rng
    g = Gen(rng)
    g.next_cid = 7000
    for i in range(60 if ctx.thorough else 20):
        g.pool = []
        sig = decorate(rng, g, g.fields(rng.choice([1, 2, 2, 3]), top=True))
        keys = sti_keys(sig, '.')
        if len(set(keys)) != len(keys) or len(set(cids(sig))) != len(cids(sig)):
            continue
        ctx.hit('defaults:signature')
        for vi in range(3):
            val = g.value(sig, 4)
            strict = rng.random() < 0.4
            cfg = {'strict': strict, 'soft': False, 'delim': cps('.')}
            pairs = spell(rng, sig, val, '.', sparse=(not strict) and rng.random() < 0.5)
            qs = render_qs(rng, permute_pairs(rng, pairs), rng.choice([0, 3, 4]))
            impl = get_impl(sig, cfg)
            r, st, body = impl.get(qs)
            add({'op': 'http.get.decl', 'cfg': cfg, 'fields': decl_fields(sig), 'qs': cps(qs)}, r)
            ctx.cov['traces_validated_against_impl'] += 1
            exp = {'wsdl': True} if is_wsdl_qs(qs) else {'ok': fill_defaults(sig, strip_marker(val))}
            if r != exp:
                ctx.hit('t3-fail:defaults')
                ctx.finding('documented:defaults', 'query %r over a signature with defaults / read-only members: expected %s, got %s'
                            % (qs[:200], core.canon(exp)[:300], core.canon(r)[:300]),
                            {'op': 'documented', 'fields': sig, 'cfg': cfg, 'qs': qs, 'expected': exp.get('ok')})


def t3_bare(ctx, add):
    """`_body_style='bare'`: the argument class IS the request class, its members are the top-level keys"""
    rng = ctx.rng
    g = Gen(rng)
    g.next_cid = 7500
    for i in range(30 if ctx.thorough else 10):
        g.pool = []
        inner = g.fields(rng.choice([0, 1, 2]))
        keys = sti_keys(inner, '.')
        if len(set(keys)) != len(keys) or len(set(cids(inner))) != len(cids(inner)):
            continue
        sig = [fld('it', obj(g.next_cid + 400 + i, inner))]
        for soft in (False, True):
            cfg = {'strict': rng.random() < 0.5, 'soft': soft, 'delim': cps('.')}
            impl = get_impl(sig, cfg, None, None, {'bare': True})
            val = g.value(inner, 3, must=True)
            if soft and not conforms(inner, val):
                continue
            qs = render_qs(rng, permute_pairs(rng, spell(rng, inner, val, '.')), rng.choice([0, 4]))
            r, st, body = impl.get(qs)
            ctx.hit('bare:request')
            ctx.cov['traces_validated_against_impl'] += 1
            got = {'ok': r['ok']['o'][0][1]} if 'ok' in r and r['ok']['o'][0][1] is not None else r
            add({'op': 'http.get', 'cfg': cfg, 'fields': model_fields(inner), 'qs': cps(qs)}, got)
            exp = {'wsdl': True} if is_wsdl_qs(qs) else {'ok': strip_marker(val)}
            if got != exp:
                ctx.hit('t3-fail:bare')
                ctx.finding('documented:bare', "bare body style: query %r does not reach the user function as spelled: got %s"
                            % (qs[:200], core.canon(r)[:300]),
                            {'op': 'bare', 'fields': sig, 'cfg': cfg, 'qs': qs, 'expected': strip_marker(val)})


def cookie_oracle(s):
    """the documented reading of a Cookie header: browser-style splitting on ';' (first '=' separates name and value,
    a chunk without '=' has the empty name), values unquoted by CPython's own http.cookies._unquote"""
    from http.cookies import _unquote
    out = {}
    for chunk in s.split(';'):
        k, v = chunk.split('=', 1) if '=' in chunk else ('', chunk)
        k, v = k.strip(), v.strip()
        if k or v:
            out[k] = _unquote(v)
    return out


def t3_in_header(ctx, add):
    """the declared in-header class is filled from the HTTP request headers (`HTTP_<NAME>` -> `<name>`), and from the
    cookies of the Cookie header; absent headers leave None"""
    rng = ctx.rng
    S, I, B = P('str'), P('int'), P('bool')
    pools = [[fld('x_count', I), fld('agent', S), fld('x_f', B, py='x_flag')],
             [fld('sid', S), fld('x_count', I), fld('accept_language', S), fld('n', I, py='number')],
             [fld('a', S), fld('b', S, False, None, 1), fld('wsdl', S)]]
    words = ['abc', 'q"x;', 'a b', 'x=y', '0', 'wsdl', 'T\\351', '~', 'a,b', '']
    for i in range(60 if ctx.thorough else 20):
        hf = rng.choice(pools)
        soft = rng.random() < 0.4
        cfg = {'strict': False, 'soft': soft, 'delim': cps('.')}
        impl = get_impl([fld('a', I)], cfg, None, None, {'in_hdr': hf})
        env, envl, exp, cookies = {}, [], [], []
        for h in hf:
            k = h['t']['k']
            v = None
            if rng.random() < 0.7 or (soft and h['min'] > 0):
                v = {'i': str(rng.randrange(-5, 300))} if k == 'int' else {'b': rng.random() < 0.5} if k == 'bool' else \
                    {'s': cps(rng.choice(words[:8]))}
                text = leaf_text(v)
                if k == 'str' and rng.random() < 0.35 and text and not soft:
                    cookies.append((uncps(h['n']), text))       # arrives as a cookie
                else:
                    env['HTTP_' + uncps(h['n']).upper()] = text
                    envl.append([cps('HTTP_' + uncps(h['n']).upper()), cps(text)])
            exp.append([h['n'], v])
        if rng.random() < 0.5:
            env['HTTP_X_UNRELATED'] = 'zzz'
            envl.append([cps('HTTP_X_UNRELATED'), cps('zzz')])
        if cookies:
            def cq(v):
                style = rng.choice(['raw', 'octal', 'backslash'])
                if style == 'raw' and not any(c in ';,"\\ ' or ord(c) > 126 or ord(c) < 33 for c in v):
                    return v
                if style == 'backslash' and all(32 < ord(c) < 127 and c != ';' for c in v):
                    return '"' + ''.join('\\' + c if c in '"\\' or rng.random() < 0.2 else c for c in v) + '"'
                return '"' + ''.join('\\%03o' % ord(c) if c in ';,"\\' or ord(c) > 126 or ord(c) < 33 else c for c in v) + '"'
            chunks = ['%s=%s' % (k, cq(v)) for k, v in cookies] + rng.sample(['flag', '', ' ', 'zz=1', 'q="', 'e=""', 'one=a'], 2)
            rng.shuffle(chunks)
            ck = rng.choice(['; ', ';', ' ;  ']).join(chunks)
            env['HTTP_COOKIE'] = ck
            orc = cookie_oracle(ck)
            if any(orc.get(k) != v for k, v in cookies) or any(uncps(h['n']) in orc and uncps(h['n']) not in dict(cookies) for h in hf):
                continue                                        # the oracle itself reads something else: not a case
            ctx.hit('in-header:cookie')
        r, st, body = impl.get('a=1', env_extra=env)
        ctx.cov['traces_validated_against_impl'] += 1
        ih = impl.got.get('in_header')
        got = None if ih is None else {'o': [[h['n'], impl.to_val(getattr(ih, py_of(h), None), False, h['t'])] for h in hf]}
        ctx.hit('in-header:request')
        if not cookies:
            add({'op': 'hdr.in', 'cfg': cfg, 'fields': model_fields(hf), 'env': envl},
                {'ok': got} if 'ok' in r else r)
        if 'ok' not in r or got != {'o': exp}:
            ctx.hit('t3-fail:in-header')
            ctx.finding('in-header', 'request headers %r: the in-header object is %s, expected %s (outcome %s)' % (
                env, core.canon(got)[:300], core.canon({'o': exp})[:300], core.canon(r)[:100]),
                {'op': 'in-header', 'hdr': hf, 'cfg': cfg, 'env': env, 'expected': {'o': exp}})


def t3_return_styles(ctx, add):
    """how a result is handed over: no return value, two return values, a generator, a Fault, the out-header given as a
    list; `chunked` on and off: exact body, truthful Content-Length, status"""
    rng = ctx.rng
    sig = [fld('a', P('int'))]
    hf = [fld('X-Count', P('int'))]
    for i in range(66 if ctx.thorough else 22):
        style = ['none', 'two', 'two-uncap', 'gen', 'fault', 'hdr-list', 'plain-none', 'gen-fault-first', 'gen-fault-later',
                 'out-bare', 'bare-noargs'][i % 11]
        chunked = (i // 11) % 2 == 0
        opts = {'chunked': chunked}
        kind = 'str'
        if style in ('none', 'fault', 'plain-none'):
            opts['style'] = {'none': 'none', 'fault': 'fault', 'plain-none': 'plain'}[style]
        elif style in ('two', 'two-uncap'):
            opts['style'] = 'two'
            opts['ignore_uncap'] = style == 'two-uncap'
        elif style.startswith('gen'):
            opts['style'], kind = 'gen', 'bytes'
            if style != 'gen':
                opts['gen_fault'] = style.split('-')[-1]
        elif style in ('out-bare', 'bare-noargs'):
            opts['body_style'] = 'out_bare' if style == 'out-bare' else 'bare-noargs'
        else:
            opts['hdr_as_list'] = True
        impl = get_impl(sig, None, kind, hf if style == 'hdr-list' else None, opts)
        text = uncps(Gen(rng).leaf('str')['s'])
        chunks = [bytes(rng.randrange(256) for _ in range(rng.choice([0, 1, 3]))) for _ in range(rng.choice([0, 1, 2, 3]))]
        if style == 'gen-fault-later' and not chunks:
            chunks = [b'x']
        impl.retval = chunks if style.startswith('gen') else (None if style == 'plain-none' else text)
        if style == 'hdr-list':
            impl.out_header = impl.hdr_cls()
            setattr(impl.out_header, 'X-Count', 7)
        r, st, body = impl.get('' if style == 'bare-noargs' else 'a=1')
        impl.retval, impl.out_header = None, None
        hd = st.get('headers', [])
        status = st.get('status', '')
        ctx.hit('return-style:%s:chunked=%s' % (style, chunked))
        ctx.cov['traces_validated_against_impl'] += 1
        called = 'args' in impl.got
        cl = [v for k, v in hd if k == 'Content-Length']
        if style in ('none', 'two-uncap', 'plain-none'):
            ok = status.startswith('200') and body == b'' and called and cl == ['0']
        elif style == 'two':
            ok = status.startswith('500') and called        # "HttpRpc protocol can only serialize functions with a single return type"
        elif style == 'gen':
            ok = status.startswith('200') and body == b''.join(chunks) and called and \
                (cl == [str(len(body))] if not chunked else cl in ([], [str(len(body))]))
        elif style in ('out-bare', 'bare-noargs'):
            ok = status.startswith('200') and body == text.encode('utf8') and called and cl == [str(len(body))]
        elif style == 'gen-fault-later' and chunked:
            ok = status.startswith('200')       # streaming: the headers are out when the generator fails; the body is cut short
        elif style in ('fault', 'gen-fault-first', 'gen-fault-later'):
            ok = status.startswith('400') and body == b'Client.Custom\n\nnope' and cl == [str(len(body))]
        else:
            ok = status.startswith('200') and body == text.encode('utf8') and ('X-Count', '7') in hd and cl == [str(len(body))]
        if not ok:
            ctx.hit('t3-fail:return-style')
            ctx.finding('return-style:' + style, 'result handed over as %r (chunked=%s): %r %r %r' % (style, chunked, status, hd, body[:80]),
                        {'op': 'return-style', 'style': style, 'chunked': chunked})


def t3_return_encodings(ctx):
    """a return type that declares its text encoding (`Unicode(encoding='iso-8859-9')`): the body is the value in THAT
    encoding, Content-Length its length in bytes; types without a declared encoding are sent as UTF-8"""
    rng = ctx.rng
    values = ['\u011f\u00fc\u015f\u0130', 'caf\u00e9', 'abc', '\u00df\u00e4~', 'I\u015f\u0131k \u00f6\u011frenci']
    for enc in ('iso-8859-9', 'cp1254', 'utf-16', 'utf-8', None):
        impl = get_impl([fld('a', P('int'))], None, 'str', None, {'ret_enc': enc} if enc else None)
        for text in values + [rng.choice(values) + rng.choice(['x', '\u00fc'])]:
            try:
                exp = text.encode(enc or 'utf-8')
            except UnicodeEncodeError:
                continue
            impl.retval = text
            r, st, body = impl.get('a=1')
            impl.retval = None
            ctx.cov['traces_validated_against_impl'] += 1
            ctx.hit('return-encoding:%s:%s' % (enc, 'ascii' if text.isascii() else 'non-ascii'))
            hd = st.get('headers', [])
            if not (st.get('status', '').startswith('200') and body == exp and ('Content-Length', str(len(exp))) in hd):
                ctx.hit('t3-fail:return-encoding')
                ctx.finding('return:declared-encoding', 'return type Unicode(encoding=%r), value %r: sent as %r %r, expected body %r'
                            % (enc, text, st.get('status'), body[:60], exp[:60]), {'op': 'return-encoding', 'enc': enc, 'text': text})


def t3_shared_headers(ctx):
    """a declared out-header whose members are objects, the SAME instance at two members / twice in a list: every
    occurrence is written as its response headers (`X-Read.Limit`, `X-Write.Limit`, `X-Many[2].Limit`)"""
    rng = ctx.rng
    lim = obj(7900, [fld('Limit', P('int')), fld('Unit', P('str'))])
    hf = [fld('X-Read', lim), fld('X-Write', lim), fld('X-Many', lim, True), fld('X-N', P('int'))]
    units = ['req/s', 'kB', 'x', 'per day']
    for i in range(24 if ctx.thorough else 8):
        impl = get_impl([fld('a', P('int'))], None, 'str', hf)
        mk = lambda: {'o': [[cps('Limit'), {'i': str(rng.randrange(1000))}], [cps('Unit'), rng.choice([None, {'s': cps(rng.choice(units))}])]]}
        l0, l1 = mk(), mk()
        hv = {'o': [[cps('X-Read'), rng.choice([l0, l0, None])], [cps('X-Write'), rng.choice([l0, l1])],
                    [cps('X-Many'), rng.choice([None, {'l': [l0, l1, l0][:rng.choice([1, 2, 3])]}])], [cps('X-N'), {'i': '7'}]]}
        memo = {}
        hdr_obj = impl.hdr_cls()
        for (n, v), h in zip(hv['o'], hf):
            setattr(hdr_obj, uncps(n), impl.from_val(v, h['many'], h['t'], memo))
        impl.retval, impl.out_header = 'ok', hdr_obj
        r, st, body = impl.get('a=1')
        impl.retval, impl.out_header = None, None
        ctx.cov['traces_validated_against_impl'] += 1
        exp = sorted(spell(rng, hf, hv, '.'))
        got = sorted((k, v) for k, v in st.get('headers', []) if k.startswith('X-'))
        shared = len(memo) < sum(1 for _, v in hv['o'][:2] if v is not None) + len((hv['o'][2][1] or {'l': []})['l'])
        ctx.hit('out-header:objects:%s' % ('shared-instance' if shared else 'distinct'))
        if not st.get('status', '').startswith('200') or got != exp:
            ctx.hit('t3-fail:shared-headers')
            ctx.finding('return:out-header-objects', 'out-header %s (equal objects are one shared instance): response headers %r, '
                        'expected %r' % (core.canon(hv)[:300], got, exp), {'op': 'shared-headers', 'hv': hv, 'expected': exp})


def t3_conflict(ctx):
    """two members with the same flattened key: the member table refuses the signature loudly (ValueError), no request
    is served with one member shadowing the other"""
    I, S = P('int'), P('str')
    cases = [([fld('ab', I), fld('a', obj(7801, [fld('b', I)]))], ''),
             ([fld('a_b', S), fld('a', obj(7802, [fld('b', S)]))], '_'),
             ([fld('a', obj(7803, [fld('b_c', I)])), fld('a_b', obj(7804, [fld('c', I)]))], '_'),
             ([fld('x', I), fld('x', S, py='other')], '.')]
    for sig, delim in cases:
        cfg = {'strict': False, 'soft': False, 'delim': cps(delim or '.')}
        if delim == '':
            cfg['delim'] = cps('')
        ctx.hit('conflict:signature')
        try:
            impl = Impl(sig, cfg)
            impl.sti()
            raised = None
        except ValueError as e:
            raised = str(e)
        except Exception as e:
            raised = None
        k0 = sti_keys(sig, delim)[0]
        try:
            r, st, body = Impl(sig, cfg).get(k0 + '=1')
        except Exception:
            r = {'crash': 'exception'}
        ctx.cov['traces_validated_against_impl'] += 1
        if raised is None or 'conflicts' not in raised or 'ok' in r:
            ctx.finding('key-conflict', 'signature with two members for one flattened key (hier_delim=%r): member table %s, '
                        'request %r -> %s' % (delim, 'built silently' if raised is None else raised[:80], k0 + '=1', core.canon(r)[:200]),
                        {'op': 'conflict', 'fields': sig, 'cfg': cfg})


def nofreq_of(t):
    """validate_freq=False is a class attribute: a class that extends such a class inherits it"""
    return bool(t.get('nofreq')) or ('base' in t and nofreq_of(t['base']))


def conforms_nf(fields, val):
    """`conforms`, with the occurrence checks switched off inside (and below) a class with validate_freq=False"""
    for (n, v), f in zip(val['o'], fields):
        if v is None:
            if f['min'] > 0:
                return False
            continue
        t = f['t']
        if f['many']:
            if f['max'] is not None and len(v['l']) > f['max']:
                return False
            if len(v['l']) < f['min']:
                return False
        if t['k'] == 'obj' and not nofreq_of(t):
            for e in (v['l'] if f['many'] else [v]):
                if not conforms_nf(t['fields'], e):
                    return False
    return True


def t3_novalidate(ctx):
    """`validate_freq = False` on a class: soft validation does not count the members of its instances (nor of what is
    below them); everywhere else min_occurs / max_occurs are enforced as usual"""
    import copy
    rng = ctx.rng
    g = Gen(rng)
    g.next_cid = 8000
    done = 0
    for i in range(200):
        if done >= (40 if ctx.thorough else 14):
            break
        g.pool = []
        sig = copy.deepcopy(g.fields(rng.choice([2, 3]), top=True))
        objs = []

        def collect(fs):
            for f in fs:
                if f['t']['k'] == 'obj':
                    objs.append(f)
                    collect(f['t']['fields'])
                elif rng.random() < 0.5 and not f['many']:
                    f['min'] = 1            # plenty of mandatory members
        collect(sig)
        keys = sti_keys(sig, '.')
        if not objs or len(set(keys)) != len(keys) or len(set(cids(sig))) != len(cids(sig)):
            continue
        rng.choice(objs)['t']['nofreq'] = True
        done += 1
        for vi in range(4):
            val = g.value(sig, 4, markers=False)
            strict = rng.random() < 0.4
            cfg = {'strict': strict, 'soft': True, 'delim': cps('.')}
            qs = render_qs(rng, permute_pairs(rng, spell(rng, sig, val, '.')), 0)
            if is_wsdl_qs(qs):
                continue
            r, st, body = get_impl(sig, cfg).get(qs)
            ctx.cov['traces_validated_against_impl'] += 1
            good = conforms_nf(sig, val)
            ctx.hit('novalidate:%s:%s' % ('conformant' if good else 'nonconformant',
                                          'differs-from-full-check' if good != conforms(sig, val) else 'same'))
            if good != ('ok' in r) or (good and r != {'ok': val}):
                ctx.hit('t3-fail:novalidate')
                ctx.finding('soft:validate_freq', 'class with validate_freq=False: query %r is %s by the occurrence constraints that '
                            'remain, got %s' % (qs[:200], 'allowed' if good else 'not allowed', core.canon(r)[:200]),
                            {'op': 'verdict2', 'fields': sig, 'cfg': cfg, 'qs': qs, 'good': good, 'val': val})


def t3_wsdl(ctx, add):
    """the transport decides before the protocol whether a GET asks for the WSDL: keys and values that end in / contain
    'wsdl' in EVERY position of the query string; only a query whose text before the first '=' is 'wsdl' is one"""
    import itertools
    rng = ctx.rng
    S, I = P('str'), P('int')
    doc = obj(901, [fld('name', S), fld('kind', S), fld('wsdl', S), fld('w', S, py='WSDL')])
    sigs = [[fld('doc', doc), fld('n', I)],
            [fld('doc', doc), fld('wsdl', S), fld('n', I)],
            [fld('WSDL', S), fld('xwsdl', S), fld('d', doc, True)]]
    words = ['stock.wsdl', 'WSDL', 'wsdl', 'x wsdl', 'wsdl=', '=wsdl', 'a', 'Wsdl&', 'my.WSDL', '']
    for sig in sigs:
        mf = model_fields(sig)
        for soft in (False, True):
            cfg = {'strict': False, 'soft': soft, 'delim': cps('.')}
            impl = get_impl(sig, cfg)
            for rep in range(6 if ctx.thorough else 3):
                val = {'o': []}
                for f in sig:
                    if f['t']['k'] == 'obj':
                        ov = {'o': [[g['n'], ({'s': cps(rng.choice(words))} if rng.random() < 0.8 else None)] for g in f['t']['fields']]}
                        if all(x is None for _, x in ov['o']):
                            ov['o'][0][1] = {'s': cps('report.wsdl')}
                        val['o'].append([f['n'], {'l': [ov]} if f['many'] else ov])
                    elif f['t']['k'] == 'str':
                        val['o'].append([f['n'], {'s': cps(rng.choice(words))}])
                    else:
                        val['o'].append([f['n'], {'i': str(rng.randrange(100))}])
                pairs = spell(rng, sig, val, '.')
                perms = list(itertools.permutations(pairs)) if len(pairs) <= 4 else \
                    [pairs[i:] + pairs[:i] for i in range(len(pairs))] + [permute_pairs(rng, pairs) for _ in range(6)]
                for pp in perms:
                    qs = render_qs(rng, list(pp), rng.choice([0, 3, 4, 4]))
                    r, st, body = impl.get(qs)
                    add({'op': 'http.get', 'cfg': cfg, 'fields': mf, 'qs': cps(qs)}, r)
                    ctx.cov['traces_validated_against_impl'] += 1
                    genuine = is_wsdl_qs(qs)
                    ctx.hit('wsdl:%s' % ('genuine-request' if genuine else
                                         'ends-with-wsdl' if qs.lower().endswith('wsdl') else
                                         'contains-wsdl' if 'wsdl' in qs.lower() else 'plain'))
                    exp = {'wsdl': True} if genuine else {'ok': val}
                    if r != exp:
                        ctx.hit('t3-fail:wsdl-shortcut')
                        ctx.finding('documented:wsdl-shortcut', 'query %r: %s, got %s' % (
                            qs[:300], 'a request for the WSDL' if genuine else
                            'not a request for the WSDL (the text before the first = is not wsdl): the method must be called '
                            'with the spelled values', core.canon(r)[:300]),
                            {'op': 'documented', 'fields': sig, 'cfg': cfg, 'qs': qs, 'expected': val})


def t2_returns(ctx, g, add):
    """a single primitive return value: exact text / bytes, declared headers"""
    rng = ctx.rng
    hdrs_pool = [[], [fld('X-Count', P('int'))], [fld('X-Name', P('str')), fld('X-Flag', P('bool'))],
                 [fld('Set-Thing', P('str')), fld('X-N', P('int')), fld('X-Many', P('str'), True, 'occurs', 0, None)],
                 [fld('Expires', P('dt')), fld('X-Name', P('str'))], [fld('Last-Modified', P('dt')), fld('Expires', P('dt'))]]
    n = 300 if ctx.thorough else 90
    t2_header_dates(ctx, g, add)
    for i in range(n):
        kind = rng.choice(['int', 'str', 'bool', 'bytes'])
        hf = rng.choice(hdrs_pool)
        impl = get_impl([fld('a', P('int'))], None, kind, hf)
        if kind == 'bytes':
            chunks = [bytes(rng.randrange(256) for _ in range(rng.choice([0, 1, 2, 5]))) for _ in range(rng.choice([1, 1, 2, 3]))]
            ret_native, ret_json, exp_body = chunks, {'bytes': [list(c) for c in chunks]}, b''.join(chunks)
        elif rng.random() < 0.1:
            ret_native, ret_json, exp_body = None, None, b''
        else:
            lv = g.leaf(kind)
            ret_native = int(lv['i']) if kind == 'int' else (lv['b'] if kind == 'bool' else uncps(lv['s']))
            ret_json, exp_body = lv, leaf_text(lv).encode('utf8')
        hv, hdr_obj, exp_hdrs = {'o': []}, None, []
        if hf:
            hdr_obj = impl.hdr_cls()
            for h in hf:
                v = g.member(h, 1, p_none=0.3)
                if v is not None and h['many']:
                    v = {'l': [x for x in v['l'] if ascii_header(x)]}
                    if not v['l']:
                        v = None
                if v is not None and not h['many'] and not ascii_header(v):
                    v = None
                hv['o'].append([h['n'], v])
                setattr(hdr_obj, uncps(h['n']), impl.from_val(v, h['many'], h['t']))
                if v is not None:
                    exp_hdrs += [(uncps(h['n']), http_date(x) if 'dt' in x else leaf_text(x))
                                 for x in (v['l'] if h['many'] else [v])]
        impl.retval, impl.out_header = ret_native, hdr_obj
        r, st, body = impl.get('a=1')
        impl.retval, impl.out_header = None, None
        got_hdrs = [[cps(k), cps(v)] for k, v in st.get('headers', [])]
        add({'op': 'http.return', 'mime': cps('text/plain'), 'hdrFields': model_fields(hf), 'hdr': hv, 'ret': ret_json,
             'retTy': P(kind)},
            {'headers': got_hdrs, 'body': list(body)})
        ctx.cov['traces_validated_against_impl'] += 1
        # T3: exact bytes, declared headers present with exact text, truthful Content-Length
        hd = st.get('headers', [])
        ok = (st.get('status', '').startswith('200') and body == exp_body and all(h in hd for h in exp_hdrs)
              and ('Content-Length', str(len(exp_body))) in hd
              and [v for k, v in hd if k == 'Content-Type'] == ['text/plain'])
        if not ok:
            ctx.hit('t3-fail:return')
            ctx.finding('return:' + kind, 'return value %r with out-header %r is sent as %r %r %r' % (
                ret_native, hv, st.get('status'), hd, body[:80]),
                {'op': 'return', 'kind': kind, 'ret': ret_json, 'hdrFields': hf, 'hdr': hv})


def t2_header_dates(ctx, g, add):
    """`_header_to_bytes` on DateTime values: naive, GMT (pytz.utc / timezone.utc) and aware in other zones, around
    day, month and year boundaries. T2 against the model, T3 against an independent RFC 1123 rendering of the instant."""
    from spyne.protocol.http import _header_to_bytes, HttpRpc
    from spyne import DateTime
    prot = HttpRpc()
    fixed = [[2013, 1, 1, 0, 0, 0, 0, None], [2013, 1, 1, 10, 30, 0, 0, 0], [2013, 1, 1, 10, 30, 0, 1, 0],
             [2013, 1, 1, 1, 30, 0, 0, 180], [2012, 12, 31, 22, 0, 1, 0, -300], [2020, 2, 29, 23, 30, 5, 7, -300],
             [2021, 3, 1, 0, 15, 0, 0, 330], [2000, 2, 28, 20, 0, 0, 0, -570], [1999, 12, 31, 23, 59, 59, 999999, -1],
             [2024, 12, 31, 12, 0, 0, 0, 840], [2024, 1, 1, 11, 59, 0, 0, 720], [1900, 3, 1, 0, 0, 0, 0, 60]]
    vals = [{'dt': f} for f in fixed] + [g.leaf('dt') for _ in range(400 if ctx.thorough else 120)]
    for v in vals:
        got = _header_to_bytes(prot, native_leaf(v), DateTime)
        add({'op': 'hdr.date', 'v': v['dt']}, cps(got))
        ctx.cov['traces_validated_against_impl'] += 1
        ctx.hit('hdr.date:' + ('naive' if v['dt'][7] is None else ('gmt' if v['dt'][7] == 0 else 'aware')))
        if got != http_date(v):
            ctx.hit('t3-fail:header-date')
            kind = 'naive' if v['dt'][7] is None else ('gmt' if v['dt'][7] == 0 else 'aware-non-gmt')
            ctx.finding('header-date:' + kind, 'a DateTime out-header value %s is written as %r, the HTTP date of that instant is %r'
                        % (native_leaf(v).isoformat(), got, http_date(v)), {'op': 'hdr.date', 'v': v['dt']})


def ascii_header(v):
    if 's' in v:
        s = uncps(v['s'])
        return all(31 < ord(c) < 127 for c in s)
    return True


def _case_from(obj):
    """rebuild a hierblock case (classes of the recorded universe) for a replay"""
    from . import hierblock as H
    c = H.FixedCase.__new__(H.FixedCase)

    class _U:
        classes = obj['reg']
        by_name = {cd['name']: cd for cd in obj['reg']}

        def registry(self):
            return obj['reg']

        def subclasses(self, n):
            return []
    c.U = _U()
    c.B = H.Builder()
    c.B.register(obj['reg'])
    c.B.universe_fields = {cd['name']: cd['fields'] for cd in obj['reg']}
    c.sig = obj['sig']
    c.impl = H.Impl(c.B, c.sig)
    c.in_ty = c.impl.in_ty()
    return c


# ===================================================================================== C05 (soft validation) over the shared vocabulary
REPLAY_PREFIX = 'flat'


def t1(ctx):
    """T1 for checks that build on the flat model (Props/C05_flat.lean imports Generated/Facts03.lean)"""
    f = measure_facts()
    ctx.facts03 = f
    ctx.write_generated('Facts03.lean', facts_lean(f))
    return f


def flat_ok(t, top=True):
    """is the shared type expressible as a member of a flat (HttpRpc) signature of the model?"""
    k = t['k']
    if k == 'arr':
        e = t['elem']
        eo = e.get('occ') or {'nillable': True, 'min': 0, 'max': 1}
        if e['k'] == 'arr' or (eo['max'] is None or eo['max'] > 1) or eo['min'] != 0:
            return False
        o = t.get('occ') or {'nillable': True, 'min': 0, 'max': 1}
        if o['max'] != 1 or not (o['min'] == 0 or o['nillable']):
            return False
        return flat_ok(dict(e, occ={'nillable': eo['nillable'], 'min': 0, 'max': 1}), False)
    if k == 'obj':
        return all(flat_ok(ft, False) for _, ft in t['fields'])
    return k in ('int', 'bool', 'str', 'date', 'time', 'dt', 'dur', 'bytes', 'enum')


def flat_fields(fields):
    """shared Ty JSON members -> flat model members (the Lean translation `ofFields`, restated)"""
    out = []
    for n, t in fields:
        o = t.get('occ') or {'nillable': True, 'min': 0, 'max': 1}
        if t['k'] == 'arr':
            e = t['elem']
            eo = e.get('occ') or {'nillable': True, 'min': 0, 'max': 1}
            occ_ = {'many': True, 'min': eo['min'], 'max': None, 'nillable': eo['nillable']}
            t = e
        else:
            occ_ = {'many': o['max'] is None or o['max'] > 1, 'min': o['min'], 'max': o['max'], 'nillable': o['nillable']}
        if t['k'] == 'obj':
            ty = {'k': 'obj', 'cid': 0, 'fields': flat_fields(t['fields'])}
        else:
            ty = {k: v for k, v in t.items() if k != 'occ'}
            if ty['k'] == 'bytes' and ty.get('enc', 'base64') == 'base64':
                ty['enc'] = 'urlsafe'       # a ByteArray without an encoding of its own is read with the protocol default
        out.append(dict(occ_, n=cps(n), t=ty))
    return out


def shared_leaf_text(t, v):
    from . import hierblock as H
    import base64
    k = t['k']
    if 'i' in v:
        return v['i']
    if 'b' in v:
        return 'true' if v['b'] else 'false'
    if 's' in v:
        return uncps(v['s'])
    if 'date' in v:
        return H.iso_date(v['date'])
    if 'time' in v:
        return H.iso_time(v['time'])
    if 'dt' in v:
        a = v['dt']
        return H.iso_date(a[:3]) + 'T' + H.iso_time(a[3:7]) + ('' if a[7] is None else H.iso_offset(a[7]))
    if 'dur' in v:
        return H.iso_dur(int(v['dur']))
    if 'x' in v:
        b = bytes(v['x'])
        enc = t.get('enc', 'base64')
        return b.hex() if enc == 'hex' else base64.urlsafe_b64encode(b).decode('ascii')
    if 'e' in v:
        return uncps(v['e'])
    raise ValueError(v)


class Unspellable(Exception):
    pass


def spell_shared(fields, fvs, delim, prefix='', idx=None):
    """documented flat notation of a shared value: (key, text | None) pairs. None members are left out, except a
    mandatory nillable one, which is sent as the key without '='. Raises Unspellable for what the notation cannot say."""
    pairs = []
    for (n, t), (m, v) in zip(fields, fvs):
        o = t.get('occ') or {'nillable': True, 'min': 0, 'max': 1}
        key = prefix + n
        rep = o['max'] is None or o['max'] > 1
        if t['k'] == 'arr':
            rep, et = True, t['elem']
        else:
            et = t
        if v is None:
            if not rep and o['min'] > 0 and o['nillable'] and t['k'] != 'obj' and t['k'] != 'arr':
                pairs.append((key, None))
            elif not rep and o['min'] > 0 and o['nillable'] and t['k'] == 'obj':
                raise Unspellable('None for a mandatory nillable object member')    # no key says "this object is null"
            continue
        if rep:
            items = v['l']
            if et['k'] == 'obj':
                if not items:
                    pairs.append((key, 'empty'))
                for i, x in enumerate(items):
                    sub = [] if x is None else spell_shared(et['fields'], x['o'][1], delim, '%s[%d]%s' % (key, i, delim), idx)
                    if not sub:     # (a mandatory nillable member that is None is a key without '=': the element exists)
                        raise Unspellable('null / member-less element of an object array')
                    pairs += sub
            else:
                if not items:
                    raise Unspellable('empty primitive array')
                texts = [None if x is None else shared_leaf_text(et, x) for x in items]
                # the values of a list of primitives may also come under indexed keys (`tags[0]=a&tags[1]=b`): the index
                # only orders the keys, every value counts; 'mixed': the first values under the plain key
                plain = len(texts) if idx is None else (0 if idx == 'all' else (len(texts) + 1) // 2)
                pairs += [(key, x) for x in texts[:plain]]
                pairs += [('%s[%d]' % (key, i), x) for i, x in enumerate(texts[plain:])]
        elif t['k'] == 'obj':
            sub = spell_shared(t['fields'], v['o'][1], delim, key + delim, idx)
            pairs += sub if sub else [(key, 'empty')]
        else:
            pairs.append((key, shared_leaf_text(t, v)))
    return pairs


def val_to_node(v):
    """shared Val JSON -> the model's object-graph JSON"""
    if v is None:
        return None
    if 'o' in v:
        return {'o': [[cps(n), val_to_node(x)] for n, x in v['o'][1]]}
    if 'l' in v:
        return {'l': [val_to_node(x) for x in v['l']]}
    return v


class FlatCase:
    """a hierblock case (shared Ty/Val universe, real classes) served over HttpRpc"""

    def __init__(self, c):
        self.c = c
        self.apps = {}

    def app(self, strict):
        w = self.apps.get(strict)
        if w is None:
            from spyne import Application
            from spyne.protocol.http import HttpRpc
            from spyne.server.wsgi import WsgiApplication
            w = WsgiApplication(Application([self.c.impl.service], 'tns', out_protocol=HttpRpc(),
                                            in_protocol=HttpRpc(validator='soft', strict_arrays=strict)))
            self.apps[strict] = w
        return w

    def get(self, strict, qs):
        """canonical outcome of a real WSGI GET: ok(args as shared Val) / fault / crash / leak"""
        from . import hierblock as H
        c = self.c
        del c.impl.calls[:]
        st = {}
        env = {'QUERY_STRING': qs, 'PATH_INFO': '/f', 'REQUEST_METHOD': 'GET', 'SERVER_NAME': 'localhost',
               'SERVER_PORT': '80', 'wsgi.url_scheme': 'http', 'SCRIPT_NAME': ''}
        try:
            body = b''.join(self.app(strict)(env, lambda s, h, e=None: st.update(status=s)))
        except Exception as e:
            return {'crash': type(e).__name__}
        if st.get('status', '').startswith('200') and c.impl.calls:
            args = c.impl.calls[-1]
            try:
                return {'ok': {'o': ['f', [[n, c.B.from_native(t, a)] for (n, t), a in zip(c.sig['args'], args)]]}}
            except H.Leak as e:
                return {'leak': str(e)}
        if st.get('status', '').startswith('400') and body.startswith(b'Client.'):
            return {'fault': 'Client.ValidationError'}
        return {'crash': body[:60].decode('latin1')}


def c05_flat_verdicts(ctx, fc, args, what, add, idx=None):
    from . import hierblock as H
    c = fc.c
    fields = c.sig['args']
    expected = H.conforms_fields(fields, args['o'][1])
    try:
        pairs = spell_shared(fields, args['o'][1], '.', '', idx)
        if idx and any('[' in k.split('.')[-1] for k, _ in pairs):
            ctx.hit('c05flat:indexed-primitive-keys:' + idx)
    except Unspellable as e:
        ctx.hit('c05flat:unspellable:' + str(e))
        return
    mf = flat_fields(fields)
    for strict in (False, True):
        pp = permute_pairs(ctx.rng, pairs) if ctx.rng.random() < 0.5 else pairs
        qs = render_qs(ctx.rng, pp, ctx.rng.choice([0, 0, 3, 4]))
        r = fc.get(strict, qs)
        kind = next(iter(r))
        cfg = {'strict': strict, 'soft': True, 'delim': cps('.')}
        add({'op': 'http.get', 'cfg': cfg, 'fields': mf, 'qs': cps(qs)},
            {'ok': val_to_node(r['ok'])} if kind == 'ok' else r)
        ctx.cov['traces_validated_against_impl'] += 1
        ctx.hit('c05flat:%s:%s:%s' % (what or 'conformant', 'conf' if expected else 'nonconf', kind))
        if kind == 'crash':
            ctx.hit('c05flat:crash-seen')           # C10's concern
            continue
        accepted = kind in ('ok', 'leak')
        rep = {'kind': 'flat.c05', 'op': 'c05flat', 'sig': c.sig, 'reg': c.U.registry(), 'strict': strict, 'qs': qs,
               'args': args, 'expected_conforms': expected, 'observed': r, 'idx': idx}
        if accepted != expected:
            ctx.finding('c05:%s:%s:httprpc' % ('accepted-nonconformant' if accepted else 'rejected-conformant', what or 'conformant'),
                        'HttpRpc soft validation verdict differs from the declared constraints (%s): query %r -> %s' % (
                            what or 'conformant value', qs[:200], core.canon(r)[:200]), rep)
        elif accepted and r != {'ok': args}:
            ctx.finding('c05:accepted-with-other-values:httprpc', 'accepted, but the user function got other values: '
                        'query %r -> %s' % (qs[:200], core.canon(r)[:300]), rep)


def part_c05(ctx):
    """C05 over HttpRpc: the soft verdict of the real WSGI pipeline == the declared constraints (`conforms`, python
    re-statement shared with the other blocks) for conformant values and single-facet violations at every nesting
    position, boundary integers, occurrence counts 0..max+2; T2 on the model's soft decoder."""
    from . import hierblock as H
    rng = ctx.rng
    f = getattr(ctx, 'facts03', None) or t1(ctx)
    for k, good in GOOD_C05.items():
        if f[k] != good:
            w = fact_witness(k)
            r0, _, _ = Impl(w['fields'], w['cfg']).get(w['qs'])
            if 'fault' not in r0:
                why = ('although max_occurs = 2 (the values under several keys of one member are not counted together)'
                       if k == 'freqAccumulates' else
                       'although member o.x is mandatory (an object made by key=empty, or made up by strict_arrays, is never validated)')
                ctx.finding('switch:%s=%s' % (k, f[k]), 'HttpRpc soft validation lets %r through %s: %s' % (
                    w['qs'], why, core.canon(r0)[:200]), dict(w, kind='flat.verdict', fact=k, measured=f[k]))
    Q = []

    def add(q, impl):
        Q.append((q, impl))
        ctx.case(q)
        ctx.hit('op:c05flat.' + q['op'])
    import gc
    for ci in range(400 if ctx.thorough else 40):
        if ci % 10 == 0:
            gc.freeze()
        c = H.Case(rng, nclasses=rng.choice([2, 3]), depth=3, inherit=False)
        if not all(flat_ok(t) for _, t in c.sig['args']):
            ctx.hit('c05flat:skipped-signature')
            continue
        fc = FlatCase(c)
        for vi in range(3):
            args = c.gen_args(none_p=rng.choice([0.0, 0.2]))
            if args is None:
                continue
            c05_flat_verdicts(ctx, fc, args, None, add, rng.choice([None, None, 'all', 'mixed']))
            for _ in range(4):
                r = H.violate(rng, c.in_ty, args, field=False)
                if r is None:
                    continue
                c05_flat_verdicts(ctx, fc, r[0], r[1], add, rng.choice([None, None, 'all', 'mixed']))
    # exhaustive small domains: 8-bit integers, occurrence counts 0 .. max+2 (also inside an object array)
    for kind in ('i8', 'u8'):
        lo, hi = H.KIND_RANGE[kind]
        fc = FlatCase(H.FixedCase([['n', {'k': 'int', 'kind': kind, 'r': {}, 'occ': H.occ(False, 1, 1)}]]))
        for i in range(lo - 3, hi + 4):
            c05_flat_verdicts(ctx, fc, {'o': ['f', [['n', {'i': str(i)}]]]}, None if lo <= i <= hi else 'int-range', add)
    for mn, mx in ((0, 2), (1, 3), (2, 2), (0, None), (2, None)):
        fc = FlatCase(H.FixedCase([['m', {'k': 'int', 'kind': 'i32', 'r': {}, 'occ': H.occ(True, mn, mx)}]]))
        top = (mx if mx is not None else mn + 1) + 2
        inner = {'k': 'obj', 'name': 'Tg%d%s' % (mn, mx), 'ns': 'tns', 'base': None, 'occ': H.occ(True, 0, 1),
                 'fields': [['tags', {'k': 'str', 'minLen': 0, 'maxLen': None, 'pattern': None, 'values': [],
                                      'occ': H.occ(True, mn, mx)}]]}
        try:
            fcn = FlatCase(H.FixedCase([['c', inner]]))
        except Exception:
            fcn = None
        for n in range(1, top + 1):
            for idx in (None, 'all', 'mixed'):
                c05_flat_verdicts(ctx, fc, {'o': ['f', [['m', {'l': [{'i': str(j)} for j in range(n)]}]]]}, 'occurs', add, idx)
                if fcn is not None:
                    c05_flat_verdicts(ctx, fcn, {'o': ['f', [['c', {'o': [inner['name'], [['tags', {'l': [
                        {'s': cps('t%d' % j)} for j in range(n)]}]]]}]]]}, 'occurs', add, idx)
        c05_flat_verdicts(ctx, fc, {'o': ['f', [['m', None]]]}, 'occurs', add)
    # the same class reachable through two members (and nested): the constraints of the SECOND occurrence are enforced too
    pcls = {'k': 'obj', 'name': 'Pt', 'ns': 'tns', 'base': None, 'occ': H.occ(True, 0, 1),
            'fields': [['x', {'k': 'int', 'kind': 'i8', 'r': {}, 'occ': H.occ(True, 0, 1)}],
                       ['s', {'k': 'str', 'minLen': 0, 'maxLen': 3, 'pattern': None, 'values': [], 'occ': H.occ(True, 0, 1)}]]}
    wcls = {'k': 'obj', 'name': 'Wr', 'ns': 'tns', 'base': None, 'occ': H.occ(True, 0, 1), 'fields': [['inner', pcls], ['n', {'k': 'int', 'kind': 'i32', 'r': {}, 'occ': H.occ(True, 0, 1)}]]}
    pv = lambda x, s_: {'o': ['Pt', [['x', None if x is None else {'i': str(x)}], ['s', None if s_ is None else {'s': cps(s_)}]]]}
    for sig_, mk in (([['src', pcls], ['dst', pcls]], lambda a, b: [['src', a], ['dst', b]]),
                     ([['src', pcls], ['mid', pcls], ['dst', pcls]], lambda a, b: [['src', a], ['mid', a], ['dst', b]]),
                     ([['src', pcls], ['w', wcls]], lambda a, b: [['src', a], ['w', {'o': ['Wr', [['inner', b], ['n', {'i': '1'}]]]}]])):
        try:
            fc2 = FlatCase(H.FixedCase(sig_))
        except Exception:
            continue
        for x, s_, what in ((1, 'ab', None), (127, 'abc', None), (500, 'ab', 'int-range'), (-129, None, 'int-range'), (1, 'abcd', 'max_len')):
            ctx.hit('c05flat:same-class-twice:%s' % (what or 'conformant'))
            c05_flat_verdicts(ctx, fc2, {'o': ['f', mk(pv(1, 'a'), pv(x, s_))]}, what, add)
            c05_flat_verdicts(ctx, fc2, {'o': ['f', mk(pv(x, s_), pv(1, 'a'))]}, what, add)
    t3_history(ctx, add, c05=True)
    if Q:
        # the C03 driver is not among C05's own targets: make sure it is built against the facts of THIS run
        rc, out = core.sh(['lake', 'build', 'Driver.C03'], cwd=core.LEAN, timeout=3000)
        if rc != 0:
            raise core.Infra('lake build Driver.C03 failed:\n' + out[-2000:])
    answers = model_parallel(ctx, [q for q, _ in Q]) if Q else []
    for (q, impl), mod in zip(Q, answers):
        if isinstance(mod, dict) and 'driver_error' in mod:
            raise core.Infra('driver error: %r on %r' % (mod, q))
        if outcome_class(impl) != outcome_class(mod) and 'leak' not in impl:
            ctx.disagree('c05flat.' + q['op'], show_q(q), outcome_class(impl), outcome_class(mod))
    ctx.cov['c05_flat_rule'] = ('shared-vocabulary signatures (hierblock universe: facets, occurrence bounds, nested classes, wrapped '
                                'arrays) served over HttpRpc with validator=soft, strict_arrays on/off; documented query of conformant '
                                'values and of single-facet violations; oracle = python `conforms`; T2 = model `http.get`')


def replay(ctx, obj):
    """re-execute a single recorded case on the implementation and on the model"""
    print('replay of', obj.get('finding_id'), ':', (obj.get('what') or '')[:400])
    op = obj.get('op')
    if op == 'c05flat':
        from . import hierblock as H
        c = H.FixedCase.__new__(H.FixedCase)
        c.__init__(obj['sig']['args']) if not obj.get('reg') else None
        if obj.get('reg'):
            c = _case_from(obj)
        fc = FlatCase(c)
        r = fc.get(obj['strict'], obj['qs'])
        print('query   :', obj['qs'], '(strict_arrays=%s, validator=soft)' % obj['strict'])
        print('conforms:', obj['expected_conforms'])
        print('impl    :', core.canon(r)[:600])
        kind = next(iter(r))
        if kind == 'crash':
            return 0
        accepted = kind in ('ok', 'leak')
        if accepted != obj['expected_conforms']:
            return 1
        return 1 if accepted and 'args' in obj and r != {'ok': obj['args']} else 0

    def model(q):
        try:
            return core.canon(ctx.model([q], driver='C03')[0])
        except Exception as e:
            return '(not available: %s)' % e
    if op == 'bare':
        r, st, body = Impl(obj['fields'], obj['cfg'], None, None, {'bare': True}).get(obj['qs'])
        got = {'ok': r['ok']['o'][0][1]} if 'ok' in r and r['ok']['o'][0][1] is not None else r
        exp = {'wsdl': True} if is_wsdl_qs(obj['qs']) else {'ok': obj['expected']}
        print('query   :', obj['qs'], "(_body_style='bare')")
        print('expected:', core.canon(exp)[:600])
        print('impl    :', core.canon(got)[:600], st.get('status'))
        return 0 if got == exp else 1
    if op == 'in-header':
        impl = Impl([fld('a', P('int'))], obj['cfg'], None, None, {'in_hdr': obj['hdr']})
        r, st, body = impl.get('a=1', env_extra=obj['env'])
        ih = impl.got.get('in_header')
        got = None if ih is None else {'o': [[h['n'], impl.to_val(getattr(ih, py_of(h), None), False, h['t'])] for h in obj['hdr']]}
        print('headers :', obj['env'])
        print('expected:', core.canon(obj['expected'])[:600])
        print('impl    :', core.canon(got)[:600], st.get('status'))
        return 0 if ('ok' in r and got == obj['expected']) else 1
    if op == 'return-style':
        class _C:
            pass
        c = _C()
        c.rng, c.thorough, c.cov, c.found = __import__('random').Random(obj.get('seed', 0)), True, {'traces_validated_against_impl': 0}, []
        c.hit = lambda *a: None
        c.finding = lambda fid, what, rep: c.found.append((fid, what)) if rep.get('style') == obj['style'] and rep.get('chunked') == obj['chunked'] else None
        t3_return_styles(c, None)
        for fid, what in c.found[:3]:
            print(fid, ':', what[:400])
        print('style %r, chunked=%s: %s' % (obj['style'], obj['chunked'], 'still wrong' if c.found else 'as expected'))
        return 1 if c.found else 0
    if op == 'return-encoding':
        impl = Impl([fld('a', P('int'))], None, 'str', None, {'ret_enc': obj['enc']} if obj['enc'] else None)
        impl.retval = obj['text']
        r, st, body = impl.get('a=1')
        exp = obj['text'].encode(obj['enc'] or 'utf-8')
        print('returns Unicode(encoding=%r): value %r' % (obj['enc'], obj['text']))
        print('expected body:', exp)
        print('impl         :', st.get('status'), body[:120], [h for h in st.get('headers', []) if h[0] == 'Content-Length'])
        return 0 if st.get('status', '').startswith('200') and body == exp else 1
    if op == 'shared-headers':
        lim = obj(7900, [fld('Limit', P('int')), fld('Unit', P('str'))])
        hf = [fld('X-Read', lim), fld('X-Write', lim), fld('X-Many', lim, True), fld('X-N', P('int'))]
        impl = Impl([fld('a', P('int'))], None, 'str', hf)
        memo, hdr_obj = {}, impl.hdr_cls()
        for (n, v), h in zip(obj['hv']['o'], hf):
            setattr(hdr_obj, uncps(n), impl.from_val(v, h['many'], h['t'], memo))
        impl.retval, impl.out_header = 'ok', hdr_obj
        r, st, body = impl.get('a=1')
        got = sorted([k, v] for k, v in st.get('headers', []) if k.startswith('X-'))
        print('out-header:', core.canon(obj['hv'])[:500], '(equal objects = one instance)')
        print('expected  :', obj['expected'])
        print('impl      :', got, st.get('status'))
        return 0 if got == sorted(list(x) for x in obj['expected']) else 1
    if op == 'conflict':
        try:
            Impl(obj['fields'], obj['cfg']).sti()
            raised = None
        except ValueError as e:
            raised = str(e)
        print('member table:', raised or 'built silently')
        return 0 if raised and 'conflicts' in raised else 1
    if op == 'verdict2':
        r, st, body = Impl(obj['fields'], obj['cfg']).get(obj['qs'])
        print('query   :', obj['qs'], '(validate_freq=False on one class; expected: %s)' % ('accepted' if obj['good'] else 'rejected'))
        print('impl    :', core.canon(r)[:600], st.get('status'))
        return 0 if (obj['good'] == ('ok' in r)) and (not obj['good'] or r == {'ok': obj['val']}) else 1
    if op == 'history':
        impl, sig, r0 = history_setup(obj)
        r, st, body = impl.get(obj['qs'])
        print('warm    :', obj['warm'], '->', core.canon(r0)[:200])
        print('then    : %s_field(%r)' % (obj['how'], uncps(obj['new']['n'])))
        print('query   :', obj['qs'], '(expected: %s)' % ('delivered' if obj['good'] else 'rejected'))
        print('impl    :', core.canon(r)[:400], st.get('status'))
        print('model   :', model({'op': 'http.get', 'cfg': obj['cfg'], 'fields': model_fields(sig), 'qs': cps(obj['qs'])}))
        if obj['good']:
            return 0 if ('ok' in r and core.canon(obj['leaf']) in core.canon(r)) else 1
        return 0 if 'fault' in r else 1
    if op == 'documented':
        impl = Impl(obj['fields'], obj['cfg'])
        r, st, body = impl.get(obj['qs'])
        print('query   :', obj['qs'])
        exp = {'wsdl': True} if is_wsdl_qs(obj['qs']) else {'ok': obj['expected']}
        print('expected:', core.canon(exp))
        print('impl    :', core.canon(r), st.get('status'), body[:200])
        print('model   :', model({'op': 'http.get', 'cfg': obj['cfg'], 'fields': model_fields(obj['fields']), 'qs': cps(obj['qs'])}))
        return 0 if r == exp else 1
    if op == 'verdict':
        impl = Impl(obj['fields'], obj['cfg'])
        r, st, body = impl.get(obj['qs'])
        print('query   :', obj['qs'], ' expected verdict:', obj['expected'])
        print('impl    :', core.canon(r), st.get('status'), body[:200])
        print('model   :', model({'op': 'http.get', 'cfg': obj['cfg'], 'fields': model_fields(obj['fields']), 'qs': cps(obj['qs'])}))
        return 0 if obj['expected'] in r else 1
    if op == 'roundtrip':
        impl = Impl(obj['fields'], obj['cfg'])
        enc, raw = impl.encode_val(obj['val'], share=obj.get('share', False))
        if obj.get('share'):
            print('(equal sub-objects of one class are ONE shared instance)')
        delim = uncps(obj['cfg']['delim'])
        doc = []
        for k, v in raw.items():
            kind = leaf_kind(obj['fields'], k, delim)
            if isinstance(v, list) and impl.key_many(k):
                if v:
                    doc.append([cps(k), [cps(impl.text_of(kind, x, k)) for x in v]])
            elif v == 'empty' and impl.is_complex_key(k):
                doc.append([cps(k), [cps('empty')]])
            elif v is None:
                doc.append([cps(k), [None]])
            else:
                doc.append([cps(k), [cps(impl.text_of(kind, v, k))]])
        back = impl.decode_doc(doc)
        print('object  :', core.canon(obj['val']))
        print('flat    :', raw)
        print('back    :', core.canon(back))
        print('model   :', model({'op': 'flat.decode', 'cfg': obj['cfg'], 'fields': model_fields(obj['fields']), 'doc': doc}))
        return 0 if back == {'ok': obj['val']} else 1
    if op == 'order':
        impl = Impl(obj['fields'], obj['cfg'])
        r1, r2 = impl.decode_doc(obj['doc']), impl.decode_doc(obj['doc2'])
        print('doc     :', show_q({'doc': obj['doc']})['doc_text'], '->', core.canon(r1))
        print('permuted:', show_q({'doc': obj['doc2']})['doc_text'], '->', core.canon(r2))
        return 0 if outcome_class(r1) == outcome_class(r2) else 1
    if op == 's2cmi':
        from spyne.protocol.dictdoc.simple import _s2cmi
        m, lst = {}, []
        for nidx in obj['seq']:
            lst.insert(_s2cmi(m, nidx), nidx)
        print('sequence:', obj['seq'], '-> list', lst, 'map', m)
        return 0 if lst == sorted(obj['seq']) else 1
    if op == 'quote':
        from urllib.parse import unquote
        s0 = uncps(obj['s'])
        print(repr(s0), '->', repr(_quote(s0, safe='')), '->', repr(unquote(_quote(s0, safe=''))))
        return 0 if unquote(_quote(s0, safe='')) == s0 else 1
    if op == 'hdr.date':
        from spyne.protocol.http import _header_to_bytes, HttpRpc
        from spyne import DateTime
        v = {'dt': obj['v']}
        got = _header_to_bytes(HttpRpc(), native_leaf(v), DateTime)
        print('value   :', native_leaf(v).isoformat())
        print('impl    :', got)
        print('expected:', http_date(v))
        print('model   :', uncps(ctx.model([{'op': 'hdr.date', 'v': obj['v']}], driver='C03')[0]))
        return 0 if got == http_date(v) else 1
    if op == 'return':
        impl = Impl([fld('a', P('int'))], None, obj['kind'], obj['hdrFields'])
        ret = obj['ret']
        if ret is None:
            impl.retval = None
        elif 'bytes' in ret:
            impl.retval = [bytes(c) for c in ret['bytes']]
        else:
            impl.retval = native_leaf(ret)
        if obj['hdrFields']:
            h = impl.hdr_cls()
            for (n, v), hf in zip(obj['hdr']['o'], obj['hdrFields']):
                setattr(h, uncps(n), impl.from_val(v, hf['many'], hf['t']))
            impl.out_header = h
        r, st, body = impl.get('a=1')
        print('impl    :', st.get('status'), st.get('headers'), body[:200])
        print('model   :', model({'op': 'http.return', 'mime': cps('text/plain'), 'hdrFields': model_fields(obj['hdrFields']),
                                  'hdr': obj['hdr'], 'ret': ret, 'retTy': P(obj['kind'])}))
        return 0
    print(core.canon(obj)[:3000])
    return 0
