"""Entry point: ./check Cxx [--tier quick|thorough] [--replay path]"""
import argparse, importlib, json, os, sys, traceback
sys.dont_write_bytecode = True
from . import core


def main():
    ap = argparse.ArgumentParser()
    ap.add_argument('prop')
    ap.add_argument('--tier', default=os.environ.get('VERIF_TIER') or 'quick', choices=['quick', 'thorough'])
    ap.add_argument('--replay')
    a = ap.parse_args()
    try:
        seed = int(os.environ.get('VERIF_SEED') or 0)
    except ValueError:
        seed = 0
    prop = a.prop.upper()
    os.environ.pop('PYTHONHASHSEED', None)
    import logging
    logging.disable(logging.CRITICAL)      # spyne logs tracebacks of handled errors
    try:
        core.assert_repo()
        mod = importlib.import_module('harness.' + prop.lower())
        ctx = core.Ctx(prop, a.tier, seed, a.replay)
        if a.replay:
            obj = json.load(open(a.replay))
            return mod.replay(ctx, obj)
        try:
            mod.run(ctx)
        except (core.Infra, subprocess_timeout()):
            raise
        except Exception:
            # the harness itself crashed (possibly on behaviour of a changed tree it did not anticipate):
            # concrete property failures found before the crash are still reported
            traceback.print_exc()
            if not ctx.found_input:
                print('INFRA-ERROR: harness crashed', file=sys.stderr)
                return 2
            ctx.cov['harness_crash'] = traceback.format_exc()[-1500:]
        return ctx.finish()
    except core.Infra as e:
        print('INFRA-ERROR:', e, file=sys.stderr)
        return 2
    except subprocess_timeout() as e:
        print('INFRA-ERROR: timeout', e, file=sys.stderr)
        return 2
    except Exception:
        traceback.print_exc()
        print('INFRA-ERROR: harness crashed', file=sys.stderr)
        return 2


def subprocess_timeout():
    import subprocess
    return subprocess.TimeoutExpired


if __name__ == '__main__':
    sys.exit(main())
