"""C07 — WSDL/XSD are well-formed, closed, deterministic and drive a foreign client.

T1: behaviour switches measured on the real code -> SpyneModel/Generated/Facts07.lean
Proof: Props/C07.lean (instantiated with the regenerated facts)
T2: Lean model `gen` (rendering of the populated Interface) vs the bytes of the real Wsdl11, structurally and in
    document order, prefixes included; model toposort vs real toposort2
T3: the property on the real code: well-formed, every QName resolved by an independent resolver, every method exactly
    one portType/binding operation, byte-identity over fresh processes x hash seeds x memory layouts, zeep round trip
"""
import hashlib, io, json, os, re, subprocess, sys
from decimal import Decimal as D
import datetime as pydt

from . import core

NS_XSD = 'http://www.w3.org/2001/XMLSchema'
NS_WSDL = 'http://schemas.xmlsoap.org/wsdl/'
NS_SOAP = 'http://schemas.xmlsoap.org/wsdl/soap/'
NS_SOAP12 = 'http://schemas.xmlsoap.org/wsdl/soap12/'
URL = 'http://localhost:7789/app?wsdl'
TRANSPORT = 'http://schemas.xmlsoap.org/soap/http'

XSD_BUILTINS = set("""anyType anySimpleType string boolean decimal float double duration dateTime time date gYearMonth
gYear gMonthDay gDay gMonth hexBinary base64Binary anyURI QName NOTATION normalizedString token language NMTOKEN NMTOKENS
Name NCName ID IDREF IDREFS ENTITY ENTITIES integer nonPositiveInteger negativeInteger long int short byte
nonNegativeInteger unsignedLong unsignedInt unsignedShort unsignedByte positiveInteger""".split())


# ====================================================================================== application specs
# A spec is plain JSON (so that fresh processes can rebuild the same application):
#  T  = {'p': prim, 'cust': {...}, 'occ': {...}} | {'c': name} | {'e': name} | {'arr': T} | {'attr': T}
PRIMS = ['Unicode', 'Integer', 'Integer32', 'Boolean', 'Decimal', 'Date', 'AnyUri', 'ByteArray']


def _prim(name):
    from spyne.model import primitive as P
    return getattr(P, name)


def build_type(T, env):
    from spyne.model.complex import Array, Iterable, XmlAttribute, XmlData
    if 'p' in T:
        if T['p'] == 'ByteArray':
            from spyne.model.binary import ByteArray
            cls = ByteArray
        else:
            cls = _prim(T['p'])
        kw = {}
        for k, v in (T.get('cust') or {}).items():
            kw[k] = v
        for k, v in (T.get('occ') or {}).items():
            kw[k] = D('inf') if v == 'unbounded' else v
        if T.get('mdoc'):
            kw['doc'] = T['mdoc']                       # documentation of the member element
        return cls(**kw) if kw else cls
    if 'c' in T:
        cls = env[T['c']]
        occ = T.get('occ')
        return cls.customize(**occ) if occ else cls
    if 'e' in T:
        return env[T['e']]
    if 'arr' in T:
        return Array(build_type(T['arr'], env))
    if 'iter' in T:
        return Iterable(build_type(T['iter'], env))
    if 'attr' in T:
        return XmlAttribute(build_type(T['attr'], env), use=T.get('use'))
    if 'data' in T:
        return XmlData(build_type(T['data'], env))
    raise ValueError(T)


class Built(object):
    pass


def build_app(spec, validator=None, record=None, returns=None):
    """build the real Application described by `spec` (fresh classes on every call)"""
    from spyne import Application, Service, rpc, srpc
    from spyne.model.complex import ComplexModel, ComplexModelMeta
    from spyne.model.fault import Fault
    from spyne.model.enum import Enum
    from spyne.protocol.soap import Soap11, Soap12
    env = {}
    for t in spec['types']:
        if t['k'] == 'complex':
            base = env[t['base']] if t.get('base') else ComplexModel
            bases = (base,)
            if t.get('mixin'):
                # a plain Python mixin before or after the spyne base: class X(Mixin, ComplexModel)
                mx = type('Mixin_' + str(t['name']), (object,), {'describe': lambda self: 'x'})
                bases = (mx, base) if t['mixin'] == 'before' else (base, mx)
            d = {'__module__': 'c07app', '_type_info': [(k, build_type(T, env)) for k, T in t['fields']]}
            d['__namespace__'] = t.get('ns') or spec['tns']      # a class without one takes its module's name
            if t.get('doc'):
                # public documentation (xs:annotation/xs:documentation) and application info of the class
                ann = {'doc': t['doc']}
                if t.get('appinfo'):
                    ann['appinfo'] = t['appinfo']
                d['Annotations'] = type('Annotations', (ComplexModel.Annotations,), ann)
            if t.get('tname'):
                d['__type_name__'] = t['tname']
            if t.get('private'):
                # kept out of the interface documents: classes derived from it publish its members as their own
                d['Attributes'] = type('Attributes', (base.Attributes,), {'exc_interface': True})
            elif t.get('base') and any(x['name'] == t['base'] and x.get('private') for x in spec['types']):
                d['Attributes'] = type('Attributes', (base.Attributes,), {'exc_interface': False})
            env[t['name']] = ComplexModelMeta(str(t['name']), bases, d)
        elif t['k'] == 'enum':
            env[t['name']] = Enum(*t['values'], type_name=t['name'])
        elif t['k'] == 'fault':
            fd = {'__module__': 'c07app', '__type_name__': t['name']}
            if t.get('ns'):
                fd['__namespace__'] = spec['tns'] if t['ns'] == '#tns' else t['ns']         # a fault from a shared library namespace
            env[t['name']] = type(str(t['name']), (Fault,), fd)
    services = []
    for s in spec['services']:
        d = {'__module__': 'c07app'}
        if s.get('port_types'):
            d['__port_types__'] = list(s['port_types'])
        if s.get('service_name'):
            d['__service_name__'] = s['service_name']
        for hk in ('in_header', 'out_header'):
            if s.get(hk):
                hs = tuple(env[h] for h in s[hk])
                d['__%s__' % hk] = hs[0] if len(hs) == 1 else hs
        for m in s['methods']:
            kw = {} if m.get('introspect') else {'_args': [p[0] for p in m['params']]}
            r = m.get('returns')
            if r is not None:
                kw['_returns'] = [build_type(x, env) for x in r] if isinstance(r, list) else build_type(r, env)
            if m.get('body', 'wrapped') != 'wrapped':
                kw['_body_style'] = m['body']
            for a, b in (('op', '_operation_name'), ('in_msg', '_in_message_name'), ('out_msg', '_out_message_name'),
                         ('out_var', '_out_variable_name'), ('port_type', '_port_type'), ('part', '_wsdl_part_name')):
                if m.get(a):
                    kw[b] = m[a]
            if m.get('throws'):
                fl = [env[f] for f in m['throws']]
                if m.get('throws_single') and len(fl) == 1:
                    fl = fl[0]                              # a single class instead of a sequence
                kw['_faults' if m.get('faults_kw') else '_throws'] = fl
            if m.get('arg_names'):
                kw['_in_variable_names' if m.get('arg_names_old') else '_in_arg_names'] = dict(m['arg_names'])
            if m.get('soap_style'):
                kw['_soap_body_style'] = m['soap_style']
                kw.setdefault('_body_style', m.get('body', 'wrapped'))
            if m.get('udd'):
                kw['_udd'] = {'k': 1}
            for hk in ('in_header', 'out_header'):
                if m.get(hk):
                    kw['_' + hk] = tuple(env[h] for h in m[hk])

            def mk(m=m):
                def impl(ctx, *args):
                    if record is not None:
                        record.append((m['fn'], args, ctx.in_header if ctx is not None else None))
                    if returns is not None and m['fn'] in returns:
                        return returns[m['fn']]()
                    return None
                names = [p[0] for p in m['params']]
                if m.get('introspect'):
                    # a real signature: the decorator reads the argument names from the code object
                    src = 'def fn(%s): return impl(%s)' % (', '.join(([] if m.get('srpc') else ['ctx']) + names),
                                                          ', '.join((['None'] if m.get('srpc') else ['ctx']) + names))
                    g = {'impl': impl}
                    exec(src, g)
                    fn = g['fn']
                elif m.get('srpc'):
                    def fn(*args):
                        return impl(None, *args)
                else:
                    def fn(ctx, *args):
                        return impl(ctx, *args)
                fn.__name__ = str(m['fn'])
                fn.__doc__ = m.get('doc')
                return fn
            deco = srpc if m.get('srpc') else rpc
            d[str(m['fn'])] = deco(*[build_type(p[1], env) for p in m['params']], **kw)(mk())
        services.append(type(Service)(str(s['name']), (Service,), d))
    P = Soap12 if spec.get('soap12') else Soap11
    app = Application(services, spec['tns'], name=spec['name'], in_protocol=P(validator=validator), out_protocol=P(),
                      classes=[env[n] for n in spec.get('extra') or ()])
    app.transport = TRANSPORT
    for pref, ns in spec.get('pins') or ():
        # prefixes the deployment pins through the Interface.nsmap / prefmap tables
        app.interface.nsmap[pref] = ns
        app.interface.prefmap[ns] = pref
    b = Built()
    b.app, b.env, b.services = app, env, services
    return b


def build_wsdl(app, url=URL):
    from spyne.interface.wsdl import Wsdl11
    w = Wsdl11(app.interface)
    w.build_interface_document(url)
    return w.get_interface_document()


# ====================================================================================== extraction of the Interface state
def extract_istate(app):
    """the populated Interface as the model's input (call before anything renders a document)"""
    import spyne.const.xml as X
    from spyne.model import SimpleModel, ComplexModelBase
    from spyne.model.fault import Fault
    from spyne.model.enum import EnumBase
    from spyne.model.complex import XmlAttribute, XmlData, XmlModifier
    itf = app.interface
    seen, order = {}, []

    def members(c):
        out = []
        if getattr(c, '__extends__', None) is not None:
            out.append(c.__extends__)
        if isinstance(c, type) and (issubclass(c, ComplexModelBase) or issubclass(c, Fault)):
            for k, v in (getattr(c, '_type_info', None) or {}).items():
                if v is None:
                    continue
                if issubclass(v, XmlModifier):
                    out.append(v.type)
                out.append(v)
        return out

    def visit(c, stack=()):
        if id(c) in seen:
            return
        if c in stack:
            raise core.Infra('cyclic class graph is outside the modelled universe: %r' % (c,))
        for x in members(c):
            visit(x, stack + (c,))
        seen[id(c)] = len(order)
        order.append(c)

    roots = []
    for k, v in itf.deps.items():
        roots.append(k)
        roots += list(v)
    meths = []
    for s in itf.services:
        for m in s.public_methods.values():
            meths.append((s, m))
            roots += [m.in_message, m.out_message] + list(m.in_header or ()) + list(m.out_header or ()) + list(m.faults or ())
    for c in roots:
        visit(c)
    cid = lambda c: seen[id(c)]

    def occ_min(a):
        return None if a.min_occurs == 1 else str(a.min_occurs)

    def occ_max(a):
        if a.max_occurs == 1:
            return None
        return 'unbounded' if a.max_occurs in (D('inf'), float('inf')) else str(a.max_occurs)

    def base_walk_hits_object(c, rev, depth=0):
        """would a walk over __bases__ (front to back / back to front) reach `object` before a spyne model class?"""
        from spyne.model import ModelBase
        if c is object:
            return True
        if c in (ModelBase, SimpleModel, ComplexModelBase, Fault, EnumBase) or depth > 20:
            return False
        for bb in (reversed(c.__bases__) if rev else c.__bases__):
            return base_walk_hits_object(bb, rev, depth + 1)
        return False

    classes = []
    for c in order:
        if issubclass(c, EnumBase):
            kind = 'enum'
        elif issubclass(c, ComplexModelBase) or issubclass(c, Fault):
            kind = 'complex'
        elif issubclass(c, SimpleModel) and not c.is_default(c):
            kind = 'simple'
        else:
            kind = 'builtin'
        fields = []
        ext = getattr(c, '__extends__', None)
        private_parent = bool(kind == 'complex' and ext is not None and getattr(ext.Attributes, 'exc_interface', False))
        if kind == 'complex':
            ti = c.get_flat_type_info(c) if private_parent else (getattr(c, '_type_info', None) or {})
            for k, v in ti.items():
                a = v.Attributes
                isattr = issubclass(v, XmlAttribute)
                isdata = issubclass(v, XmlData)
                fields.append({'name': k, 'subName': a.sub_name or None if not isattr else None, 'ty': cid(v),
                               'isAttr': isattr, 'isData': isdata, 'inner': cid(v.type) if (isattr or isdata) else 0,
                               'use': (v._use if isattr else None), 'minOccurs': occ_min(a), 'maxOccurs': occ_max(a),
                               'nillable': bool(a.nillable)})
        sub_ns = c.Attributes.sub_ns
        enums = []
        if kind == 'enum':
            enums = [str(x) for x in c.__values__]
        elif kind == 'simple':
            enums = [str(x) for x in (c.Attributes.values or ())]
        if private_parent:
            ext = None          # no xs:extension: the parent is not in the documents
        if kind == 'simple':
            # the restriction base is chosen by model._check_extension_attrs (direct parent, or the root ancestor when
            # the customisation does not touch a facet); taken from the implementation, not re-implemented
            try:
                from spyne.interface.xml_schema.model import _check_extension_attrs
                ext = _check_extension_attrs(c)
            except ImportError:
                pass
        tn = c.get_type_name()
        classes.append({'repr': repr(c), 'ns': c.get_namespace(), 'tn': tn if isinstance(tn, str) else '#empty', 'kind': kind,
                        'ext': cid(ext) if ext is not None else None,
                        'fields': fields, 'subName': c.Attributes.sub_name or None,
                        'subNs': (None if not sub_ns else ('#default' if sub_ns is X.DEFAULT_NS else sub_ns)),
                        'wsdlPart': c.Attributes.wsdl_part_name or None, 'enums': enums,
                        'mixinFirst': bool(kind != 'builtin' and base_walk_hits_object(c, False)),
                        'mixinLast': bool(kind != 'builtin' and base_walk_hits_object(c, True))})
    services = []
    for s in itf.services:
        ms = []
        for m in s.public_methods.values():
            ms.append({'name': m.name, 'opName': m.operation_name, 'inMsg': cid(m.in_message), 'outMsg': cid(m.out_message),
                       'inHeader': None if m.in_header is None else [cid(h) for h in m.in_header],
                       'outHeader': None if m.out_header is None else [cid(h) for h in m.out_header],
                       'faults': [cid(f) for f in (m.faults or ())], 'portType': m.port_type, 'doc': m.doc})
        services.append({'name': s.get_service_name(), 'portTypes': list(s.get_port_types()), 'methods': ms})
    pinned = [[p, n] for p, n in itf.nsmap.items() if p not in X.NSMAP and p != 'tns']
    st = {'tns': itf.get_tns(), 'name': itf.get_name(),
          'staticNs': [[p, n] for p, n in X.NSMAP.items()], 'pins': pinned,
          'classes': classes,
          'deps': [[cid(k), [cid(x) for x in v]] for k, v in itf.deps.items()],
          'imports': [[k, list(v)] for k, v in itf.imports.items()],
          'services': services, 'transport': app.transport,
          'inSoap12': 'soap12' in app.in_protocol.type, 'outSoap12': 'soap12' in app.out_protocol.type}
    return st, order


def real_tiers(app, order):
    """run the real toposort2 on the real deps (idempotent apart from registering extras); class ids per tier"""
    from spyne.util.toposort import toposort2
    ids = dict((id(c), i) for i, c in enumerate(order))
    try:
        return [[ids[id(c)] for c in tier] for tier in toposort2(app.interface.deps)]
    except AssertionError:
        return {'crash': 'AssertionError'}


# ====================================================================================== reading the real document
def _q(ns, l):
    return '{%s}%s' % (ns, l)


def parse_wsdl(data):
    """independent reading (lxml) of the bytes into the model's document shape; QNames stay as written"""
    from lxml import etree
    root = etree.fromstring(data)
    head = data[:data.index(b'>', data.index(b'<wsdl:definitions'))].decode('utf8')
    nsdecl = [[m.group(1), m.group(2)] for m in re.finditer(r'xmlns:([\w.-]+)="([^"]*)"', head)]
    doc = {'nsdecl': nsdecl, 'tns': root.get('targetNamespace'), 'name': root.get('name'), 'schemas': [],
           'messages': [], 'services': [], 'portTypes': [], 'bindings': []}
    order_ok = True
    kinds = []
    for ch in root:
        if not isinstance(ch.tag, str):
            continue
        kinds.append(etree.QName(ch).localname)
    rank = {'types': 0, 'message': 1, 'service': 2, 'portType': 3, 'binding': 4}
    rs = [rank.get(k, 9) for k in kinds]
    if rs != sorted(rs):
        order_ok = False
    types = root.find(_q(NS_WSDL, 'types'))
    for sch in (types if types is not None else []):
        s = {'tns': sch.get('targetNamespace'), 'imports': [], 'types': [], 'elements': []}
        seq = []
        for ch in sch:
            ln = etree.QName(ch).localname
            if ln == 'import':
                s['imports'].append(ch.get('namespace')); seq.append(0)
            elif ln in ('complexType', 'simpleType'):
                seq.append(1)
                t = {'name': ch.get('name'), 'complex': ln == 'complexType', 'base': None, 'elems': [], 'attrs': [], 'enums': [],
                     'dataBases': []}
                ext = ch.find(_q(NS_XSD, 'complexContent') + '/' + _q(NS_XSD, 'extension'))
                rst = ch.find(_q(NS_XSD, 'restriction'))
                if ext is not None:
                    t['base'] = ext.get('base')
                for sc in ch.iter(_q(NS_XSD, 'simpleContent')):
                    for x in sc.findall(_q(NS_XSD, 'extension')):
                        t['dataBases'].append(x.get('base'))
                if rst is not None:
                    t['base'] = rst.get('base')
                    t['enums'] = [e.get('value') for e in rst.findall(_q(NS_XSD, 'enumeration'))]
                for sq in ch.iter(_q(NS_XSD, 'sequence')):
                    for e in sq.findall(_q(NS_XSD, 'element')):
                        t['elems'].append({'name': e.get('name'), 'type': e.get('type'), 'min': e.get('minOccurs'),
                                           'max': e.get('maxOccurs'), 'nillable': e.get('nillable') == 'true'})
                for a in ch.iter(_q(NS_XSD, 'attribute')):
                    t['attrs'].append({'name': a.get('name'), 'type': a.get('type'), 'use': a.get('use')})
                s['types'].append(t)
            elif ln == 'element':
                seq.append(2)
                s['elements'].append({'name': ch.get('name'), 'type': ch.get('type')})
            else:
                seq.append(9)
        if seq != sorted(seq):
            order_ok = False
        doc['schemas'].append(s)
    for m in root.findall(_q(NS_WSDL, 'message')):
        doc['messages'].append({'name': m.get('name'), 'parts': [{'name': p.get('name'), 'element': p.get('element')}
                                                                  for p in m.findall(_q(NS_WSDL, 'part'))]})
    for s in root.findall(_q(NS_WSDL, 'service')):
        ports = []
        for p in s.findall(_q(NS_WSDL, 'port')):
            addr = [c for c in p if isinstance(c.tag, str) and etree.QName(c).localname == 'address']
            ports.append({'name': p.get('name'), 'binding': p.get('binding'), 'location': addr[0].get('location') if addr else None})
        doc['services'].append({'name': s.get('name'), 'ports': ports})
    for pt in root.findall(_q(NS_WSDL, 'portType')):
        ops = []
        for o in pt.findall(_q(NS_WSDL, 'operation')):
            i, u = o.find(_q(NS_WSDL, 'input')), o.find(_q(NS_WSDL, 'output'))
            dn = o.find(_q(NS_WSDL, 'documentation'))
            ops.append({'name': o.get('name'), 'doc': dn.text if dn is not None else None, 'paramOrder': o.get('parameterOrder'),
                        'inName': i.get('name') if i is not None else None, 'inMsg': i.get('message') if i is not None else None,
                        'outName': u.get('name') if u is not None else None, 'outMsg': u.get('message') if u is not None else None,
                        'faults': [{'name': f.get('name'), 'message': f.get('message')} for f in o.findall(_q(NS_WSDL, 'fault'))]})
        doc['portTypes'].append({'name': pt.get('name'), 'ops': ops})
    for b in root.findall(_q(NS_WSDL, 'binding')):
        sb = [c for c in b if isinstance(c.tag, str) and etree.QName(c).localname == 'binding']
        soap12 = bool(sb) and etree.QName(sb[0]).namespace == NS_SOAP12
        ops = []
        for o in b.findall(_q(NS_WSDL, 'operation')):
            so = [c for c in o if isinstance(c.tag, str) and etree.QName(c).localname == 'operation']
            i, u = o.find(_q(NS_WSDL, 'input')), o.find(_q(NS_WSDL, 'output'))

            def hdrs(x):
                return [] if x is None else [{'message': h.get('message'), 'part': h.get('part')} for h in x
                                             if isinstance(h.tag, str) and etree.QName(h).localname == 'header']
            ops.append({'name': o.get('name'), 'soapAction': so[0].get('soapAction') if so else None,
                        'inName': i.get('name') if i is not None else None, 'inHeaders': hdrs(i),
                        'outName': u.get('name') if u is not None else None, 'outHeaders': hdrs(u),
                        'faults': [f.get('name') for f in o.findall(_q(NS_WSDL, 'fault'))]})
        doc['bindings'].append({'name': b.get('name'), 'type': b.get('type'),
                                'transport': sb[0].get('transport') if sb else None, 'soap12': soap12, 'ops': ops})
    return doc, order_ok


# ====================================================================================== T3: independent resolver on the XML
def resolve_all(data):
    """every QName-valued reference of the real document, resolved with the XML in-scope namespaces;
       returns the list of unresolved (kind, written value, reason)"""
    from lxml import etree
    root = etree.fromstring(data)
    tns = root.get('targetNamespace')
    typedefs, elemdefs = set(), set()
    for sch in root.iter(_q(NS_XSD, 'schema')):
        st = sch.get('targetNamespace')
        for ch in sch:
            if not isinstance(ch.tag, str):
                continue
            ln = etree.QName(ch).localname
            if ln in ('complexType', 'simpleType'):
                typedefs.add((st, ch.get('name')))
            elif ln == 'element':
                elemdefs.add((st, ch.get('name')))
    msgs = set((tns, m.get('name')) for m in root.findall(_q(NS_WSDL, 'message')))
    pts = set((tns, m.get('name')) for m in root.findall(_q(NS_WSDL, 'portType')))
    bds = set((tns, m.get('name')) for m in root.findall(_q(NS_WSDL, 'binding')))
    bad = []

    def res(el, val):
        if val is None:
            return None
        if ':' in val:
            p, l = val.split(':', 1)
        else:
            p, l = None, val
        ns = el.nsmap.get(p)
        if ns is None and p is not None:
            return ('undeclared-prefix', l)
        return (ns, l)

    def check(kind, el, attr, table, builtin=False):
        v = el.get(attr)
        if v is None:
            return
        r = res(el, v)
        if r[0] == 'undeclared-prefix':
            bad.append((kind, v, 'prefix not declared')); return
        if builtin and r[0] == NS_XSD and r[1] in XSD_BUILTINS:
            return
        if r not in table:
            bad.append((kind, v, 'no definition {%s}%s' % r))

    for el in root.iter():
        if not isinstance(el.tag, str):
            continue
        q = etree.QName(el)
        if q.namespace == NS_XSD:
            if q.localname in ('element', 'attribute'):
                check('type', el, 'type', typedefs, True)
                check('ref', el, 'ref', elemdefs)
            elif q.localname in ('extension', 'restriction'):
                check('base', el, 'base', typedefs, True)
        elif q.namespace == NS_WSDL:
            if q.localname == 'part':
                check('element', el, 'element', elemdefs)
                check('part-type', el, 'type', typedefs, True)
            elif q.localname in ('input', 'output', 'fault') and etree.QName(el.getparent().getparent()).localname == 'portType':
                check('message', el, 'message', msgs)
            elif q.localname == 'binding':
                check('portType', el, 'type', pts)
            elif q.localname == 'port':
                check('binding', el, 'binding', bds)
        elif q.namespace in (NS_SOAP, NS_SOAP12) and q.localname == 'header':
            check('header-message', el, 'message', msgs)
            r = res(el, el.get('message'))
            if r is not None and r in msgs:
                parts = [p.get('name') for m in root.findall(_q(NS_WSDL, 'message')) if m.get('name') == r[1]
                         for p in m.findall(_q(NS_WSDL, 'part'))]
                if el.get('part') not in parts:
                    bad.append(('header-part', '%s#%s' % (el.get('message'), el.get('part')),
                                'message {%s}%s has no part of that name' % r))
    return bad


def duplicates(data):
    """definitions must be unique per symbol space: wsdl:message / portType / binding / service in the document,
       wsdl:port inside its service, xs:schema per target namespace, types and elements inside a namespace"""
    from lxml import etree
    from collections import Counter
    root = etree.fromstring(data)
    bad = []

    def dups(kind, names):
        for n, k in Counter(names).items():
            if k > 1:
                bad.append((kind, n, k))
    for kind in ('message', 'portType', 'binding', 'service'):
        dups(kind, [e.get('name') for e in root.findall(_q(NS_WSDL, kind))])
    for sv in root.findall(_q(NS_WSDL, 'service')):
        dups('port', ['%s/%s' % (sv.get('name'), p.get('name')) for p in sv.findall(_q(NS_WSDL, 'port'))])
    for pt in root.findall(_q(NS_WSDL, 'portType')):
        pass
    schemas = list(root.iter(_q(NS_XSD, 'schema')))
    dups('schema', [sc.get('targetNamespace') for sc in schemas])
    types, elems = [], []
    for sc in schemas:
        for ch in sc:
            if not isinstance(ch.tag, str):
                continue
            ln = etree.QName(ch).localname
            if ln in ('complexType', 'simpleType'):
                types.append('{%s}%s' % (sc.get('targetNamespace'), ch.get('name')))
            elif ln == 'element':
                elems.append('{%s}%s' % (sc.get('targetNamespace'), ch.get('name')))
    dups('type', types)
    dups('element', elems)
    return bad


def imports_check(data):
    """XSD src-resolve: a QName in another namespace resolves only if that namespace is imported by the schema"""
    from lxml import etree
    root = etree.fromstring(data)
    bad = []
    for sch in root.iter(_q(NS_XSD, 'schema')):
        tns = sch.get('targetNamespace')
        imported = set(i.get('namespace') for i in sch.findall(_q(NS_XSD, 'import')))
        for el in sch.iter():
            if not isinstance(el.tag, str):
                continue
            for attr in ('type', 'base', 'ref'):
                v = el.get(attr)
                if v and ':' in v:
                    ns = el.nsmap.get(v.split(':', 1)[0])
                    if ns not in (None, tns, NS_XSD) and ns not in imported:
                        bad.append((tns, v, ns))
    return bad


def ops_check(data, app):
    """every exposed method: exactly one portType operation, a matching binding operation, messages, faults"""
    from lxml import etree
    root = etree.fromstring(data)
    bad = []
    pts = root.findall(_q(NS_WSDL, 'portType'))
    bds = root.findall(_q(NS_WSDL, 'binding'))
    msgs = dict((m.get('name'), m) for m in root.findall(_q(NS_WSDL, 'message')))
    for s in app.interface.services:
        for m in s.public_methods.values():
            op = m.operation_name
            hits = [(pt, o) for pt in pts for o in pt.findall(_q(NS_WSDL, 'operation')) if o.get('name') == op]
            if len(hits) != 1:
                bad.append(('portType-operation-count', op, len(hits))); continue
            pt, o = hits[0]
            if m.port_type is not None and pt.get('name') != m.port_type:
                bad.append(('operation-in-wrong-portType', op, pt.get('name')))
            i, u = o.find(_q(NS_WSDL, 'input')), o.find(_q(NS_WSDL, 'output'))
            for el, msg in ((i, m.in_message), (u, m.out_message)):
                if el is None:
                    bad.append(('missing-input-or-output', op, None)); continue
                name = el.get('message').split(':')[-1]
                if name != msg.get_element_name() or name not in msgs:
                    bad.append(('message-name', op, name)); continue
                parts = msgs[name].findall(_q(NS_WSDL, 'part'))
                if len(parts) != 1 or parts[0].get('element').split(':')[-1] != msg.get_element_name():
                    bad.append(('message-part', op, name))
            fl = [f.get('name') for f in o.findall(_q(NS_WSDL, 'fault'))]
            want = [f.get_type_name() for f in (m.faults or ())]
            if fl != want or any(f not in msgs for f in want):
                bad.append(('portType-faults', op, fl))
            mine = [b for b in bds if b.get('type').split(':')[-1] == pt.get('name')]
            if len(mine) != 1:
                bad.append(('binding-count-for-portType', op, len(mine))); continue
            bops = [x for x in mine[0].findall(_q(NS_WSDL, 'operation')) if x.get('name') == op]
            if len(bops) != 1:
                bad.append(('binding-operation-count', op, len(bops))); continue
            bi, bu = bops[0].find(_q(NS_WSDL, 'input')), bops[0].find(_q(NS_WSDL, 'output'))
            if bi is None or bu is None or bi.get('name') != i.get('name') or bu.get('name') != u.get('name'):
                bad.append(('binding-io-names', op, None))
            if [f.get('name') for f in bops[0].findall(_q(NS_WSDL, 'fault'))] != want:
                bad.append(('binding-faults', op, None))
            other = [b for b in bds if b is not mine[0] for x in b.findall(_q(NS_WSDL, 'operation')) if x.get('name') == op]
            if other:
                bad.append(('operation-in-foreign-binding', op, other[0].get('name')))
    return bad


# ====================================================================================== generators of applications
NSS = ['ns.a', 'ns.b', 'ns.c', 'urn:x:d']


def gen_prim(rng, rich=True):
    p = rng.choice(PRIMS if rich else ['Unicode', 'Integer', 'Boolean'])
    T = {'p': p}
    r = rng.random()
    if r < 0.3 and p == 'Unicode':
        k = rng.randrange(3, 8)
        T['cust'] = rng.choice([{'max_len': rng.randrange(3, 9)}, {'min_len': 1, 'max_len': rng.randrange(4, 12)},
                                {'values': ['v%d' % i for i in range(rng.randrange(1, 4))]},
                                {'min_len': k, 'max_len': k}, {'pattern': '[a-z]+', 'max_len': 8}])
    elif r < 0.3 and p == 'Integer':
        T['cust'] = rng.choice([{'ge': rng.randrange(0, 5)}, {'ge': 0, 'le': rng.randrange(10, 99)}, {'gt': 0, 'lt': 100}])
    elif r < 0.3 and p == 'Decimal':
        T['cust'] = {'total_digits': 5, 'fraction_digits': 2}
    return T


def gen_T(rng, names, enums, depth=0, allow_attr=False):
    r = rng.random()
    if allow_attr and r < 0.1:
        T = {'attr': {'e': rng.choice(enums)} if enums and rng.random() < 0.3 else {'p': rng.choice(['Unicode', 'Integer', 'Boolean'])}}
        if rng.random() < 0.3:
            T['use'] = 'required'
        return T
    if names and r < 0.35:
        T = {'c': rng.choice(names)}
        if rng.random() < 0.2:
            T['occ'] = rng.choice([{'min_occurs': 1}, {'nillable': False}, {'min_occurs': 1, 'nillable': False}])
        return T
    if enums and r < 0.42:
        return {'e': rng.choice(enums)}
    if r < 0.6 and depth == 0:
        inner = {'c': rng.choice(names)} if names and rng.random() < 0.6 else {'p': rng.choice(['Unicode', 'Integer', 'Boolean'])}
        return {rng.choice(['arr', 'arr', 'iter']): inner}
    T = gen_prim(rng)
    if rng.random() < 0.2:
        T['occ'] = rng.choice([{'min_occurs': 1}, {'nillable': False}, {'max_occurs': 'unbounded'}, {'min_occurs': 1, 'max_occurs': 3}])
    if rng.random() < 0.1:
        T['mdoc'] = rng.choice(['the <member> & its "doc"', 'plain'])
    return T


def gen_spec(rng, idx):
    n_ns = rng.choice([0, 1, 2, 3, 4])
    nss = rng.sample(NSS, n_ns)
    types, cnames, enames, fnames, hnames = [], [], [], [], []
    for i in range(rng.randrange(0, 3)):
        n = 'E%d' % i
        types.append({'k': 'enum', 'name': n, 'values': ['a%d' % j for j in range(rng.randrange(1, 4))]})
        enames.append(n)
    for i in range(rng.randrange(0, 7)):
        n = 'T%d' % i
        base = rng.choice(cnames) if cnames and rng.random() < 0.25 else None
        # the first member is an element: zeep decodes an attribute-only (childless) reply element as None
        fields = [['m%d_%d' % (i, j), gen_T(rng, cnames, enames, 0, j > 0)] for j in range(rng.randrange(1, 5))]
        ct = {'k': 'complex', 'name': n, 'ns': rng.choice(nss + [None]) if nss else None, 'base': base, 'fields': fields}
        r = rng.random()
        if r < 0.12:
            ct['mixin'] = 'before'
        elif r < 0.2:
            ct['mixin'] = 'after'
        if rng.random() < 0.2:
            ct['doc'] = rng.choice(['A documented class.', 'x < y & z > "q"', 'mehrzeilig\n  zweite Zeile é'])
            if rng.random() < 0.5:
                ct['appinfo'] = rng.choice(['plain <text> & more', {'owner': 'team a', 'tags': ['x', 'y']}])
        types.append(ct)
        cnames.append(n)
    for i in range(rng.choice([0, 0, 1, 2])):
        # text content plus attributes: xs:simpleContent/xs:extension base="..."
        n = 'D%d' % i
        dt = {'p': rng.choice(['Unicode', 'Integer', 'Boolean', 'Date'])}    # (XmlData of an anonymous restricted type is rejected by populate_interface)
        fields = [['val', {'data': dt}]] + [['at%d' % j, {'attr': {'p': rng.choice(['Unicode', 'Integer', 'Boolean'])}}]
                                            for j in range(rng.randrange(0, 3))]
        types.append({'k': 'complex', 'name': n, 'ns': rng.choice(nss + [None]) if nss else None, 'base': None, 'fields': fields})
        cnames.append(n)
    for i in range(rng.randrange(0, 4)):
        n = 'H%d' % i
        types.append({'k': 'complex', 'name': n, 'ns': rng.choice(nss + [None, None]) if nss else None, 'base': None,
                      'fields': [['tok', {'p': 'Unicode'}]] + ([['n', {'p': 'Integer'}]] if rng.random() < 0.5 else [])})
        hnames.append(n)
    for i in range(rng.randrange(0, 3)):
        n = 'F%d' % i
        ft = {'k': 'fault', 'name': n}
        r = rng.random()
        if r < 0.25:
            ft['ns'] = rng.choice(nss + ['urn:c07:faultlib'])       # explicit namespace outside the tns
        elif r < 0.4:
            ft['ns'] = '#tns'                                        # explicit namespace equal to the tns
        types.append(ft)
        fnames.append(n)
    services, fi = [], 0
    for si in range(rng.choice([1, 1, 1, 2, 2, 3, 4])):
        s = {'name': 'Svc%d' % si, 'methods': []}
        if rng.random() < 0.3:
            s['port_types'] = ['Pt%d_%d' % (si, j) for j in range(rng.choice([1, 1, 2, 3]))]
            if rng.random() < 0.3:
                s['service_name'] = 'SharedSvc'         # several services under one wsdl:service
        if hnames and rng.random() < 0.3:
            s['in_header'] = rng.sample(hnames, rng.choice([1, 1, min(2, len(hnames)), len(hnames)]))
        if hnames and rng.random() < 0.2:
            s['out_header'] = rng.sample(hnames, rng.choice([1, 1, min(2, len(hnames)), len(hnames)]))
        for mi in range(rng.randrange(1, 5)):
            fn = 'f%d' % fi
            fi += 1
            m = {'fn': fn, 'params': [], 'returns': None}
            body = rng.choice(['wrapped', 'wrapped', 'wrapped', 'bare', 'out_bare'])
            m['body'] = body
            if body == 'bare':
                if rng.random() < 0.8:
                    m['params'] = [['a0', rng.choice([gen_prim(rng, False)] + ([{'c': rng.choice(cnames)}] if cnames else []))]]
            else:
                m['params'] = [['a%d' % j, gen_T(rng, cnames, enames)] for j in range(rng.randrange(0, 4))]
            r = rng.random()
            if body == 'wrapped' and r < 0.15:
                m['returns'] = [gen_T(rng, cnames, enames), gen_T(rng, cnames, enames)]
            elif r < 0.85:
                m['returns'] = gen_T(rng, cnames, enames) if body == 'wrapped' else \
                    rng.choice([gen_prim(rng, False)] + ([{'c': rng.choice(cnames)}] if cnames else []))
            r = rng.random()
            if r < 0.15:
                m['op'] = 'op_' + fn
            elif r < 0.3:
                m['in_msg'] = 'in_' + fn
            if rng.random() < 0.15:
                m['out_msg'] = 'out_' + fn
            if body == 'wrapped' and m['returns'] is not None and not isinstance(m['returns'], list) and rng.random() < 0.15:
                m['out_var'] = 'res_' + fn
            if fnames and rng.random() < 0.3:
                m['throws'] = rng.sample(fnames, rng.randrange(1, len(fnames) + 1))
            if hnames and rng.random() < 0.2:
                m['in_header'] = rng.sample(hnames, rng.randrange(1, len(hnames) + 1))
            if hnames and rng.random() < 0.2:
                m['out_header'] = rng.sample(hnames, rng.randrange(1, len(hnames) + 1))
            if s.get('port_types'):
                m['port_type'] = rng.choice(s['port_types'])
            if rng.random() < 0.3:
                m['doc'] = rng.choice(['Does something.', 'a < b & "c"', 'line one\n    line two'])
            if rng.random() < 0.15:
                m['srpc'] = True
            if rng.random() < 0.3:
                m['introspect'] = True
            if m.get('throws'):
                if rng.random() < 0.3:
                    m['faults_kw'] = True
                if len(m['throws']) == 1 and rng.random() < 0.5:
                    m['throws_single'] = True
            if body != 'bare' and m['params'] and rng.random() < 0.2:
                m['arg_names'] = dict((p[0], 'pub_' + p[0]) for p in m['params'][:rng.randrange(1, len(m['params']) + 1)])
                m['arg_names_old'] = rng.random() < 0.3
            if rng.random() < 0.1:
                m['part'] = 'parameters'
            if rng.random() < 0.1:
                m['soap_style'] = 'rpc' if body == 'bare' else ('document' if body == 'wrapped' else None)
                if m['soap_style'] is None:
                    del m['soap_style']
            if rng.random() < 0.1:
                m['udd'] = True
            s['methods'].append(m)
        services.append(s)
    spec = {'id': 'rnd%d' % idx, 'tns': rng.choice(['tns.main', 'urn:spyne:c07', 'http://example.com/app/']),
            'name': rng.choice(['App', 'Gen%d' % idx]), 'types': types, 'services': services}
    if cnames and rng.random() < 0.2:
        spec['extra'] = rng.sample(cnames, rng.randrange(1, min(3, len(cnames)) + 1))     # Application(classes=[...])
    if nss and rng.random() < 0.25:
        # the deployment pins prefixes, some of them inside the generator's own s0, s1, ... sequence
        prefs = rng.sample(['s0', 's1', 's2', 's3', 's5', 'p', 'lib', 's10'], min(len(nss), rng.randrange(1, 4)))
        spec['pins'] = [[p, n] for p, n in zip(prefs, rng.sample(nss, len(prefs)))]
    return spec


def boundary_specs():
    U, I = {'p': 'Unicode'}, {'p': 'Integer'}
    out = []
    out.append({'id': 'b-min', 'tns': 'tns.main', 'name': 'App', 'types': [],
                'services': [{'name': 'S', 'methods': [{'fn': 'ping', 'params': [], 'returns': None}]}]})
    four = [{'k': 'complex', 'name': 'A', 'ns': 'ns.a', 'fields': [['x', {'p': 'Unicode', 'cust': {'max_len': 5}}], ['y', I], ['at', {'attr': I}]]},
            {'k': 'complex', 'name': 'B', 'ns': 'ns.b', 'fields': [['a', {'c': 'A'}], ['z', {'p': 'Unicode', 'cust': {'max_len': 6}}]]},
            {'k': 'complex', 'name': 'C', 'ns': 'ns.c', 'fields': [['b', {'c': 'B'}], ['a', {'c': 'A'}], ['l', {'arr': {'c': 'A'}}]]},
            {'k': 'complex', 'name': 'Dd', 'ns': 'urn:x:d', 'base': 'B', 'fields': [['c', {'c': 'C'}], ['q', {'p': 'Integer', 'cust': {'ge': 3}}]]},
            {'k': 'fault', 'name': 'MyFault'}, {'k': 'enum', 'name': 'Color', 'values': ['red', 'green']}]
    out.append({'id': 'b-4ns', 'tns': 'tns.main', 'name': 'App', 'types': four, 'services': [{'name': 'S', 'methods': [
        {'fn': 'f', 'params': [['d', {'c': 'Dd'}], ['c', {'c': 'C'}]], 'returns': {'c': 'B'}, 'throws': ['MyFault']},
        {'fn': 'g', 'params': [['s', U]], 'returns': U, 'body': 'bare'},
        {'fn': 'h', 'params': [['c', {'e': 'Color'}]], 'returns': {'arr': U}, 'op': 'hop'}]}]})
    hdr = lambda ns: {'k': 'complex', 'name': 'H', 'ns': ns, 'fields': [['tok', U]]}
    for tag, ns in (('tns', None), ('foreign', 'ns.h')):
        out.append({'id': 'b-header-' + tag, 'tns': 'tns.main', 'name': 'App', 'types': [hdr(ns)], 'services': [
            {'name': 'S', 'in_header': ['H'], 'methods': [{'fn': 'f', 'params': [['a', U]], 'returns': U}]}]})
    out.append({'id': 'b-headers-2', 'tns': 'tns.main', 'name': 'App',
                'types': [hdr(None), {'k': 'complex', 'name': 'H2', 'ns': 'ns.h', 'fields': [['n', I]]}], 'services': [
        {'name': 'S', 'methods': [{'fn': 'f', 'params': [['a', U]], 'returns': U, 'in_header': ['H', 'H2'], 'out_header': ['H2']}]}]})
    out.append({'id': 'b-out-headers-2', 'tns': 'tns.main', 'name': 'App',
                'types': [hdr(None), {'k': 'complex', 'name': 'H2', 'ns': 'ns.h', 'fields': [['n', I]]},
                          {'k': 'complex', 'name': 'H3', 'ns': None, 'fields': [['z', U]]}], 'services': [
        {'name': 'S', 'methods': [{'fn': 'f', 'params': [['a', U]], 'returns': U, 'in_header': ['H'], 'out_header': ['H2', 'H3']},
                                  {'fn': 'g', 'params': [['a', U]], 'returns': U, 'in_header': ['H', 'H2', 'H3'], 'out_header': ['H', 'H2', 'H3']}]}]})
    out.append({'id': 'b-fault-ns', 'tns': 'tns.main', 'name': 'App',
                'types': [{'k': 'fault', 'name': 'OutOfStock', 'ns': 'urn:c07:faultlib'}, {'k': 'fault', 'name': 'Plain'},
                          {'k': 'fault', 'name': 'Own', 'ns': '#tns'}],
                'services': [{'name': 'S', 'methods': [
                    {'fn': 'order', 'params': [['a', U]], 'returns': I, 'throws': ['OutOfStock', 'Plain', 'Own']},
                    {'fn': 'stock', 'params': [['a', U]], 'returns': I, 'throws': ['Plain']}]}]})
    shared = [hdr(None), {'k': 'fault', 'name': 'NotFound'}, {'k': 'complex', 'name': 'Item', 'ns': 'ns.a', 'fields': [['x', U]]}]
    out.append({'id': 'b-shared-3svc', 'tns': 'tns.main', 'name': 'App', 'types': shared, 'services': [
        {'name': 'S%d' % k, 'in_header': ['H'], 'out_header': ['H'], 'methods': [
            {'fn': 'f%d' % k, 'params': [['a', {'c': 'Item'}]], 'returns': {'c': 'Item'}, 'throws': ['NotFound']}]} for k in range(3)]})
    chain = [{'k': 'complex', 'name': 'Address', 'ns': 'urn:demo:a', 'fields': [['street', U], ['no', I]]},
             {'k': 'complex', 'name': 'Customer', 'ns': 'urn:demo:b', 'fields': [['name', U], ['address', {'c': 'Address'}]]},
             {'k': 'complex', 'name': 'Item', 'ns': 'urn:demo:c', 'fields': [['sku', U], ['count', I]]},
             {'k': 'complex', 'name': 'Order', 'ns': 'urn:demo:d', 'fields': [['customer', {'c': 'Customer'}], ['item', {'c': 'Item'}]]}]
    for tag, pins in (('s0s1', [['s0', 'urn:demo:b'], ['s1', 'urn:demo:c']]), ('s0s1s2', [['s0', 'urn:demo:d'], ['s1', 'urn:demo:a'], ['s2', 'urn:demo:b']]),
                      ('s1', [['s1', 'urn:demo:a']]), ('named', [['lib', 'urn:demo:c'], ['s3', 'urn:demo:a']])):
        out.append({'id': 'b-pinned-' + tag, 'tns': 'urn:demo:tns', 'name': 'Orders', 'types': chain, 'pins': pins, 'services': [
            {'name': 'S', 'methods': [{'fn': 'place', 'params': [['order', {'c': 'Order'}]], 'returns': {'c': 'Order'}}]}]})
    for pos in ('before', 'after'):
        out.append({'id': 'b-mixin-' + pos, 'tns': 'tns.main', 'name': 'App', 'types': [
            {'k': 'complex', 'name': 'Plain', 'ns': None, 'fields': [['x', U]]},
            {'k': 'complex', 'name': 'Tagged', 'ns': 'ns.a', 'mixin': pos, 'fields': [['y', U], ['p', {'c': 'Plain'}]]},
            {'k': 'complex', 'name': 'Sub', 'ns': 'ns.a', 'base': 'Tagged', 'mixin': pos, 'fields': [['z', I]]},
            {'k': 'complex', 'name': 'Box', 'ns': None, 'fields': [['t', {'c': 'Tagged'}], ['l', {'arr': {'c': 'Sub'}}]]}],
            'services': [{'name': 'S', 'methods': [{'fn': 'f', 'params': [['b', {'c': 'Box'}]], 'returns': {'c': 'Tagged'}}]}]})
    out.append({'id': 'b-xmldata', 'tns': 'tns.main', 'name': 'App', 'types': [
        {'k': 'enum', 'name': 'Unit', 'values': ['kg', 'lb']},
        {'k': 'complex', 'name': 'Weight', 'ns': 'ns.a', 'doc': 'a <weight> & its "unit"', 'appinfo': {'k': ['v1', 'v2']}, 'fields': [
            ['val', {'data': {'p': 'Decimal'}}], ['unit', {'attr': {'e': 'Unit'}, 'use': 'required'}], ['note', {'attr': U}]]},
        {'k': 'complex', 'name': 'Parcel', 'ns': 'ns.b', 'fields': [['w', {'c': 'Weight'}], ['ws', {'iter': {'c': 'Weight'}}], ['wa', {'arr': {'c': 'Weight'}}],
                                                                    ['blob', {'p': 'ByteArray'}],
                                                                    ['code', {'p': 'Unicode', 'cust': {'min_len': 4, 'max_len': 4}}],
                                                                    ['pat', {'p': 'Unicode', 'cust': {'pattern': '[a-z]+', 'max_len': 8}}],
                                                                    ['price', {'p': 'Decimal', 'cust': {'total_digits': 5, 'fraction_digits': 2}}],
                                                                    ['n', {'p': 'Integer', 'cust': {'gt': 0, 'lt': 100}}]]},
        {'k': 'complex', 'name': 'Unused', 'ns': 'ns.c', 'fields': [['x', U]]}, {'k': 'fault', 'name': 'Lost'}],
        'extra': ['Unused'],
        'services': [{'name': 'S', 'methods': [
            {'fn': 'weigh', 'params': [['p', {'c': 'Parcel'}]], 'returns': {'c': 'Weight'}, 'doc': 'Weighs a <parcel> & returns it.',
             'introspect': True, 'throws': ['Lost'], 'throws_single': True, 'faults_kw': True, 'arg_names': {'p': 'parcel'}},
            {'fn': 'ping', 'params': [['a', U]], 'returns': U, 'srpc': True, 'introspect': True, 'part': 'parameters',
             'soap_style': 'document', 'udd': True},
            {'fn': 'raw', 'params': [['a', U]], 'returns': {'p': 'ByteArray'}, 'body': 'bare', 'soap_style': 'rpc'}]}]})
    out.append({'id': 'b-shared-svcname-pt', 'tns': 'tns.main', 'name': 'App', 'types': [], 'services': [
        {'name': 'S1', 'service_name': 'Shared', 'port_types': ['P1'], 'methods': [{'fn': 'f', 'params': [['a', U]], 'returns': U, 'port_type': 'P1'}]},
        {'name': 'S2', 'service_name': 'Shared', 'port_types': ['P2', 'P3'], 'methods': [{'fn': 'g', 'params': [['a', U]], 'returns': U, 'port_type': 'P3'}]}]})
    m1 = lambda **k: dict({'fn': 'f', 'params': [['a', U]], 'returns': U}, **k)
    for tag, svcs, types in (
            ('port-missing', [{'name': 'S', 'port_types': ['P1'], 'methods': [m1()]}], []),
            ('port-undeclared', [{'name': 'S', 'port_types': ['P1'], 'methods': [m1(port_type='P9')]}], []),
            ('port-without-list', [{'name': 'S', 'methods': [m1(port_type='P1')]}], []),
            ('dup-method', [{'name': 'S1', 'methods': [m1()]}, {'name': 'S2', 'methods': [m1()]}], []),
            ('op-and-inmsg', [{'name': 'S', 'methods': [m1(op='o', in_msg='i')]}], []),
            ('dup-class', [{'name': 'S', 'methods': [m1(params=[['a', {'c': 'X1'}], ['b', {'c': 'X2'}]])]}],
             [{'k': 'complex', 'name': 'X1', 'tname': 'X', 'ns': 'ns.a', 'fields': [['x', U]]},
              {'k': 'complex', 'name': 'X2', 'tname': 'X', 'ns': 'ns.a', 'fields': [['y', I]]}])):
        # declarations spyne has to refuse: if one of them is accepted, the document it yields must still pass every oracle
        out.append({'id': 'b-invalid-' + tag, 'invalid': True, 'tns': 'tns.main', 'name': 'App', 'types': types, 'services': svcs})
    A1 = [{'k': 'complex', 'name': 'A', 'ns': None, 'fields': [['x', U]]}]
    out.append({'id': 'b-msgns-out', 'tns': 'tns.main', 'name': 'App', 'types': A1, 'services': [{'name': 'S', 'methods': [
        {'fn': 'g', 'params': [['a', {'c': 'A'}]], 'returns': U, 'out_msg': '{urn:other}gOut'}]}]})
    out.append({'id': 'b-msgns-in', 'tns': 'tns.main', 'name': 'App', 'types': A1, 'services': [{'name': 'S', 'methods': [
        {'fn': 'f', 'params': [['a', U]], 'returns': U, 'in_msg': '{urn:other}fIn'}]}]})
    out.append({'id': 'b-msgns-bare', 'tns': 'tns.main', 'name': 'App', 'types': [], 'services': [{'name': 'S', 'methods': [
        {'fn': 'h', 'params': [['a', U]], 'returns': U, 'body': 'bare', 'in_msg': '{urn:other2}hIn'}]}]})
    out.append({'id': 'b-shared-svcname-default', 'tns': 'tns.main', 'name': 'App', 'types': [], 'services': [
        {'name': 'S1', 'service_name': 'Shared', 'methods': [{'fn': 'f', 'params': [['a', U]], 'returns': U}]},
        {'name': 'S2', 'service_name': 'Shared', 'methods': [{'fn': 'g', 'params': [['a', U]], 'returns': U}]}]})
    out.append({'id': 'b-private-parent', 'tns': 'tns.main', 'name': 'App', 'types': [
        {'k': 'complex', 'name': 'Audited', 'ns': 'ns.a', 'private': True, 'fields': [['created_by', U], ['revision', I]]},
        {'k': 'complex', 'name': 'Document', 'ns': 'ns.a', 'base': 'Audited', 'fields': [['title', U], ['pages', I]]},
        {'k': 'complex', 'name': 'Folder', 'ns': 'ns.b', 'fields': [['docs', {'arr': {'c': 'Document'}}], ['main', {'c': 'Document'}]]}],
        'services': [{'name': 'S', 'methods': [
            {'fn': 'store', 'params': [['d', {'c': 'Document'}]], 'returns': {'c': 'Document'}},
            {'fn': 'folder', 'params': [['f', {'c': 'Folder'}]], 'returns': {'c': 'Folder'}},
            {'fn': 'bare', 'params': [['d', {'c': 'Document'}]], 'returns': {'c': 'Document'}, 'body': 'bare'}]}]})
    out.append({'id': 'b-porttypes-1', 'tns': 'tns.main', 'name': 'App', 'types': [], 'services': [
        {'name': 'S', 'port_types': ['P1'], 'methods': [{'fn': 'f', 'params': [['a', U]], 'returns': U, 'port_type': 'P1'}]}]})
    out.append({'id': 'b-porttypes-2', 'tns': 'tns.main', 'name': 'App', 'types': [], 'services': [
        {'name': 'S', 'port_types': ['P1', 'P2'], 'methods': [{'fn': 'f', 'params': [['a', U]], 'returns': U, 'port_type': 'P1'},
                                                             {'fn': 'g', 'params': [['a', I]], 'returns': I, 'port_type': 'P2'}]}]})
    pqr = [{'k': 'complex', 'name': n, 'ns': 'ns.' + n.lower(), 'fields': [['x', {'p': 'Unicode', 'cust': {'max_len': 5 + i}}]]}
           for i, n in enumerate(['P', 'Q', 'R'])]
    out.append({'id': 'b-ties', 'tns': 'tns.main', 'name': 'App', 'types': pqr, 'services': [{'name': 'S', 'methods': [
        {'fn': 'f', 'params': [['p', {'c': 'P'}], ['q', {'c': 'Q'}], ['r', {'c': 'R'}]], 'returns': U}]}]})
    out.append({'id': 'b-2svc', 'tns': 'tns.main', 'name': 'App', 'types': [], 'services': [
        {'name': 'S1', 'methods': [{'fn': 'f', 'params': [['a', U]], 'returns': U}]},
        {'name': 'S2', 'methods': [{'fn': 'g', 'params': [['a', I]], 'returns': I}, {'fn': 'k', 'params': [], 'returns': U, 'body': 'bare'}]}]})
    out.append({'id': 'b-names', 'tns': 'urn:spyne:c07', 'name': 'Named', 'types': [{'k': 'complex', 'name': 'A', 'ns': None, 'fields': [['x', U]]}],
                'services': [{'name': 'S', 'methods': [
                    {'fn': 'f', 'params': [['a', {'c': 'A'}]], 'returns': {'c': 'A'}, 'op': 'Do', 'out_msg': 'DoAnswer', 'out_var': 'it'},
                    {'fn': 'g', 'params': [['a', U], ['b', I]], 'returns': [U, I], 'in_msg': 'GIn'},
                    {'fn': 'h', 'params': [['a', {'c': 'A'}]], 'returns': {'c': 'A'}, 'body': 'bare'},
                    {'fn': 'k', 'params': [['a', U]], 'returns': {'arr': {'c': 'A'}}, 'body': 'out_bare'}]}]})
    out.append({'id': 'b-inherit', 'tns': 'tns.main', 'name': 'App', 'types': [
        {'k': 'complex', 'name': 'Base', 'ns': 'ns.a', 'fields': [['x', U]]},
        {'k': 'complex', 'name': 'Mid', 'ns': 'ns.b', 'base': 'Base', 'fields': [['y', I]]},
        {'k': 'complex', 'name': 'Leaf', 'ns': 'ns.a', 'base': 'Mid', 'fields': [['z', {'arr': {'c': 'Base'}}]]}],
        'services': [{'name': 'S', 'methods': [{'fn': 'f', 'params': [['a', {'c': 'Leaf'}]], 'returns': {'c': 'Mid'}}]}]})
    return out


# ====================================================================================== values and the foreign client (zeep)
def spec_fields(spec, name):
    t = [x for x in spec['types'] if x['name'] == name][0]
    base = spec_fields(spec, t['base']) if t.get('base') else []
    return base + [tuple(f) for f in t['fields']]


def is_multi(T):
    return (T.get('occ') or {}).get('max_occurs') not in (None, 1)


def gen_value(rng, spec, T, depth=0, top=True):
    if top and is_multi(T):
        return [gen_value(rng, spec, T, depth, False) for _ in range(rng.randrange(1, 3))]
    if 'p' in T:
        c = T.get('cust') or {}
        p = T['p']
        if p in ('Unicode', 'AnyUri'):
            if 'values' in c:
                return rng.choice(c['values'])
            if 'pattern' in c:
                return ''.join(rng.choice('abcxyz') for _ in range(rng.randrange(max(2, c.get('min_len', 2)), min(c.get('max_len', 8), 8) + 1)))
            # at least two characters: zeep 4.x crashes on a one-character bare string reply (len(str) == 1 is
            # taken for a one-member wrapper object) -- a defect of the foreign toolkit, not of the server
            n = rng.randrange(max(2, c.get('min_len', 1)), min(c.get('max_len', 8), 8) + 1)
            s = ''.join(rng.choice('abcXYZ09 _-é') for _ in range(n)).strip() or 'x'
            s = (s + 'xxxxxxxx')[:max(n, c.get('min_len', 1))]
            return ('urn:' + s.replace(' ', '')) if p == 'AnyUri' else s
        if p in ('Integer', 'Integer32'):
            lo = c['gt'] + 1 if 'gt' in c else c.get('ge', -50)
            hi = c['lt'] - 1 if 'lt' in c else c.get('le', 1000)
            return rng.randrange(lo, hi + 1)
        if p == 'Boolean':
            return rng.random() < 0.5
        if p == 'Decimal':
            return D(rng.randrange(-999 if 'total_digits' in c else -10000, 999 if 'total_digits' in c else 10000)) / D(100)
        if p == 'Date':
            return pydt.date(2000 + rng.randrange(30), rng.randrange(1, 13), rng.randrange(1, 29))
        if p == 'ByteArray':
            # at least two bytes: like a one-character string, a one-byte bare reply has len() == 1 and zeep 4.x takes
            # it for a one-member wrapper object (AttributeError: 'bytes' object has no attribute '__values__')
            return bytes(rng.randrange(256) for _ in range(rng.randrange(2, 9)))
    if 'e' in T:
        return rng.choice([x for x in spec['types'] if x['name'] == T['e']][0]['values'])
    if 'attr' in T:
        return gen_value(rng, spec, T['attr'], depth, False)
    if 'data' in T:
        return gen_value(rng, spec, T['data'], depth, False)
    if 'iter' in T:
        return [gen_value(rng, spec, T['iter'], depth + 1, False) for _ in range(rng.randrange(1, 3))]
    if 'arr' in T:
        return [gen_value(rng, spec, T['arr'], depth + 1, False) for _ in range(rng.randrange(1, 3))]
    if 'c' in T:
        out = {}
        for k, ft in spec_fields(spec, T['c']):
            must = (ft.get('occ') or {}).get('min_occurs', 0) >= 1 or (ft.get('occ') or {}).get('nillable') is False
            if 'attr' in ft:
                must = ft.get('use') == 'required'
            if 'data' in ft:
                must = True
            if depth > 3 and not must:
                continue
            if must or rng.random() < 0.75:
                out[k] = gen_value(rng, spec, ft, depth + 1)
        return out
    raise ValueError(T)


def _seq(T):
    return T.get('arr') or T.get('iter')


def to_spyne(spec, env, T, v, top=True):
    if v is None:
        return None
    if top and is_multi(T):
        return [to_spyne(spec, env, T, x, False) for x in v]
    if 'c' in T:
        return env[T['c']](**dict((k, to_spyne(spec, env, ft, v.get(k))) for k, ft in spec_fields(spec, T['c']) if k in v))
    if _seq(T):
        return [to_spyne(spec, env, _seq(T), x, False) for x in v]
    if 'attr' in T or 'data' in T:
        return to_spyne(spec, env, T.get('attr') or T['data'], v, False)
    if T.get('p') == 'ByteArray':
        return [v]
    return v


def from_spyne(spec, T, o, top=True):
    if o is None:
        return None
    if top and is_multi(T):
        return [from_spyne(spec, T, x, False) for x in o] or None
    if 'c' in T:
        d = {}
        for k, ft in spec_fields(spec, T['c']):
            x = from_spyne(spec, ft, getattr(o, k, None))
            if x is not None:
                d[k] = x
        return d
    if _seq(T):
        return [from_spyne(spec, _seq(T), x, False) for x in o] or None
    if 'attr' in T or 'data' in T:
        return from_spyne(spec, T.get('attr') or T['data'], o, False)
    if 'e' in T:
        return str(o)
    if T.get('p') == 'ByteArray':
        return b''.join(o) if isinstance(o, (list, tuple)) else o
    return o


def arr_member(env, T):
    return list(build_type(T, env)._type_info.keys())[0]


def to_zeep(spec, env, T, v, top=True):
    if v is None:
        return None
    if top and is_multi(T):
        return [to_zeep(spec, env, T, x, False) for x in v]
    if 'c' in T:
        return dict(('_value_1' if 'data' in ft else k, to_zeep(spec, env, ft, v[k]))
                    for k, ft in spec_fields(spec, T['c']) if k in v)
    if _seq(T):
        return {arr_member(env, T): [to_zeep(spec, env, _seq(T), x, False) for x in v]}
    if 'attr' in T or 'data' in T:
        return to_zeep(spec, env, T.get('attr') or T['data'], v, False)
    return v


def from_zeep(spec, env, T, o, top=True):
    if o is None:
        return None
    if top and is_multi(T):
        return [from_zeep(spec, env, T, x, False) for x in o] or None
    if 'c' in T:
        d = {}
        for k, ft in spec_fields(spec, T['c']):
            zk = '_value_1' if 'data' in ft else k
            x = from_zeep(spec, env, ft, o.get(zk) if isinstance(o, dict) else getattr(o, zk, None))
            if x is not None:
                d[k] = x
        return d
    if _seq(T):
        m = arr_member(env, T)
        items = o.get(m) if isinstance(o, dict) else (o if isinstance(o, list) else getattr(o, m, None))
        return [from_zeep(spec, env, _seq(T), x, False) for x in (items or [])] or None
    if 'attr' in T or 'data' in T:
        return from_zeep(spec, env, T.get('attr') or T['data'], o, False)
    return o


def wsgi_call(wsgi, method, body=b'', headers=None, query=''):
    env = {'REQUEST_METHOD': method, 'PATH_INFO': '/app', 'QUERY_STRING': query, 'SERVER_NAME': 'localhost',
           'SERVER_PORT': '7789', 'wsgi.url_scheme': 'http', 'wsgi.input': io.BytesIO(body), 'SCRIPT_NAME': '',
           'CONTENT_LENGTH': str(len(body)), 'CONTENT_TYPE': (headers or {}).get('Content-Type', 'text/xml; charset=utf-8')}
    for k, v in (headers or {}).items():
        env['HTTP_' + k.upper().replace('-', '_')] = v
    st = {}

    def sr(status, hdrs, exc=None):
        st['status'], st['headers'] = status, hdrs
    out = b''.join(wsgi(env, sr))
    return st['status'], dict(st['headers']), out


def zeep_roundtrip(ctx, spec, wsdl_bytes, rng):
    """a zeep client generated from the WSDL bytes alone talks to the real WsgiApplication built from the same spec.
       returns a list of failures (stage, operation, detail)"""
    import zeep
    from zeep.transports import Transport
    from zeep.helpers import serialize_object
    from spyne.server.wsgi import WsgiApplication
    record, returns = [], {}
    try:
        # pinned prefixes have to be in place before the first prefix is handed out; the lxml validator renders the
        # schemas inside Application.__init__, so applications with pinned prefixes run without it
        b = build_app(spec, validator=None if spec.get('pins') else 'lxml', record=record, returns=returns)
        wsgi = WsgiApplication(b.app)
        wsgi.doc.wsdl11.build_interface_document(URL)
    except Exception as e:
        # the validating server compiles the very schemas that are embedded in the WSDL
        return [('server-schema', None, '%s: %s' % (type(e).__name__, str(e)[:200]))]
    fails = []
    if not spec.get('pins'):
        # the document the validating server publishes is the document of the application, whatever the validator
        served = wsgi.doc.wsdl11.get_interface_document()
        if served != wsdl_bytes:
            fails.append(('validator-changes-wsdl', None, 'the WSDL served with validator=lxml differs from the one built without '
                          'a validator: %r' % (first_diff(wsdl_bytes.decode('utf8', 'replace'), served.decode('utf8', 'replace')),)))
        wsdl_bytes = served

    class T(Transport):
        def post(self, address, message, headers):
            st, hd, out = wsgi_call(wsgi, 'POST', message, headers)
            class R(object):
                pass
            r = R()
            r.status_code, r.content, r.headers, r.encoding = int(st.split()[0]), out, hd, 'utf-8'
            return r
    d = os.path.join(core.VERIF, '.scratch', str(os.getpid()))
    os.makedirs(d, exist_ok=True)
    path = os.path.join(d, 'app.wsdl')
    open(path, 'wb').write(wsdl_bytes)
    try:
        client = zeep.Client(path, transport=T())
    except Exception as e:
        return [('load', None, '%s: %s' % (type(e).__name__, str(e)[:200]))]
    finally:
        os.unlink(path)
    tns = spec['tns']
    tmap = dict((t['name'], t) for t in spec['types'])
    for s in spec['services']:
        for m in s['methods']:
            op = m.get('op') or m['fn']
            proxy = None
            for sv in client.wsdl.services.values():
                for port in sv.ports.values():
                    if op in port.binding._operations:
                        proxy = client.bind(sv.name, port.name)
            if proxy is None:
                fails.append(('no-operation', op, 'the client generated from the WSDL has no operation of that name'))
                continue
            body = m.get('body', 'wrapped')
            sent = [(k, T_, gen_value(rng, spec, T_)) for k, T_ in m['params']]
            rets = m.get('returns')
            rT = rets if isinstance(rets, list) else ([rets] if rets is not None else [])
            rv = [gen_value(rng, spec, x) for x in rT]
            if rets is None:
                returns[m['fn']] = lambda: None
            elif isinstance(rets, list):
                returns[m['fn']] = lambda rT=rT, rv=rv: tuple(to_spyne(spec, b.env, x, v) for x, v in zip(rT, rv))
            else:
                returns[m['fn']] = lambda rT=rT, rv=rv: to_spyne(spec, b.env, rT[0], rv[0])
            kw, args = {}, []
            if body == 'bare' and sent:
                k, T_, v = sent[0]
                z = to_zeep(spec, b.env, T_, v)
                if isinstance(z, dict) and 'c' in T_:
                    kw = z
                else:
                    args = [z]
            else:
                pub = dict(m.get('arg_names') or {})
                kw = dict((pub.get(k, k), to_zeep(spec, b.env, T_, v)) for k, T_, v in sent)
            hnames = m.get('in_header') or s.get('in_header')
            hvals = None
            if hnames:
                hvals = [(h, gen_value(rng, spec, {'c': h})) for h in hnames]
                try:
                    kw['_soapheaders'] = [client.get_element('{%s}%s' % (tmap[h].get('ns') or tns, h))(**to_zeep(spec, b.env, {'c': h}, v))
                                          for h, v in hvals]
                except Exception as e:
                    fails.append(('header-element', op, '%s: %s' % (type(e).__name__, str(e)[:200])))
                    continue
            del record[:]
            try:
                r = getattr(proxy, op)(*args, **kw) if re.match(r'^[A-Za-z_]\w*$', op) else proxy[op](*args, **kw)
            except Exception as e:
                fails.append(('call', op, '%s: %s' % (type(e).__name__, str(e)[:300])))
                continue
            ctx.cov['traces_validated_against_impl'] += 1
            # the server accepted the request and decoded what was sent
            if len(record) != 1 or record[0][0] != m['fn']:
                fails.append(('dispatch', op, 'user function calls: %r' % [x[0] for x in record]))
                continue
            got = [from_spyne(spec, T_, a) for (k, T_, v), a in zip(sent, record[0][1])]
            want = [norm(v) for k, T_, v in sent]
            if [norm(x) for x in got] != want:
                # value fidelity of the request is property C01's subject; C07 asks that the server accepts the request
                ctx.hit('note:request-values-differ-after-decoding')
            if hvals and len(hvals) == 1:
                hg = norm(from_spyne(spec, {'c': hvals[0][0]}, record[0][2]))
                if hg != norm(hvals[0][1]):
                    ctx.hit('note:header-values-differ-after-decoding')
            # the client decodes the reply to the value returned
            if hasattr(r, 'body') and hasattr(r, 'header') and (m.get('out_header') or s.get('out_header')):
                r = r.body
            r = serialize_object(r, dict)
            if not rT:
                ok = r is None or r == {} or r == ''
                if not ok:
                    fails.append(('reply', op, 'expected nothing, client decoded %r' % (r,)))
                continue
            want = [norm(v) for v in rv]
            if isinstance(rets, list):
                names = ['%sResult%d' % (m['fn'], i) for i in range(len(rT))]
                dec = [norm(from_zeep(spec, b.env, x, (r or {}).get(n))) for x, n in zip(rT, names)]
                ok = dec == want
            else:
                wrapper_key = m.get('out_var') or (m['fn'] + 'Result')
                if body == 'wrapped' and isinstance(r, dict) and list(r.keys()) == [wrapper_key]:
                    r = r[wrapper_key]          # zeep keeps the wrapper when the reply also has headers
                ok, dec = unwrap_eq(spec, b.env, rT[0], r, rv[0])
            if not ok:
                fails.append(('reply', op, 'server returned %r, client decoded %r' % (want, dec)))
    return fails


def unwrap_eq(spec, env, T, r, v, depth=0):
    """zeep removes wrapper objects that have a single child element and no attribute; compare type-directed at
       every level such an unwrapping may have stopped"""
    dec = norm(from_zeep(spec, env, T, r))
    if dec == norm(v):
        return True, dec
    if 'c' in T and isinstance(v, dict) and depth < 3:
        fs = spec_fields(spec, T['c'])
        if len(fs) == 1 and 'attr' not in fs[0][1]:
            return unwrap_eq(spec, env, fs[0][1], r, v.get(fs[0][0]), depth + 1)[0], dec
    return False, dec


def norm(v):
    """canonical comparable form: absent == None, empty containers == None, Decimal/date by text"""
    if isinstance(v, dict):
        d = dict((k, norm(x)) for k, x in v.items())
        d = dict((k, x) for k, x in d.items() if x is not None)
        return d or None
    if isinstance(v, (list, tuple)):
        l = [norm(x) for x in v]
        return l or None
    if isinstance(v, D):
        return 'D:' + format(v.normalize(), 'f')
    if isinstance(v, (pydt.date, pydt.datetime)):
        return v.isoformat()
    if isinstance(v, (bytes, bytearray)):
        return 'B:' + bytes(v).hex()
    return v


# ====================================================================================== T1 facts
def _spec(sid):
    return [s for s in boundary_specs() if s['id'] == sid][0]


def measure_facts():
    import spyne.const.xml as X
    from lxml import etree
    f = {}
    # --- iteration over interface.imports[ns]
    f['importsIter'] = 'other'
    U = {'p': 'Unicode'}
    for attempt in range(16):
        names = ['ns.%s%d' % (c, attempt) for c in 'wxyz']
        spec = {'id': 'imp', 'tns': 'tns.main', 'name': 'App',
                'types': [{'k': 'complex', 'name': 'N%d' % i, 'ns': n, 'fields': [['x', U]]} for i, n in enumerate(names)],
                'services': [{'name': 'S', 'methods': [{'fn': 'f', 'params': [['a%d' % i, {'c': 'N%d' % i}] for i in range(4)], 'returns': U}]}]}
        b = build_app(spec)
        hashed = list(b.app.interface.imports['tns.main'])
        if hashed == sorted(hashed):
            continue
        doc, _ = parse_wsdl(build_wsdl(b.app))
        got = doc['schemas'][0]['imports']
        f['importsIter'] = 'sorted' if got == sorted(hashed) else ('hashOrder' if got == hashed else 'other')
        f['importsWitness'] = {'spec': spec, 'set_order': hashed, 'written': got}
        break
    # --- ties between members of one toposort tier
    from spyne.util.toposort import toposort2
    from spyne.util.oset import oset

    class X_(object):
        def __init__(self, h): self.h = h
        def __hash__(self): return self.h
        def __repr__(self): return 'X'
    a, b2, c = X_(1), X_(2), X_(3)
    try:
        r1 = list(toposort2({b2: set(), a: set()}))
        r3 = list(toposort2({c: oset([b2, a])}))
        cont = b_app_deps_factory()()
        cont.add(b2); cont.add(a)
        ordered_container = list(cont) == [b2, a]
        if r1 == [[b2, a]] and r3 == [[b2, a], [c]] and ordered_container:
            f['tierTies'] = 'insertion'
        elif r1 == [[a, b2]]:
            f['tierTies'] = 'hashOrder'
        else:
            f['tierTies'] = 'hashOrder' if not ordered_container else 'other'
    except TypeError:
        f['tierTies'] = 'hashOrder'      # set-only operations inside toposort2: unordered containers throughout
    # --- soap:header/@message
    doc, _ = parse_wsdl(build_wsdl(build_app(_spec('b-header-foreign')).app))
    ns = dict(doc['nsdecl'])
    msg = doc['bindings'][0]['ops'][0]['inHeaders'][0]['message']
    f['headerMsgNs'] = {'tns.main': 'tns', 'ns.h': 'headerNs'}.get(ns.get(msg.split(':')[0]), 'other')
    # --- portType of an operation
    doc, _ = parse_wsdl(build_wsdl(build_app(_spec('b-porttypes-2')).app))
    where = dict((pt['name'], [o['name'] for o in pt['ops']]) for pt in doc['portTypes'])
    f['opPortType'] = 'own' if where == {'P1': ['f'], 'P2': ['g']} else ('lastDeclared' if where == {'P1': [], 'P2': ['f', 'g']} else 'other')
    # --- add_method: namespace of a declared fault that has an explicit __namespace__
    b = build_app(_spec('b-fault-ns'))
    f['faultNs'] = {'tns.main': 'forcedTns', 'urn:c07:faultlib': 'keptDeclared'}.get(b.env['OutOfStock'].get_namespace(), 'other')
    # --- scope of the set of message names already emitted
    doc, _ = parse_wsdl(build_wsdl(build_app(_spec('b-shared-3svc')).app))
    names = [m['name'] for m in doc['messages']]
    f['messageDedup'] = 'perDocument' if len(names) == len(set(names)) else \
        ('perService' if names.count('NotFound') == 3 and names.count('H') == 3 else 'other')
    # --- class -> handler tables: which base of `class X(Mixin, ComplexModel)` decides
    ok = {}
    for pos in ('before', 'after'):
        doc, _ = parse_wsdl(build_wsdl(build_app(_spec('b-mixin-' + pos)).app))
        tnames = [t['name'] for sc in doc['schemas'] for t in sc['types']]
        ok[pos] = 'Tagged' in tnames and 'Sub' in tnames
    f['handlerLookup'] = {(True, True): 'spyneBase', (True, False): 'lastBase', (False, True): 'firstBase'}.get((ok['before'], ok['after']), 'other')
    f['staticPrefixesClean'] = not any(re.match(r'^s\d+$', p) or p == 'tns' for p in X.NSMAP)
    return f


def b_app_deps_factory():
    from spyne.interface import Interface
    from spyne.application import Application
    b = build_app(_spec('b-min'))
    return b.app.interface.deps.default_factory


GOOD = {'importsIter': 'sorted', 'tierTies': 'insertion', 'headerMsgNs': 'tns', 'opPortType': 'own', 'faultNs': 'forcedTns',
        'messageDedup': 'perDocument', 'handlerLookup': 'spyneBase', 'staticPrefixesClean': True}
WITNESS = {
    'importsIter': ('b-4ns', 'determinism', 'the order of <xs:import> follows the iteration order of a set of namespace strings: '
                    'the WSDL bytes change with PYTHONHASHSEED'),
    'tierTies': ('b-ties', 'determinism', 'classes with the same repr() in one toposort tier are ordered by a set of class objects '
                 '(memory addresses): prefix numbering and schema order change with the memory layout of the process'),
    'headerMsgNs': ('b-header-foreign', 'closed', 'soap:header/@message carries the prefix of the header class\' namespace, '
                    'the wsdl:message lives in the target namespace: the QName does not resolve'),
    'opPortType': ('b-porttypes-2', 'ops', 'with several port types every wsdl:operation lands in the last portType; '
                   'the binding of the method\'s own portType has an operation the portType lacks'),
    'faultNs': ('b-fault-ns', 'closed', 'a declared fault keeps its own __namespace__: wsdl:fault/@message is written with that '
                'namespace\'s prefix while the wsdl:message is defined in the target namespace'),
    'messageDedup': ('b-shared-3svc', 'closed', 'the set of emitted message names is reset per service: services that share a '
                     'header or fault class produce duplicate wsdl:message definitions'),
    'handlerLookup': ('b-mixin-after', 'closed', 'a class that lists a plain mixin next to its spyne base (after it when the bases are '
                      'tried from the last one, before it when from the first) resolves to the catch-all schema handler: no '
                      'complexType is written for it and references to its type dangle'),
    'staticPrefixesClean': ('b-min', 'closed', 'a static prefix collides with generated s<k> prefixes'),
}


def facts_lean(f):
    return '''-- GENERATED by harness/c07.py (T1) from /repo on every run. Do not edit.
import SpyneModel.Wsdl
namespace SpyneModel.Generated
open SpyneModel.Wsdl

def facts07 : Facts07 where
  importsIter := .%s
  tierTies := .%s
  headerMsgNs := .%s
  opPortType := .%s
  faultNs := .%s
  messageDedup := .%s
  handlerLookup := .%s
  staticPrefixesClean := %s

end SpyneModel.Generated
''' % (f['importsIter'], f['tierTies'], f['headerMsgNs'], f['opPortType'], f['faultNs'], f['messageDedup'], f['handlerLookup'], 'true' if f['staticPrefixesClean'] else 'false')


# ====================================================================================== fresh processes
def worker():
    """child process: rebuild every spec read from stdin and print the digests of the WSDL bytes"""
    import logging
    logging.disable(logging.CRITICAL)
    n = int(os.environ.get('C07_PERTURB') or 0)
    junk = [type('J%d' % i, (object,), {}) for i in range(n)]      # shifts the addresses of everything created later
    specs = json.load(sys.stdin)
    dump = os.environ.get('C07_DUMP')
    out = []
    for sp in specs:
        try:
            data = build_wsdl(build_app(sp).app)
            out.append(data.decode('utf8') if dump else [hashlib.sha1(data).hexdigest(), len(data)])
        except Exception as e:
            out.append('error:%s' % type(e).__name__)
    del junk
    json.dump(out, sys.stdout)


def run_children(specs, configs, dump=False):
    """configs: list of (hashseed, perturb); returns {config: [digest per spec]}; at most nproc children at a time"""
    n = max(2, (os.cpu_count() or 4))
    if len(configs) > n:
        out = {}
        for i in range(0, len(configs), n):
            out.update(run_children(specs, configs[i:i + n], dump))
        return out
    procs = []
    for seed, pert in configs:
        env = dict(os.environ, PYTHONHASHSEED=str(seed), C07_PERTURB=str(pert), PYTHONWARNINGS='ignore')
        if dump:
            env['C07_DUMP'] = '1'
        else:
            env.pop('C07_DUMP', None)
        p = subprocess.Popen([sys.executable, '-B', '-c', 'import harness.c07 as m; m.worker()'], cwd=core.VERIF, env=env,
                             stdin=subprocess.PIPE, stdout=subprocess.PIPE, stderr=subprocess.PIPE, text=True)
        procs.append(((seed, pert), p))
    payload = json.dumps(specs)
    import threading
    res = {}

    def feed(cfg, p):
        out, err = p.communicate(payload)
        res[cfg] = (p.returncode, out, err)
    ths = [threading.Thread(target=feed, args=cp) for cp in procs]
    [t.start() for t in ths]; [t.join() for t in ths]
    final = {}
    for cfg, (rc, out, err) in res.items():
        if rc != 0:
            raise core.Infra('child process %r failed: %s' % (cfg, err[-1500:]))
        final[cfg] = json.loads(out)
    return final


def first_diff(a, b):
    i = next((k for k in range(min(len(a), len(b))) if a[k] != b[k]), min(len(a), len(b)))
    return {'offset': i, 'a': a[max(0, i - 120):i + 120], 'b': b[max(0, i - 120):i + 120]}


# ====================================================================================== run
def strip_model_doc(d):
    """the reserved prefix `xml` is never declared in a document"""
    d = dict(d)
    d['nsdecl'] = [x for x in d['nsdecl'] if x[0] != 'xml']
    return d


def analyse(ctx, spec, rng, with_zeep=True):
    """everything that is evaluated in-process for one application; returns None when the spec is not an application"""
    try:
        b = build_app(spec)
    except Exception as e:
        ctx.hit('spec-rejected:' + type(e).__name__)
        if str(spec.get('id', '')).startswith('b-') and not spec.get('invalid'):
            # the boundary applications are valid declarations: refusing one is a failure, not a skipped case
            ctx.finding('build:rejected:' + type(e).__name__, 'the application %s is refused: %s' % (spec['id'], str(e)[:200]),
                        {'check': 'build', 'spec': spec})
        return None
    try:
        st, order = extract_istate(b.app)
        tiers = real_tiers(b.app, order)
    except core.Infra:
        raise
    except Exception as e:
        ctx.finding('build:interface:' + type(e).__name__, 'the populated Interface cannot be read/toposorted: %s' % e,
                    {'check': 'build', 'spec': spec})
        return None
    enumS = [list(v) for v in b.app.interface.imports.values()]
    res = {'spec': spec, 'istate': st, 'tiers': tiers}
    try:
        data = build_wsdl(b.app)
    except Exception as e:
        if spec.get('invalid'):
            ctx.hit('invalid-spec-rejected-at-build:' + type(e).__name__)
            return None
        res['build_crash'] = type(e).__name__
        return res
    res['data'] = data
    res['sha'] = hashlib.sha1(data).hexdigest()
    res['query'] = dict(st, op='gen', url=URL, enumS=enumS,
                        enumN=[x for t in tiers for x in t] if isinstance(tiers, list) else [])
    # ---- T3 in-process
    try:
        res['real'], res['order_ok'] = parse_wsdl(data)
        res['wellformed'] = True
    except Exception as e:
        res['wellformed'] = False
        return res
    res['unresolved'] = resolve_all(data)
    res['ops'] = ops_check(data, b.app)
    res['imports_missing'] = imports_check(data)
    res['duplicates'] = duplicates(data)
    res['extra'] = extra_checks(spec, data) if str(spec.get('id', '')).startswith('b-') else []
    res['zeep'] = zeep_roundtrip(ctx, spec, data, rng) if with_zeep else []
    return res


def foreign_msg_ns(spec):
    return any(str(m.get(k) or '').startswith('{') for s_ in spec['services'] for m in s_['methods'] for k in ('in_msg', 'out_msg'))


def shared_default_service(spec):
    names = [s_.get('service_name') for s_ in spec['services'] if s_.get('service_name') and not s_.get('port_types')]
    return len(names) != len(set(names))


def input_class(spec, text):
    """suffix for finding ids: the failure concerns a class that lists a plain mixin next to its spyne base, a message
       that was given a namespace of its own, or services without port types that share a service name"""
    if foreign_msg_ns(spec):
        return ':message-foreign-ns'
    for pos in ('after', 'before'):
        names = [t['name'] for t in spec['types'] if t.get('mixin') == pos]
        for _ in spec['types']:        # classes derived from such a class inherit the problem
            names += [t['name'] for t in spec['types'] if t.get('base') in names and t['name'] not in names]
        if any(re.search(r'(^|[^A-Za-z0-9_])%s($|[^A-Za-z0-9_])' % re.escape(n), text or '') for n in names):
            return ':mixin-%s-base' % pos
    return ''


def extra_checks(spec, data):
    """configuration dimensions of the document builders, on the boundary applications: rebuilding on the same
       interface, the xml-stylesheet option, the stand-alone XmlSchema documents, a missing transport"""
    from lxml import etree
    from spyne.interface.wsdl import Wsdl11
    from spyne.interface.xml_schema import XmlSchema
    bad = []
    b = build_app(spec)
    first = build_wsdl(b.app)
    if first != data:
        bad.append(('rebuild', 'a second application object of the same declarations renders different bytes'))
    if build_wsdl(b.app) != first:
        bad.append(('rebuild', 'rendering the same interface twice yields different bytes'))
    w = Wsdl11(b.app.interface, xsl_href='wsdl-viewer.xsl?a=1&b=<2>')
    w.build_interface_document(URL)
    styled = w.get_interface_document()
    try:
        root = etree.fromstring(styled)
        pis = [n for n in root.itersiblings(preceding=True)]
        if len(pis) != 1 or pis[0].target != 'xml-stylesheet':
            bad.append(('xsl', 'no xml-stylesheet processing instruction before the root element'))
        if etree.tostring(root) != etree.tostring(etree.fromstring(first)):
            bad.append(('xsl', 'the document with xsl_href differs from the plain one beyond the processing instruction'))
    except etree.XMLSyntaxError as e:
        bad.append(('xsl', 'not well-formed with xsl_href: %s' % e))
    if not spec.get('pins'):
        from spyne.server.wsgi import WsgiApplication
        for v in ('lxml', 'soft'):
            try:
                wa = WsgiApplication(build_app(spec, validator=v).app)
                wa.doc.wsdl11.build_interface_document(URL)
                if wa.doc.wsdl11.get_interface_document() != data:
                    bad.append(('validator', 'with validator=%r the served WSDL differs from the one built without a validator' % v))
            except Exception as e:
                bad.append(('validator', 'with validator=%r the WSDL cannot be built: %s: %s' % (v, type(e).__name__, str(e)[:150])))
    xs = XmlSchema(b.app.interface)
    xs.build_interface_document()
    alone = sorted(etree.tostring(v) for v in xs.get_interface_document().values())
    emb = sorted(etree.tostring(v) for v in etree.fromstring(first).iter(_q(NS_XSD, 'schema')))
    if [hashlib.sha1(x).hexdigest() for x in map(_strip_nsdecl, alone)] != [hashlib.sha1(x).hexdigest() for x in map(_strip_nsdecl, emb)]:
        bad.append(('standalone-schema', 'XmlSchema.get_interface_document() differs from the schemas embedded in the WSDL'))
    tdefs = set((sc.get('targetNamespace'), t.get('name')) for sc in etree.fromstring(first).iter(_q(NS_XSD, 'schema'))
                for t in sc if isinstance(t.tag, str) and etree.QName(t).localname in ('complexType', 'simpleType'))
    for c in b.app.classes:
        if (c.get_namespace(), c.get_type_name()) not in tdefs:
            bad.append(('extra-class-missing', 'Application(classes=[%s]) is not defined in the schemas' % c.get_type_name()))
    b.app.transport = None
    try:
        build_wsdl(b.app)
        bad.append(('transport', 'a WSDL was built although the application has no transport'))
    except Exception:
        pass
    return bad


def _strip_nsdecl(c14n):
    """canonical form without the namespace declarations (they depend on where the element is attached)"""
    return re.sub(rb' xmlns:[\w.-]+="[^"]*"', b'', c14n)


def report_t3(ctx, r):
    spec = r['spec']
    if 'build_crash' in r:
        ctx.finding('build:crash:' + r['build_crash'], 'building the WSDL raises ' + r['build_crash'], {'check': 'build', 'spec': spec})
        return
    if not r['wellformed']:
        ctx.finding('wellformed', 'the WSDL bytes are not well-formed XML', {'check': 'wellformed', 'spec': spec})
        return
    if not r['order_ok']:
        ctx.finding('wellformed:child-order', 'definitions/schema children are not in schema order', {'check': 'wellformed', 'spec': spec})
    for kind, val, why in r['unresolved']:
        ctx.hit('t3-fail:closed:' + kind)
        ctx.finding('closed:' + kind + input_class(spec, val + ' ' + why), 'QName reference %s="%s" does not resolve: %s' % (kind, val, why),
                    {'check': 'closed', 'spec': spec, 'reference': val, 'reason': why})
    for kind, what in r.get('extra') or ():
        ctx.hit('t3-fail:config:' + kind)
        ctx.finding('config:' + kind + input_class(spec, ''), what, {'check': 'config', 'spec': spec})
    for kind, name, k in r['duplicates']:
        ctx.hit('t3-fail:closed:duplicate-definition:' + kind)
        if kind == 'port' and shared_default_service(spec):
            kind = 'port:shared-service-name'
        ctx.finding('closed:duplicate-definition:' + kind, '%s %r is defined %d times: references to it are ambiguous' % (kind, name, k),
                    {'check': 'closed', 'spec': spec, 'reference': name, 'reason': 'defined %d times' % k})
    for tns, val, ns in r['imports_missing']:
        ctx.hit('t3-fail:closed:import-missing')
        ctx.finding('closed:import-missing', 'schema %s refers to %s but does not import namespace %s' % (tns, val, ns),
                    {'check': 'closed', 'spec': spec, 'reference': val, 'reason': 'namespace not imported'})
    for why, op, det in r['ops']:
        ctx.hit('t3-fail:ops:' + why)
        ctx.finding('ops:' + why, 'operation %r: %s (%r)' % (op, why, det), {'check': 'ops', 'spec': spec, 'operation': op, 'detail': det})
    for stage, op, det in r['zeep']:
        ctx.hit('t3-fail:zeep:' + stage)
        ctx.finding('zeep:' + stage + input_class(spec, str(det)), 'zeep client built from the WSDL alone, operation %r: %s' % (op, det),
                    {'check': 'zeep', 'spec': spec, 'operation': op, 'detail': det})


def spec_features(ctx, spec, r):
    nss = set(t.get('ns') for t in spec['types'] if t.get('ns'))
    ctx.hit('apps')
    ctx.hit('services:%d' % len(spec['services']))
    ctx.hit('namespaces:%d' % (1 + len(nss)))
    for s in spec['services']:
        if s.get('port_types'):
            ctx.hit('porttypes:%d' % len(s['port_types']))
        if s.get('in_header') or s.get('out_header'):
            ctx.hit('service-header')
        for m in s['methods']:
            ctx.hit('body:' + m.get('body', 'wrapped'))
            for k in ('op', 'in_msg', 'out_msg', 'out_var', 'throws', 'in_header', 'out_header', 'doc', 'srpc', 'introspect',
                      'faults_kw', 'throws_single', 'arg_names', 'part', 'soap_style'):
                if m.get(k):
                    ctx.hit('method:' + k)
    txt = json.dumps(spec['types'])
    for k in ('"data"', '"iter"', '"use"', '"mixin"', '"doc"', 'ByteArray', 'pattern', 'total_digits', '"gt"'):
        if k in txt:
            ctx.hit('types:' + k.strip('"'))
    for k in ('pins', 'extra'):
        if spec.get(k):
            ctx.hit('app:' + k)
    if len(set(s_.get('service_name') for s_ in spec['services'] if s_.get('service_name'))) < len([1 for s_ in spec['services'] if s_.get('service_name')]):
        ctx.hit('app:shared-service-name')
    reprs = {}
    for c in r['istate']['classes']:
        reprs.setdefault(c['repr'], set()).add((c['ns'], c['tn']))
    if any(len(v) > 1 for v in reprs.values()):
        ctx.hit('same-repr-different-class')


def run(ctx):
    rng = ctx.rng
    # ---- T1
    f = measure_facts()
    ctx.facts = f
    ctx.write_generated('Facts07.lean', facts_lean(f))
    for k, good in GOOD.items():
        if f[k] != good:
            sid, check, what = WITNESS[k]
            if k == 'handlerLookup' and f[k] == 'firstBase':
                sid = 'b-mixin-before'
            ctx.hit('fact-bad:' + k)
            ctx.finding('switch:%s=%s' % (k, f[k]), what, {'check': check, 'spec': _spec(sid), 'fact': k, 'measured': f[k], 'good': good})
    # ---- proof
    ctx.prove()

    # ---- cases
    specs = boundary_specs() + [gen_spec(rng, i) for i in range(500 if ctx.thorough else 110)]
    results = []
    for spec in specs:
        r = analyse(ctx, spec, rng)
        if r is None:
            continue
        results.append(r)
        spec_features(ctx, spec, r)
        ctx.case({'spec': spec['id'], 'sha': r.get('sha'), 'n_classes': len(r['istate']['classes'])},
                 nontrivial=len(r['istate']['classes']) >= 3)
        report_t3(ctx, r)

    # ---- T3: byte identity over fresh processes x hash seeds x memory layouts
    good = [r for r in results if 'sha' in r]
    if ctx.thorough:
        configs = [(s, p) for s in range(16) for p in (0, 3, 11)] + [(0, 0)]
    else:
        configs = [(0, 0), (1, 0), (2, 0), (0, 0), (0, 5), (1, 13)]
    # (0,0) twice: plain repetition
    uniq = []
    for c in configs:
        uniq.append((c[0], c[1], len([u for u in uniq if u[:2] == c])))
    digests = run_children([r['spec'] for r in good], [(s, p) for s, p, _ in uniq if _ == 0])
    if any(k == 1 for _, _, k in uniq):
        rep = run_children([r['spec'] for r in good], [(0, 0)])
        digests[(0, 0, 'repeat')] = rep[(0, 0)]
    ctx.cov['fresh_process_configs'] = len(digests)
    for i, r in enumerate(good):
        seen = dict((cfg, d[i]) for cfg, d in digests.items())
        seen[('in-process',)] = [r['sha'], len(r['data'])]
        ctx.cov['evaluations'] += len(digests)
        vals = set(json.dumps(v) for v in seen.values())
        if len(vals) > 1:
            cfgs = sorted((k for k in seen if len(k) == 2), key=lambda k: (k[1], k[0]))
            by_seed = any(seen[a] != seen[b] for a in cfgs for b in cfgs if a[1] == b[1])
            by_layout = any(seen[a] != seen[b] for a in cfgs for b in cfgs if a[0] == b[0])
            rep = seen.get((0, 0, 'repeat'))
            kind = 'hashseed' if by_seed else ('layout' if by_layout else
                                               ('repetition' if rep is not None and rep != seen.get((0, 0)) else 'hashseed'))
            ctx.hit('t3-fail:determinism:' + kind)
            ctx.finding('determinism:' + kind, 'the WSDL bytes of application %s differ between fresh processes (%s): %d distinct documents'
                        % (r['spec']['id'], kind, len(vals)),
                        {'check': 'determinism', 'spec': r['spec'], 'digests': dict((str(k), v) for k, v in seen.items())})
        else:
            ctx.hit('determinism-ok')

    # ---- T2: the model on the same interface states
    answers = ctx.model([r['query'] for r in good])
    for r, mod in zip(good, answers):
        if 'driver_error' in mod:
            raise core.Infra('driver error: %r' % (mod,))
        sid = r['spec']['id']
        if 'ok' not in mod:
            ctx.disagree('gen', {'spec': r['spec']}, 'document built', mod)
            continue
        bad_pos = {'lastBase': 'after', 'firstBase': 'before'}.get(ctx.facts.get('handlerLookup'))
        explained = bad_pos and input_class(r['spec'], ' '.join(t['name'] for t in r['spec']['types'])) == ':mixin-%s-base' % bad_pos
        if not mod.get('wf') and not explained and not foreign_msg_ns(r['spec']):      # (a contract failure caused by the measured handler lookup is reported by T3)
            ctx.disagree('wf', {'spec': r['spec']}, 'interface state of a real application',
                         {'wf': False, 'classes': mod.get('wfBadCls'), 'methods': mod.get('wfBadMeth')})
        if mod['tiers'] != r['tiers']:
            key = lambda t: [[(r['istate']['classes'][i]['repr'], r['istate']['classes'][i]['ns'], r['istate']['classes'][i]['tn'])
                              for i in tier] for tier in t] if isinstance(t, list) else t
            if key(mod['tiers']) != key(r['tiers']):
                ctx.disagree('toposort', {'spec': r['spec']}, r['tiers'], mod['tiers'])
        md = strip_model_doc(mod['ok'])
        foreign = foreign_msg_ns(r['spec'])
        if foreign:
            # `{ns}name` message names are outside the model's contract: compare everything but the prefix of the
            # operation's message references and the namespace declarations
            def loc(d):
                d = json.loads(json.dumps(d))
                for pt in d['portTypes']:
                    for o in pt['ops']:
                        o['inMsg'], o['outMsg'] = o['inMsg'].split(':')[-1], o['outMsg'].split(':')[-1]
                d['nsdecl'] = sorted(map(tuple, d['nsdecl']))
                return d
            if loc(md) == loc(r['real']):
                md = r['real']
        if md != r['real']:
            part = [k for k in r['real'] if md.get(k) != r['real'][k]]
            ctx.disagree('gen', {'spec': r['spec'], 'differs_in': part},
                         dict((k, r['real'][k]) for k in part[:1]), dict((k, md.get(k)) for k in part[:1]))
        if mod['closed'] != (not r['unresolved']) and not foreign_msg_ns(r['spec']):
            ctx.disagree('closed', {'spec': r['spec']}, r['unresolved'], mod['closed'])
        if mod.get('wfOps') and mod.get('wellDefined') != (not r['duplicates']):
            ctx.disagree('wellDefined', {'spec': r['spec']}, r['duplicates'], mod.get('wellDefined'))
        if mod['importsCover'] != (not r['imports_missing']):
            ctx.disagree('importsCover', {'spec': r['spec']}, r['imports_missing'], mod['importsCover'])
        if mod['opsOnce'] != (not r['ops']) and mod.get('wfOps'):
            ctx.disagree('opsOnce', {'spec': r['spec']}, r['ops'], mod['opsOnce'])
        ctx.cov['evaluations'] += 1
    ctx.cov['rule'] = ('case = one generated application (1..4 services, 0..4 extra namespaces, inheritance, arrays, enums, '
                       'restricted simple types, attributes, custom operation/message/result names, service- and method-level '
                       'in/out headers, faults, 1..3 port types, wrapped/bare/out_bare) plus 12 boundary applications; every case '
                       'is rendered in-process (Lean model diff of the whole document incl. prefixes and order, independent QName '
                       'resolver, xs:import oracle, operation oracle, zeep round trip of every operation against the real '
                       'WsgiApplication with lxml validation) and in fresh processes per (PYTHONHASHSEED, allocation shift) '
                       'configuration; evaluations = cases x (1 in-process + fresh-process configs + 1 model run); '
                       'distinct = distinct WSDL bytes; non-trivial = at least 3 classes in the interface')
    ctx.assumptions += ['populate_interface is not modelled: its result is the model input, its contract (IState.wf) is '
                        'evaluated on every real interface', 'zeep, lxml and CPython set iteration are oracles',
                        'memory layout is varied by defining k unrelated classes before the application in a fresh process']
    d = os.path.join(core.VERIF, '.scratch', str(os.getpid()))
    if os.path.isdir(d):
        import shutil
        shutil.rmtree(d, ignore_errors=True)


def replay(ctx, obj):
    """re-execute one recorded case on the implementation and on the model"""
    import random
    spec = obj.get('spec') or (obj.get('query') or {}).get('spec')
    print('replay of:', obj.get('what'))
    if not spec:
        print('(no application recorded: %s)' % (obj.get('broken_theorems') or obj.get('broken_correspondence')))
        return 0
    r = analyse(ctx, spec, random.Random(0))
    if r is None:
        print('the spec is rejected by spyne'); return 0
    print('application', spec['id'], 'wsdl sha1', r.get('sha'))
    print('impl  unresolved references :', r.get('unresolved'))
    print('impl  duplicate definitions :', r.get('duplicates'))
    print('impl  missing xs:import     :', r.get('imports_missing'))
    print('impl  operation oracle      :', r.get('ops'))
    print('impl  zeep round trip       :', r.get('zeep'))
    cfgs = [(0, 0), (1, 0), (2, 0), (0, 5), (1, 13)]
    dg = run_children([spec], cfgs)
    print('impl  digests per (hashseed, allocation shift):', dict((k, v[0]) for k, v in dg.items()))
    if len(set(json.dumps(v[0]) for v in dg.values())) > 1:
        dumps = run_children([spec], cfgs, dump=True)
        base = dumps[cfgs[0]][0]
        for c in cfgs[1:]:
            if dumps[c][0] != base:
                print('first difference %r vs %r:' % (cfgs[0], c), first_diff(base, dumps[c][0]))
                break
    mod = ctx.model([r['query']])[0]
    print('model closed=%s opsOnce=%s wf=%s doc-equal=%s' % (mod.get('closed'), mod.get('opsOnce'), mod.get('wf'),
                                                                'ok' in mod and strip_model_doc(mod['ok']) == r.get('real')))
    return 0
