"""C14 — event hooks fire in documented order, exactly once, on success and failure.

T1: the event sequence of every anchored function (MethodContext.__init__/close, Application.process_request,
    ServerBase.generate_contexts / get_in_object / finalize_context, WsgiApplication.handle_rpc's
    serialisation-failure branch, the protocols' after_serialize on faults), measured on the real objects
    -> SpyneModel/Generated/Facts14.lean
Proof: Props/C14.lean (pipeline theorems = whole finite table on the regenerated facts; listener algebra and
    lifting to worlds by induction)
T2: model-vs-implementation: (a) EventManager / ServiceBaseMeta registration histories, (b) full listener
    traces of the real pipeline (ServerBase call sequence and WsgiApplication) for every protocol family with
    recording listeners on every manager and failures injected at every stage, (c) the Python copies of the
    automaton and of `truth` against their Lean originals
T3: the property itself on the real trace: automaton over what the first application-level listener sees,
    against what really happened in the call.
"""
import io
import json
import logging

from . import core

METHOD_EVENTS = ['method_context_created', 'method_call', 'method_return_object', 'method_exception_object',
                 'method_return_document', 'method_exception_document', 'method_return_string',
                 'method_exception_string', 'method_context_closed']
PROT_EVENTS = ['before_deserialize', 'after_deserialize', 'before_serialize', 'after_serialize', 'serialize']
WSGI_EVENTS = ['wsgi_call', 'wsgi_return', 'wsgi_exception', 'wsgi_close']
# names the modelled pipeline must never fire on a plain request (listened to on every manager all the same)
OTHER_EVENTS = ['method_accept_document', 'method_return_push']
REDIRECT_EVENTS = ['method_redirect', 'method_redirect_exception']
WSDL_EVENTS = ['wsdl', 'wsdl_exception']
METHOD_EVENTS = METHOD_EVENTS + REDIRECT_EVENTS      # everything fired through the method context
WSGI_EVENTS = WSGI_EVENTS + WSDL_EVENTS
ALL_EVENTS = METHOD_EVENTS + PROT_EVENTS + WSGI_EVENTS + OTHER_EVENTS
LEAN_PROT_EV = {'before_deserialize': 'beforeDeserialize', 'after_deserialize': 'afterDeserialize',
                'before_serialize': 'beforeSerialize', 'after_serialize': 'afterSerialize', 'serialize': 'serialize'}
LEAN_EV = {'method_context_created': 'created', 'method_call': 'call', 'method_return_object': 'returnObject',
           'method_exception_object': 'exceptionObject', 'method_return_document': 'returnDocument',
           'method_exception_document': 'exceptionDocument', 'method_return_string': 'returnString',
           'method_exception_string': 'exceptionString', 'method_context_closed': 'closed',
           'method_redirect': 'redirect', 'method_redirect_exception': 'redirectException', 'wsdl': 'wsdl',
           'wsdl_exception': 'wsdlException', 'wsgi_call': 'wsgiCall', 'wsgi_return': 'wsgiReturn',
           'wsgi_exception': 'wsgiException', 'wsgi_close': 'wsgiClose'}
PROBE = 0          # listener id of the observer: registered first on the application's manager, never raises

IN_PROTOS = ['xml', 'soap11', 'soap12', 'json', 'yaml', 'msgpack', 'msgpackrpc', 'http']
OUT_PROTOS = ['xml', 'soap11', 'soap12', 'json', 'yaml', 'msgpack', 'msgpackrpc', 'http']
SHAPES = ['void', 'none', 'value', 'generator', 'emptyGenerator', 'ignored', 'multi']
SIGS = {'void': {'shape': 'void'}, 'single': {}, 'multi': {'shape': 'multi'}, 'outBare': {'style': 'out_bare'}}


def sig_of(case):
    return 'void' if case.get('shape') == 'void' else 'multi' if case.get('shape') == 'multi' else \
        'outBare' if case.get('style') == 'out_bare' else 'single'
SPELLINGS = ['_evmgr', '_event_manager', '_evmgrs', '_event_managers']   # singular ones first
LEAN_SPELLING = {'_evmgr': 'evmgr', '_event_manager': 'eventManager', '_evmgrs': 'evmgrs', '_event_managers': 'eventManagers'}
XML_FAMILY = ('xml', 'soap11', 'soap12')
ALT_FORM_INPUTS = ('xml', 'soap11', 'soap12', 'json')
PRE_STAGES = ['createInDoc', 'decompose', 'genContexts', 'deserialize']
FAIL_BEFORE_CALL = ['refuse'] + PRE_STAGES
STAGE_METHOD = {'createInDoc': 'create_in_document', 'decompose': 'decompose_incoming_envelope',
                'genContexts': 'generate_method_contexts', 'deserialize': 'deserialize'}
S11 = 'http://schemas.xmlsoap.org/soap/envelope/'
S12 = 'http://www.w3.org/2003/05/soap-envelope'


class Boom(Exception):
    """the non-Fault exception of the injections"""


# ------------------------------------------------------------------------------------ python copies (diffed in T2)
def first_occ(seq):
    seen, out = set(), []
    for x in seq:
        if x not in seen:
            seen.add(x); out.append(x)
    return out


def mgr_handlers(spec, ev):
    """handlers of a manager spec {'bases': [...], 'regs': [[ev,h]...]} for an event: independent spec"""
    net = []
    for b in spec.get('bases', []):
        net += mgr_handlers(b, ev)
    net += [h for e, h in spec.get('regs', []) if e == ev]
    # then the history of add / del / clear: the net registrations
    for op in spec.get('ops', []):
        if op[1] != ev or op[0] == 'fire':
            continue
        if op[0] == 'add':
            net.append(op[2])
        elif op[0] == 'del':
            net = [x for x in net if x != op[2]]
        else:
            net = []
    return first_occ(net)


def spec_fires(spec):
    """what each `fire` op of the top-level history calls: the net registrations at that moment"""
    out = []
    ops = spec.get('ops', [])
    for i, op in enumerate(ops):
        if op[0] == 'fire':
            out.append(mgr_handlers(dict(spec, ops=ops[:i]), op[1]))
    return out


def expected_fanout(world, ev):
    """MethodContext.fire_event with a descriptor: application manager, @rpc managers in order, service manager;
    up to and including the first raising listener"""
    seq = [('app', h) for h in mgr_handlers(world['app'], ev)]
    for i, m in enumerate(world['meths']):
        seq += [('meth%d' % i, h) for h in mgr_handlers(m, ev)]
    seq += [('svc', h) for h in mgr_handlers(world['svc'], ev)]
    rs = {(h, e) for h, e, k in world.get('raises', [])}
    out = []
    for l, h in seq:
        out.append([l, h])
        if (h, ev) in rs:
            break
    return out


_STEP = {
    ('start', 'method_context_created'): 'pre',
    ('pre', 'method_call'): 'called', ('pre', 'method_exception_object'): ('excObj', False, False),
    ('called', 'user'): 'ran', ('called', 'method_exception_object'): ('excObj', False, False),
    ('ran', 'method_return_object'): 'returned', ('ran', 'method_exception_object'): ('excObj', True, False),
    ('ran', 'method_redirect'): 'redirected', ('ran', 'method_redirect_exception'): ('excObj', True, False),
    ('returned', 'method_return_document'): 'retDoc1', ('returned', 'method_exception_object'): ('excObj', True, True),
    ('redirected', 'method_return_document'): 'retDoc0',
    ('retDoc1', 'method_return_string'): 'retStr1', ('retStr1', 'method_context_closed'): ('done', True, True, False),
    ('retDoc0', 'method_return_string'): 'retStr0', ('retStr0', 'method_context_closed'): ('done', True, False, False),
}


def automaton(t):
    """Python copy of SpyneModel.Events.final"""
    q = 'start'
    for s in t:
        if isinstance(q, tuple) and q[0] in ('excObj', 'excDoc', 'excStr'):
            nxt = {('excObj', 'method_exception_document'): 'excDoc', ('excDoc', 'method_exception_string'): 'excStr'}
            if (q[0], s) in nxt:
                q = (nxt[(q[0], s)], q[1], q[2])
            elif q[0] == 'excStr' and s == 'method_context_closed':
                q = ('done', q[1], q[2], True)
            else:
                q = 'reject'
        elif isinstance(q, tuple):       # done: nothing may follow
            q = 'reject'
        else:
            q = _STEP.get((q, s), 'reject')
        if q == 'reject':
            break
    if isinstance(q, tuple) and q[0] == 'done':
        return {'state': 'done', 'u': q[1], 'r': q[2], 'f': q[3]}
    return {'state': 'reject' if q == 'reject' else 'incomplete'}


def truth(stage, co, ro):
    """Python copy of SpyneModel.Events.truth"""
    pre = stage in FAIL_BEFORE_CALL
    call_fail = (not pre) and co is not None
    dispatch_fail = (not pre) and (not call_fail) and stage == 'dispatch'
    user_ran = (not pre) and (not call_fail) and not dispatch_fail
    redirected = user_ran and stage == 'redirect'
    user_fail = user_ran and stage in ('user', 'redirectFail')
    returned = user_ran and not user_fail and not redirected
    ret_fail = returned and ro is not None
    ser_fail = returned and (not ret_fail) and stage in ('serialize', 'genBody')
    return {'u': user_ran, 'r': returned, 'f': pre or call_fail or dispatch_fail or user_fail or ret_fail or ser_fail, 'serFail': ser_fail}


def fire_outcome(world, ev):
    """what firing `ev` with a descriptor raises in this world (first raising listener reached)"""
    rs = {(h, e): k for h, e, k in world.get('raises', [])}
    order = mgr_handlers(world['app'], ev)
    for m in world['meths']:
        order += mgr_handlers(m, ev)
    order += mgr_handlers(world['svc'], ev)
    for h in order:
        if (h, ev) in rs:
            return rs[(h, ev)]
    return None


# ------------------------------------------------------------------------------------ the real objects
class Env:
    """one Application with recording listeners on every manager, built from a world spec"""

    def __init__(self, inp, outp, world, user='ok', stage_inj=None, msgpack_keys='bytes', validator='soft', shape='value',
                 no_out_string=False, kind='rpc', style='wrapped', dispatch_real=None, preset=None):
        from spyne import Application, rpc, mrpc, Service, Integer, Unicode, Fault, EventManager, Iterable, Ignored, ComplexModel
        from spyne.error import Redirect
        self.names = []           # (event, ctx.method_name, ctx.service_class is not None) as the observer sees them
        self.files = []           # close() counts of the objects the function put into ctx.files
        self.kind = kind
        self.out_none = []        # after each create_out_string: is ctx.out_string None (fault path?, none?)
        self.Fault = Fault
        self.trace = []
        self.stages = []          # (stage, 'fault'|'exc', inner) for every protocol stage that raised
        self.user_calls = 0
        self.user_returns = 0
        self.world = world
        self.fns = {}
        raises = {(h, e): k for h, e, k in world.get('raises', [])}
        env = self

        def fn(level, h, ev):
            key = (level, h, ev)
            f = self.fns.get(key)
            if f is None:
                def f(ctx, *a, **kw):
                    env.trace.append([level, h, ev])
                    if level == 'app' and h == PROBE:
                        env.names.append((ev, ctx.method_name, ctx.service_class is not None))
                    k = raises.get((h, ev))
                    if k == 'fault':
                        raise Fault('Client.Listener' if len(env.trace) % 2 else 'Server.Listener', 'listener %d' % h)
                    if k == 'exc':
                        raise Boom('listener %d' % h)
                self.fns[key] = f
            return f
        self.fn = fn

        def register(mgr, level, regs, ops=()):
            for ev, h in regs:
                mgr.add_listener(ev, fn(level, h, ev))
            apply_ops(mgr, ops, lambda h, ev: fn(level, h, ev))
        self.register = register

        # service classes: bases first (with the listeners they have when the subclass is created)
        def make_class(spec, name, body=None):
            bases = tuple(make_class(b, '%sB%d' % (name, i)) for i, b in enumerate(spec.get('bases', []))) or (Service,)
            cls = type(Service)(name, bases, dict(body or {}))
            register(cls.event_manager, 'svc', spec.get('regs', []), spec.get('ops', ()))
            return cls

        meth_mgrs = []
        for i, m in enumerate(world['meths']):
            em = EventManager(None)
            register(em, 'meth%d' % i, m.get('regs', []), m.get('ops', ()))
            meth_mgrs.append(em)

        class GoodRedirect(Redirect):
            def do_redirect(self):
                self.ctx.transport.resp_code = '302 Found'

        class BadRedirect(Redirect):
            def do_redirect(self):
                raise Boom('do_redirect')

        class Closable(object):
            def __init__(self):
                self.n = 0

            def close(self):
                self.n += 1

        def do_preset(ctx):
            # user code / a listener hands over ready-made pipeline outputs (a response cache)
            if preset['what'] == 'out_document':
                if outp in XML_FAMILY:
                    from lxml import etree
                    ctx.out_document = etree.fromstring('<cached xmlns="tns">from-cache</cached>')
                else:
                    ctx.out_document = [b'from-cache'] if outp == 'http' else [{'cached': 'from-cache'}]
            else:
                ctx.out_object = ['replaced']
        self.do_preset = do_preset

        def body(ctx, a):
            env.user_calls += 1
            env.trace.append(['user'])
            if preset and preset['at'] == 'user' and preset['what'] == 'out_document':
                do_preset(ctx)
            c = Closable()
            env.files.append(c)
            ctx.files.append(c)
            if user == 'fault':
                raise Fault('Client.User', 'user')
            if user == 'exc':
                raise Boom('user')
            if user == 'redirect':
                raise GoodRedirect(ctx, 'http://elsewhere/')
            if user == 'redirectfail':
                raise BadRedirect(ctx, 'http://elsewhere/')
            env.user_returns += 1
            if user in ('genraise-fault', 'genraise-exc'):
                def g():
                    if user == 'genraise-fault':
                        raise Fault('Client.Late', 'generator body')
                    raise Boom('generator body')
                    yield 'never'
                return g()
            if user == 'unser':
                return '\x00'            # lxml refuses NUL in text
            if shape in ('void', 'none'):
                return None
            if shape == 'generator':
                return (x for x in ['r%s' % (a,), 's'])
            if shape == 'emptyGenerator':
                return (x for x in [])
            if shape == 'ignored':
                return Ignored('r%s' % (a,))
            if shape == 'multi':
                return 'r%s' % (a,), 7
            return 'r%s' % (a,)
        kw = {} if shape == 'void' else {'_returns': Iterable(Unicode)} if shape in ('generator', 'emptyGenerator') \
            else {'_returns': (Unicode, Integer)} if shape == 'multi' else {'_returns': Unicode}
        if style == 'out_bare':
            kw['_body_style'] = 'out_bare'
        self.meth_mgrs = list(meth_mgrs)     # (the descriptor appends the service class's manager to the list it is given)
        if meth_mgrs:
            sp = world.get('spelling', '_evmgrs')
            kw[sp] = meth_mgrs[0] if sp in ('_evmgr', '_event_manager') else meth_mgrs
        classes = ()
        if kind in ('mrpc', 'mrpcsvc'):
            # a method of a ComplexModel class (Application.call_wrapper's @mrpc branch): no service class manager
            if dispatch_real == 'when-false':
                kw['_when'] = lambda self, ctx: False
            if kind == 'mrpcsvc':
                # ... bound to a service class: that class's (own and inherited) listeners are heard as well
                self.owner_cls = make_class(world['svc'], 'Owner')
                kw['_service_class'] = self.owner_cls

            class Thing(ComplexModel):
                __namespace__ = 'tns'
                i = Integer
                op = mrpc(**kw)(lambda self, ctx: body(ctx, self.i))

                @classmethod
                def __respawn__(cls, ctx=None, filters=None):
                    return None if dispatch_real == 'respawn-none' else cls(i=7)
            self.method_name = 'Thing.op'
            self.thing_cls = Thing
            self.svc_cls = make_class({'regs': []} if kind == 'mrpcsvc' else world['svc'], 'Svc',
                                      {'get': rpc(_returns=Thing)(lambda ctx: None)})
            if kind == 'mrpcsvc':
                self.svc_cls, self.exposing_cls = self.owner_cls, self.svc_cls
        else:
            self.method_name = 'op'
            if style == 'empty':
                decorated = rpc(_body_style='bare', **kw)(lambda ctx: body(ctx, 5))
            elif style == 'bare':
                decorated = rpc(Integer(ge=0), _body_style='bare', **kw)(lambda ctx, a: body(ctx, a))
            else:
                decorated = rpc(Integer(ge=0), **kw)(lambda ctx, a: body(ctx, a))
            methods = {'op': decorated}
            if world.get('shared') and meth_mgrs:
                # a second method declared with the very same object (list or manager) under the same keyword
                sp = world.get('spelling', '_evmgrs')
                def other(ctx, a):
                    return 'other'
                methods['other'] = rpc(Integer, _returns=Unicode, **{sp: kw[sp]})(other)
            self.svc_cls = make_class(world['svc'], 'Svc', methods)
        self.inp = make_proto(inp, validator)
        self.outp = make_proto(outp, validator)
        self.inp_name, self.outp_name, self.msgpack_keys = inp, outp, msgpack_keys
        self.app = Application([getattr(self, 'exposing_cls', self.svc_cls)], 'tns', in_protocol=self.inp, out_protocol=self.outp)
        register(self.app.event_manager, 'app', world['app'].get('regs', []), world['app'].get('ops', ()))
        register(self.inp.event_manager, 'inprot', world['inprot'].get('regs', []), world['inprot'].get('ops', ()))
        register(self.outp.event_manager, 'outprot', world['outprot'].get('regs', []), world['outprot'].get('ops', ()))
        if preset and preset['at'] != 'user':
            self.app.event_manager.add_listener(preset['at'], lambda ctx: do_preset(ctx))      # (not part of the world)
        # stage wrappers on the protocol *instances*
        for stage, name in STAGE_METHOD.items():
            self._wrap(self.inp, name, stage, stage_inj)
        self._wrap(self.outp, 'serialize', 'serialize', stage_inj)
        real_cos = self.outp.create_out_string

        def create_out_string(ctx, *a, **kw):
            if not no_out_string:
                real_cos(ctx, *a, **kw)
            env.out_none.append((ctx.out_error is not None, ctx.out_string is None))
        self.outp.create_out_string = create_out_string
        # Application.call_wrapper (dispatch to the user function), on the instance
        real_cw = self.app.call_wrapper

        def call_wrapper(ctx):
            if stage_inj and stage_inj[0] == 'dispatch':
                env.stages.append(('dispatch', stage_inj[1], False))
                if stage_inj[1] == 'fault':
                    raise Fault('Client.Injected', 'dispatch')
                raise Boom('dispatch')
            n = env.user_calls
            try:
                return real_cw(ctx)
            except Exception as e:
                if env.user_calls == n:      # raised before the user function was entered
                    env.stages.append(('dispatch', 'fault' if isinstance(e, Fault) else 'exc', True))
                raise
        self.app.call_wrapper = call_wrapper

    def _wrap(self, proto, name, stage, stage_inj):
        real = getattr(proto, name)
        env = self

        def wrapper(ctx, *a, **kw):
            if stage == 'serialize' and ctx.out_error is not None:
                return real(ctx, *a, **kw)      # the fault response: not a stage of the injection
            if stage_inj and stage_inj[0] == stage:
                env.stages.append((stage, stage_inj[1], False))
                if stage_inj[1] == 'fault':
                    raise env.Fault('Client.Injected', stage)
                raise Boom(stage)
            try:
                return real(ctx, *a, **kw)
            except env.Fault:
                env.stages.append((stage, 'fault', True))
                raise
            except Exception:
                env.stages.append((stage, 'exc', True))
                raise
        setattr(proto, name, wrapper)

    # -------------------------------------------------------------------------------- transports
    def attach_transport(self, srv):
        self.register(srv.event_manager, 'trans', self.world['trans'].get('regs', []), self.world['trans'].get('ops', ()))

    def run_serverbase(self, body):
        """the call sequence every in-tree transport uses, nothing else (cf. spyne/server/zeromq.py)"""
        from spyne.server import ServerBase
        from spyne.context import MethodContext
        srv = ServerBase(self.app)
        self.attach_transport(srv)
        res = {'escaped': None, 'out_error': None, 'closed_ctx': None}
        try:
            ctx = MethodContext(srv, MethodContext.SERVER)
            ctx.in_string = [body]
            contexts = srv.generate_contexts(ctx)
            p_ctx = contexts[0]
            if not p_ctx.in_error:
                srv.get_in_object(p_ctx)
                if not p_ctx.in_error:
                    srv.get_out_object(p_ctx)
            srv.get_out_string(p_ctx)
            b''.join(p_ctx.out_string)
            res['out_error'] = p_ctx.out_error is not None
            p_ctx.close()
        except Exception as e:
            res['escaped'] = type(e).__name__
        return res

    def run_wsgi(self, body, http=None, chunked=True, wsdl_fails=False):
        from spyne.server.wsgi import WsgiApplication
        srv = WsgiApplication(self.app, chunked=chunked)
        if wsdl_fails:
            def boom(url):
                raise Boom('build_interface_document')
            srv.doc.wsdl11.build_interface_document = boom
        self.attach_transport(srv)
        seen = {}

        def grab(ctx, *a, **kw):     # not part of the world: remembers ctx.out_error when the context closes
            seen['out_error'] = ctx.out_error is not None
        self.app.event_manager.add_listener('method_context_closed', grab)
        environ = {'REQUEST_METHOD': 'POST', 'PATH_INFO': '/', 'SERVER_NAME': 'localhost', 'SERVER_PORT': '80',
                   'wsgi.url_scheme': 'http', 'QUERY_STRING': '', 'CONTENT_TYPE': 'text/xml; charset=utf-8',
                   'wsgi.input': io.BytesIO(body), 'CONTENT_LENGTH': str(len(body))}
        if http:
            environ.update(http)
        status = []
        res = {'escaped': None, 'out_error': None}
        try:
            ret = srv(environ, lambda s, h, exc_info=None: status.append(s))
            try:
                b''.join(ret)
            finally:
                if hasattr(ret, 'close'):
                    ret.close()
        except Exception as e:
            res['escaped'] = type(e).__name__
        res['out_error'] = seen.get('out_error')
        res['status'] = status[0] if status else None
        return res


def apply_ops(mgr, ops, fn, on_fire=None):
    """a history of add_listener / del_listener(event, handler) / del_listener(event) / fire_event(event) calls on a
    real manager; returns, per op, whether KeyError was raised"""
    raised = []
    for op in ops:
        try:
            if op[0] == 'fire':
                on_fire(mgr, op[1])
            elif op[0] == 'add':
                mgr.add_listener(op[1], fn(op[2], op[1]))
            elif op[0] == 'del':
                mgr.del_listener(op[1], fn(op[2], op[1]))
            else:
                mgr.del_listener(op[1])
            raised.append(False)
        except KeyError:
            # del_listener(event) on a name that has no dict entry: the model has no notion of "no entry" as
            # opposed to "empty set", nothing fires either way -> not compared
            raised.append(op[0] == 'del')
    return raised


# the witness scenarios of SpyneModel.Events.reentrantScenarios (handler set, one-shot programs)
REENTRANT_SCENARIOS = [([1, 3], {1: [['add', 2]]}), ([1, 2, 3], {1: [['del', 2]]}), ([1, 2], {1: [['del', 1]]}),
                       ([1, 2, 3], {1: [['del', 1], ['del', 2]]}), ([1], {1: [['del', 1], ['add', 2]]}),
                       ([1], {1: [['add', 2], ['del', 1]]}), ([1, 2], {1: [['del', 1], ['add', 1]], 2: [['add', 3]]})]


def real_refire(s, prog, limit=300):
    """one firing of a real EventManager whose listeners register / unregister listeners of the event being fired
    (each at its first call); returns (calls, what a second, quiet firing calls, exception class or None)"""
    from spyne.evmgr import EventManager
    m = EventManager(None)
    calls, ran, fns = [], set(), {}

    def fn(h):
        if h not in fns:
            def f(ctx, h=h):
                calls.append(h)
                if len(calls) > limit:
                    raise Boom('endless firing')
                if h not in ran:
                    ran.add(h)
                    for op, k in prog.get(h, []):
                        if op == 'add':
                            m.add_listener('e', fn(k))
                        else:
                            try:
                                m.del_listener('e', fn(k))
                            except KeyError:
                                pass
            fns[h] = f
        return fns[h]
    for h in s:
        m.add_listener('e', fn(h))
    exc = None
    try:
        m.fire_event('e', None)
    except Exception as e:
        exc = type(e).__name__
    first = list(calls)
    del calls[:]
    ran.update(range(1000))
    try:
        m.fire_event('e', None)
    except Exception as e:
        exc = exc or type(e).__name__
    return first, list(calls), exc


def reentrant_checks(ctx):
    """T2 + T3 for listeners that change the handler set while it fires"""
    rng = ctx.rng
    Q = []
    scen = [(s, p) for s, p in REENTRANT_SCENARIOS]
    # one-shot listeners, listeners that install a successor, at every position
    for n in (1, 2, 3, 4):
        for i in range(n):
            s = list(range(1, n + 1))
            scen += [(s, {s[i]: [['del', s[i]]]}), (s, {s[i]: [['add', 9]]}), (s, {s[i]: [['del', s[i]], ['add', 9]]}),
                     (s, {s[i]: [['add', 9], ['del', s[i]]]}), (s, {s[i]: [['del', s[(i + 1) % n]]]})]
    for _ in range(4000 if ctx.thorough else 500):
        s = rng.sample(range(1, 7), rng.randrange(0, 5))
        scen.append((s, {h: [[rng.choice(['add', 'del']), rng.randrange(1, 8)] for _ in range(rng.choice([0, 0, 1, 2, 3, 4]))]
                         for h in range(1, 8)}))
    for s, prog in scen:
        prog = {h: ops for h, ops in prog.items() if ops}
        first, second, exc = real_refire(s, prog)
        fuel = len(s) + sum(len(o) for o in prog.values()) + 2
        q = {'op': 'refire', 's': s, 'prog': [[h, ops] for h, ops in sorted(prog.items())], 'fuel': fuel}
        Q.append((q, {'ok': {'calls': first, 'live': second, 'done': True}}))
        ctx.case(q, nontrivial=bool(prog))
        ctx.hit('op:refire')
        ctx.cov['traces_validated_against_impl'] += 1
        # T3: registered before the firing and not removed during it -> called exactly once; no exception
        removed = {k for ops in prog.values() for op, k in ops if op == 'del'}
        wrong = [h for h in s if h not in removed and first.count(h) != 1]
        if exc or wrong:
            ctx.finding('listeners:reentrant', 'handlers %s, where listeners change the set while it fires (%s): called %s%s; '
                        'listeners %s were registered before and not removed but did not run exactly once' % (
                            s, json.dumps(prog), first, ', raised ' + exc if exc else '', wrong),
                        {'op': 'refire', 's': s, 'prog': {str(h): o for h, o in prog.items()}, 'calls': first, 'exception': exc})
    return Q


def oneshot_pipeline_checks(ctx, keys):
    """T3 in the real pipeline: a method_call listener that unregisters itself (and may install a successor) with one
    more listener registered after it; two requests to the same application"""
    for inp, transport, successor in (('xml', 'wsgi', False), ('json', 'serverbase', True), ('soap11', 'wsgi', True)):
        w = quiet_world()
        env = Env(inp, inp, w)
        mgr = env.app.event_manager
        seen = []

        def later(c):
            seen.append(8)

        def last(c):
            seen.append(9)

        def oneshot(c):
            seen.append(7)
            mgr.del_listener('method_call', oneshot)
            if successor:
                mgr.add_listener('method_call', later)
        mgr.add_listener('method_call', oneshot)
        mgr.add_listener('method_call', last)
        body, http = request(inp, 'ok', keys)
        got = []
        for _ in range(2):
            del seen[:]
            n = env.user_returns
            res = env.run_wsgi(body, http) if transport == 'wsgi' else env.run_serverbase(body)
            got.append((list(seen), env.user_returns - n, res['escaped']))
        want = [([7, 9] + ([8] if successor else []), 1, None), ([9] + ([8] if successor else []), 1, None)]
        ctx.case({'op': 'oneshot-pipeline', 'inp': inp, 'transport': transport, 'successor': successor})
        ctx.cov['traces_validated_against_impl'] += 1
        if got != want:
            ctx.finding('listeners:reentrant-pipeline', 'a method_call listener that unregisters itself%s, followed by another '
                        'listener: two requests show (listeners called, function runs, escaped) = %s, expected %s [%s, %s]' % (
                            ' and installs a successor' if successor else '', got, want, inp, transport),
                        {'op': 'oneshot-pipeline', 'inp': inp, 'transport': transport, 'successor': successor, 'got': got})


def make_proto(name, validator='soft'):
    from spyne.protocol.xml import XmlDocument
    from spyne.protocol.soap import Soap11, Soap12
    from spyne.protocol.json import JsonDocument
    from spyne.protocol.yaml import YamlDocument
    from spyne.protocol.msgpack import MessagePackDocument, MessagePackRpc
    from spyne.protocol.http import HttpRpc
    cls = {'xml': XmlDocument, 'soap11': Soap11, 'soap12': Soap12, 'json': JsonDocument, 'yaml': YamlDocument,
           'msgpack': MessagePackDocument, 'msgpackrpc': MessagePackRpc, 'http': HttpRpc}[name]
    return cls(validator=validator)


def request(inp, variant, msgpack_keys='bytes', kind='rpc', style='wrapped'):
    """(body bytes, extra wsgi environ) of a request to `op(a)`; `variant` in ok / unknown / badarg / a raw body"""
    import msgpack
    if isinstance(variant, (bytes, bytearray)):
        return bytes(variant), None
    if kind in ('mrpc', 'mrpcsvc') or style in ('bare', 'empty'):
        # other shapes of the method (XML family and JSON only)
        name = 'Thing.op' if kind != 'rpc' else 'op'
        if inp == 'json':
            doc = {'self': {'i': 3}} if kind != 'rpc' else (5 if style == 'bare' else {})
            return json.dumps({name: doc}).encode(), None
        inner = '<self><i>3</i></self>' if kind != 'rpc' else ('5' if style == 'bare' else '')
        call = '<%s xmlns="tns">%s</%s>' % (name, inner, name)
        if inp == 'xml':
            return call.encode(), None
        return soap_env(S11 if inp == 'soap11' else S12, '<e:Body>%s</e:Body>' % call), None
    meth = 'nosuch' if variant == 'unknown' else 'op'
    arg = 'abc' if variant == 'badarg' else 5
    if inp == 'xml':
        return ('<%s xmlns="tns"><a>%s</a></%s>' % (meth, arg, meth)).encode(), None
    if inp in ('soap11', 'soap12'):
        ns = S11 if inp == 'soap11' else S12
        return ('<e:Envelope xmlns:e="%s"><e:Body><%s xmlns="tns"><a>%s</a></%s></e:Body></e:Envelope>'
                % (ns, meth, arg, meth)).encode(), None
    if inp == 'json':
        return json.dumps({meth: {'a': arg}}).encode(), None
    if inp == 'yaml':
        import yaml
        return yaml.safe_dump({meth: {'a': arg}}).encode(), None
    if inp == 'msgpack':
        key = meth.encode() if msgpack_keys == 'bytes' else meth
        return msgpack.packb({key: {'a': arg}}), None
    if inp == 'msgpackrpc':
        return msgpack.packb([0, 0, meth, [arg]]), None
    if inp == 'http':
        return b'', {'REQUEST_METHOD': 'GET', 'PATH_INFO': '/' + meth, 'QUERY_STRING': 'a=%s' % arg}
    raise ValueError(inp)


def soap_env(ns, inner):
    return ('<e:Envelope xmlns:e="%s">%s</e:Envelope>' % (ns, inner)).encode()


def hostile_bodies(inp):
    """malformed bytes / bad envelopes per protocol family: (label, bytes)"""
    import msgpack
    if inp == 'xml':
        return [('empty', b''), ('nul', b'\x00'), ('truncated', b'<a><b></a>'), ('lt', b'<'), ('bom', b'\xff\xfe'),
                ('decl-only', b'<?xml version="1.0" encoding="utf-8"?>'), ('comment', b'<!-- c -->'),
                ('other-ns', b'<op xmlns="other"><a>5</a></op>'), ('neg', b'<op xmlns="tns"><a>-1</a></op>'),
                ('twice', b'<op xmlns="tns"><a>5</a><a>6</a></op>')]
    if inp in ('soap11', 'soap12'):
        ns = S11 if inp == 'soap11' else S12
        other = S12 if inp == 'soap11' else S11
        call = '<op xmlns="tns"><a>5</a></op>'
        return [('empty', b''), ('blank', b' '), ('truncated', b'<a><b></a>'), ('not-envelope', b'<notenv xmlns="tns"><a>5</a></notenv>'),
                ('no-body', soap_env(ns, '')), ('empty-body', soap_env(ns, '<e:Body/>')), ('header-only', soap_env(ns, '<e:Header/>')),
                ('text-body', soap_env(ns, '<e:Body>text</e:Body>')), ('comment-body', soap_env(ns, '<e:Body><!-- c --></e:Body>')),
                ('fault-body', soap_env(ns, '<e:Body><e:Fault/></e:Body>')), ('other-soap-version', soap_env(other, '<e:Body>%s</e:Body>' % call)),
                ('neg', soap_env(ns, '<e:Body><op xmlns="tns"><a>-1</a></op></e:Body>'))]
    if inp == 'json':
        return [('empty', b''), ('nul', b'\x00'), ('truncated', b'{"op": '), ('list', b'[1, 2]'), ('null', b'null'), ('number', b'5'),
                ('two-keys', b'{"op":{}, "x":{}}'), ('null-body', b'{"op": null}'), ('scalar-body', b'{"op": 5}'), ('ff', b'\xff'),
                ('neg', b'{"op": {"a": -1}}'), ('nested', b'{"op": {"a": {"b":1}}}'), ('huge', b'{"op": {"a": 1e999}}')]
    if inp == 'yaml':
        return [('empty', b''), ('nul', b'\x00'), ('truncated', b'{op: [}'), ('list', b'[1, 2]'), ('null', b'null'), ('ff', b'\xff'),
                ('quote', b'"'), ('directive', b'%'), ('at', b'- @'), ('python-tag', b'op: {a: !!python/object:os.system x}'),
                ('null-body', b'op:'), ('scalar-body', b'op: 5'), ('anchor-loop', b'a: &a [*a]')]
    if inp == 'msgpack':
        ok = msgpack.packb({b'op': {'a': 5}})
        return [('empty', b''), ('c1', b'\xc1'), ('nil', msgpack.packb(None)), ('empty-map', msgpack.packb({})), ('list', msgpack.packb([1, 2])),
                ('scalar-body', msgpack.packb({b'op': 5})), ('nil-body', msgpack.packb({b'op': None})), ('int-key', msgpack.packb({5: 5})),
                ('trailing', ok + b'\x00'), ('truncated', ok[:-1]), ('bad-utf8-key', msgpack.packb({b'\xff': {}})),
                ('neg', msgpack.packb({b'op': {'a': -1}}))]
    if inp == 'msgpackrpc':
        return [('empty', b''), ('c1', b'\xc1'), ('nil', msgpack.packb(None)), ('empty-list', msgpack.packb([])), ('map', msgpack.packb({'a': 1})),
                ('scalar', msgpack.packb(5)), ('notify', msgpack.packb([2, 0, 'op', [5]])), ('response', msgpack.packb([1, 0, 'op', [5]])),
                ('type9', msgpack.packb([9, 0, 'op', [5]])), ('five', msgpack.packb([0, 0, 'op', [5], 1])), ('int-name', msgpack.packb([0, 0, 5, [5]])),
                ('bad-utf8-name', msgpack.packb([0, 0, b'\xff', [5]])), ('scalar-params', msgpack.packb([0, 0, 'op', 5])),
                ('neg', msgpack.packb([0, 0, 'op', [-1]]))]
    return []


def run_case(case, msgpack_keys):
    """drive the real code for one case; returns the observation"""
    inj = case['inj']
    stage_inj = (inj['stage'], inj['kind']) if inj['type'] == 'forced' else None
    env = Env(case['inp'], case['outp'], case['world'], user=case['user'], stage_inj=stage_inj, msgpack_keys=msgpack_keys,
              shape=case.get('shape', 'value'), kind=case.get('kind', 'rpc'), style=case.get('style', 'wrapped'),
              dispatch_real=case.get('dispatch_real'), preset=case.get('preset'))
    if inj['type'] == 'raw':
        body, http = bytes.fromhex(inj['hex']), None
    else:
        body, http = request(case['inp'], inj.get('variant', 'ok') if inj['type'] == 'real' else 'ok', msgpack_keys,
                             case.get('kind', 'rpc'), case.get('style', 'wrapped'))
    if inj['type'] == 'refuse':
        http = dict(http or {}, **refusal_environ(inj['variant'], body))
    if inj['type'] == 'wsdl':
        http = {'REQUEST_METHOD': 'GET', 'QUERY_STRING': 'wsdl', 'PATH_INFO': '/'}
    if inj.get('environ') == 'http-header':
        http = dict(http or {}, HTTP_X_TRACE='abc', HTTP_COOKIE='k=v')
    elif inj.get('environ') == 'empty-length':
        http = dict(http or {}, CONTENT_LENGTH='')
    elif inj.get('environ') == 'short-body':
        http = dict(http or {}, CONTENT_LENGTH=str(len(body) + 10))

    def once():
        res = env.run_wsgi(body, http, case.get('chunked', True), bool(inj.get('fail'))) if case['transport'] == 'wsgi' else env.run_serverbase(body)
        res.update(trace=list(env.trace), stages=list(env.stages), user_calls=env.user_calls, user_returns=env.user_returns,
                   out_none=list(env.out_none), names=list(env.names), files=[c.n for c in env.files],
                   method_name=env.method_name)
        return res
    res = once()
    if case.get('then'):
        # more listeners are registered (and some removed) between two requests to the same application
        then = case['then']
        fn = lambda lvl: (lambda h, ev: env.fn(lvl, h, ev))
        apply_ops(env.app.event_manager, then.get('app', []), fn('app'))
        apply_ops(env.svc_cls.event_manager, then.get('svc', []), fn('svc'))
        for i, ops in enumerate(then.get('meths', [])):
            if i < len(env.meth_mgrs):
                apply_ops(env.meth_mgrs[i], ops, fn('meth%d' % i))
        del env.trace[:], env.stages[:], env.out_none[:], env.names[:], env.files[:]
        env.user_calls = env.user_returns = 0
        res['second'] = once()
    return res


def world_after(world, then):
    import copy
    w = copy.deepcopy(world)
    w['app']['ops'] = w['app'].get('ops', []) + then.get('app', [])
    w['svc']['ops'] = w['svc'].get('ops', []) + then.get('svc', [])
    for i, ops in enumerate(then.get('meths', [])):
        if i < len(w['meths']):
            w['meths'][i]['ops'] = w['meths'][i].get('ops', []) + ops
    return w


class BrokenStream(object):
    def read(self, n=-1):
        raise Boom('wsgi.input')


def refusal_environ(variant, body):
    """WSGI requests that the transport refuses while it reconstructs the input"""
    if variant == 'too-long-declared':
        return {'CONTENT_LENGTH': str(64 * 1024 * 1024)}
    if variant == 'bad-length':
        return {'CONTENT_LENGTH': 'abc'}
    if variant == 'negative-length-text':
        return {'CONTENT_LENGTH': '1e3'}
    if variant == 'stream-error':
        return {'wsgi.input': BrokenStream(), 'CONTENT_LENGTH': str(max(1, len(body)))}
    raise ValueError(variant)


def model_inj(case, obs):
    """the single failure of the call, for the model: intended (forced / user function) or observed (real input)"""
    inj = case['inj']
    if inj['type'] == 'wsdl':
        return 'none', 'fault', False
    if inj['type'] == 'refuse':
        return 'refuse', 'exc' if inj['variant'] == 'stream-error' else 'fault', False
    if inj['type'] == 'forced' and inj['stage'] != 'serialize':
        return inj['stage'], inj['kind'], False
    pre = [s for s in obs['stages'] if s[0] in PRE_STAGES]
    if pre:
        st, k, inner = pre[0]
        return st, k, (inner and st == 'deserialize')
    dis = [s for s in obs['stages'] if s[0] == 'dispatch']
    if dis:
        return 'dispatch', dis[0][1], False
    if case['user'] in ('fault', 'exc'):
        return 'user', case['user'], False      # the function raises: a forced serialize failure is never reached
    if case['user'] == 'redirect':
        return 'redirect', 'fault', False
    if case['user'] == 'redirectfail':
        return 'redirectFail', 'fault', False
    if case['user'].startswith('genraise') and case['transport'] == 'wsgi':
        return 'genBody', case['user'].split('-')[1], False     # handle_rpc pulls the first item before serialising
    if inj['type'] == 'forced':
        return inj['stage'], inj['kind'], False
    ser = [s for s in obs['stages'] if s[0] == 'serialize']
    if ser:
        return 'serialize', ser[0][1], ser[0][2]
    return 'none', 'fault', False


def mgr_json(spec):
    return {'bases': [mgr_json(b) for b in spec.get('bases', [])], 'regs': [[e, h] for e, h in spec.get('regs', [])],
            'ops': [list(o) for o in spec.get('ops', [])]}


def world_json(w):
    return {'app': mgr_json(w['app']), 'meths': [mgr_json(m) for m in w['meths']], 'svc': mgr_json(w['svc']),
            'inprot': mgr_json(w['inprot']), 'outprot': mgr_json(w['outprot']), 'trans': mgr_json(w['trans']),
            'raises': [list(r) for r in w.get('raises', [])], 'spelling': w.get('spelling', '_evmgrs'),
            'mrpcsvc': bool(w.get('mrpcsvc'))}


# ------------------------------------------------------------------------------------ T1 facts
def quiet_world(extra_raises=()):
    probe = [[e, PROBE] for e in METHOD_EVENTS]
    emp = {'regs': []}
    w = {'app': {'regs': list(probe)}, 'meths': [], 'svc': {'regs': []}, 'inprot': emp, 'outprot': emp, 'trans': emp,
         'raises': []}
    for ev, kind in extra_raises:
        w['app']['regs'].append([ev, 1])
        w['raises'].append([1, ev, kind])
    return w


def probe_syms(trace, start=0):
    out = []
    for o in trace[start:]:
        if o[0] == 'user':
            out.append('user')
        elif o[0] == 'app' and o[1] == PROBE:
            out.append(o[2])
    return out


def measure_facts(msgpack_keys):
    from spyne.server import ServerBase
    from spyne.server.wsgi import WsgiApplication
    from spyne.context import MethodContext
    f = {}

    def ctx_ready(env):
        srv = ServerBase(env.app)
        ctx = MethodContext(srv, MethodContext.SERVER)
        ctx.in_string = [request('xml', 'ok')[0]]
        p = srv.generate_contexts(ctx)[0]
        srv.get_in_object(p)
        return srv, p

    # MethodContext.__init__ / close
    env = Env('xml', 'xml', quiet_world())
    srv = ServerBase(env.app)
    f['ctxInit'] = f['ctxClose'] = ['<crash>']
    try:
        ctx = MethodContext(srv, MethodContext.SERVER)
        f['ctxInit'] = probe_syms(env.trace)
        n = len(env.trace)
        ctx.close()
        f['ctxClose'] = probe_syms(env.trace, n)
    except Exception as e:
        f['ctxClose'] = ['<crash:%s>' % type(e).__name__]

    # Application.process_request, seven ways
    f['proc'] = {}
    for sig, name, user, raises in ((sg,) + t for sg in SIGS for t in (('ok', 'ok', ()), ('callRaise fault', 'ok', (('method_call', 'fault'),)),
                               ('callRaise exc', 'ok', (('method_call', 'exc'),)),
                               ('dispatchRaise fault', 'ok', ()), ('dispatchRaise exc', 'ok', ()),
                               ('userRaise fault', 'fault', ()), ('redirect', 'redirect', ()), ('redirectFail', 'redirectfail', ()),
                               ('userRaise exc', 'exc', ()), ('retRaise fault', 'ok', (('method_return_object', 'fault'),)),
                               ('retRaise exc', 'ok', (('method_return_object', 'exc'),)))):
        env = Env('xml', 'xml', quiet_world(raises), user=user,
                  stage_inj=('dispatch', name.split()[1]) if name.startswith('dispatch') else None, **SIGS[sig])
        n = len(env.trace)
        esc = False
        try:
            srv, p = ctx_ready(env)
            n = len(env.trace)
            env.app.process_request(p)
        except Exception:
            esc = True
        f['proc'][(sig, name)] = (probe_syms(env.trace, n), esc)

    # ServerBase.finalize_context through get_out_string: ok / fault  x  out_string set / left None by the protocol
    f['fin'] = {}
    for fault in (False, True):
        for none in (False, True):
            env = Env('xml', 'xml', quiet_world(), user='fault' if fault else 'ok', no_out_string=none)
            n = len(env.trace)
            try:
                srv, p = ctx_ready(env)
                srv.get_out_object(p)
                n = len(env.trace)
                srv.get_out_string(p)
                f['fin'][(fault, none)] = probe_syms(env.trace, n)
            except Exception as e:
                f['fin'][(fault, none)] = probe_syms(env.trace, n) + ['<crash:%s>' % type(e).__name__]

    # generate_contexts / get_in_object when the in-protocol raises
    for key, stage, fun in (('genCtx', 'createInDoc', 'generate_contexts'), ('getIn', 'deserialize', 'get_in_object')):
        f[key] = {}
        for kind in ('fault', 'exc'):
            env = Env('xml', 'xml', quiet_world(), stage_inj=(stage, kind))
            srv = ServerBase(env.app)
            ctx = MethodContext(srv, MethodContext.SERVER)
            ctx.in_string = [request('xml', 'ok')[0]]
            n = len(env.trace)
            esc = False
            try:
                if fun == 'generate_contexts':
                    srv.generate_contexts(ctx)
                else:
                    p = srv.generate_contexts(ctx)[0]
                    n = len(env.trace)
                    srv.get_in_object(p)
            except Exception:
                esc = True
            f[key][kind] = (probe_syms(env.trace, n), esc)

    # WsgiApplication.handle_rpc when get_out_string raises: what is fired until the fault is serialised
    w = quiet_world()
    w['outprot'] = {'regs': [['before_serialize', 9]]}
    env = Env('xml', 'xml', w, stage_inj=('serialize', 'exc'))
    res = env.run_wsgi(request('xml', 'ok')[0])
    tr = env.trace
    i = max([k for k, o in enumerate(tr) if o[:1] == ['app'] and o[2] == 'method_return_object'] or [0])
    j = next((k for k, o in enumerate(tr) if k > i and o[0] == 'outprot'), len(tr))
    f['wsgiSerFail'] = (probe_syms(tr[:j], i + 1), res['escaped'] is not None)

    # WsgiApplication.handle_rpc when the body of the returned generator raises before its first item
    f['wsgiGenFail'] = {}
    for kind in ('fault', 'exc'):
        env = Env('xml', 'xml', quiet_world(), user='genraise-' + kind, shape='generator')
        res = env.run_wsgi(request('xml', 'ok')[0])
        syms = probe_syms(env.trace)
        i = syms.index('method_return_object') + 1 if 'method_return_object' in syms else len(syms)
        rest = syms[i:]
        cut = rest.index('method_exception_document') if 'method_exception_document' in rest else len(rest)
        f['wsgiGenFail'][kind] = (rest[:cut], res['escaped'] is not None)

    # WsgiApplication answering ?wsdl
    w = quiet_world()
    w['trans'] = {'regs': [[e, 9] for e in WSGI_EVENTS]}
    env = Env('xml', 'xml', w)
    res = env.run_wsgi(b'', {'REQUEST_METHOD': 'GET', 'QUERY_STRING': 'wsdl', 'PATH_INFO': '/'})
    f['wsdlSteps'] = [('ctx', o[2]) if o[0] == 'app' else ('transport', o[2]) for o in env.trace if o[0] in ('app', 'trans')]
    if res['escaped'] is not None:
        f['wsdlSteps'].append(('transport', '<escaped>'))
    env = Env('xml', 'xml', w)
    res = env.run_wsgi(b'', {'REQUEST_METHOD': 'GET', 'QUERY_STRING': 'wsdl', 'PATH_INFO': '/'}, wsdl_fails=True)
    f['wsdlFailSteps'] = [('ctx', o[2]) if o[0] == 'app' else ('transport', o[2]) for o in env.trace if o[0] in ('app', 'trans')]
    if res['escaped'] is not None:
        f['wsdlFailSteps'].append(('transport', '<escaped>'))

    # WsgiApplication.handle_rpc when the request input is refused (Fault) / the input stream fails (non-Fault)
    f['wsgiRefuse'] = {}
    for kind, variant in (('fault', 'too-long-declared'), ('exc', 'stream-error')):
        env = Env('xml', 'xml', quiet_world())
        body = request('xml', 'ok')[0]
        res = env.run_wsgi(body, refusal_environ(variant, body))
        syms = probe_syms(env.trace)[1:]
        cut = syms.index('method_exception_document') if 'method_exception_document' in syms else len(syms)
        f['wsgiRefuse'][kind] = (syms[:cut], res['escaped'] is not None)

    # an EventManager passed to @rpc under each of the four keywords reaches descriptor.event_managers
    f['spellingReaches'] = {}
    for sp in SPELLINGS:
        w = quiet_world()
        w['meths'] = [{'regs': []}]
        w['spelling'] = sp
        try:
            env = Env('xml', 'xml', w)
            d = env.svc_cls.public_methods['op']
            f['spellingReaches'][sp] = any(m is env.meth_mgrs[0] for m in d.event_managers)
        except Exception:
            f['spellingReaches'][sp] = False

    # get_out_string_pull when ctx.out_document has been pre-set
    env = Env('xml', 'xml', quiet_world(), preset={'at': 'none', 'what': 'out_document'})
    n = len(env.trace)
    try:
        srv, p = ctx_ready(env)
        srv.get_out_object(p)
        env.do_preset(p)
        n = len(env.trace)
        srv.get_out_string(p)
        f['getOutStringPreset'] = probe_syms(env.trace, n)
    except Exception as e:
        f['getOutStringPreset'] = probe_syms(env.trace, n) + ['<crash:%s>' % type(e).__name__]

    # listeners that change the handler set while it fires: the witness scenarios
    f['reentrantCalls'] = [real_refire(sc, pr)[0] for sc, pr in REENTRANT_SCENARIOS]

    # @mrpc(_service_class=S): S's manager reaches the descriptor
    try:
        env = Env('xml', 'xml', quiet_world(), kind='mrpcsvc')
        d = env.thing_cls.Attributes.methods['op']
        f['mrpcServiceReaches'] = any(m is env.owner_cls.event_manager for m in d.event_managers)
    except Exception:
        f['mrpcServiceReaches'] = False

    # the output protocols' own events and whether they leave ctx.out_string None, per result shape / for a fault /
    # before a failing serialize raises
    f['serOk'], f['serErr'], f['serPartial'], f['leavesNone'], f['leavesNoneFault'] = {}, {}, {}, {}, {}
    own = lambda tr: [o[2] for o in tr if o[0] == 'outprot']
    for outp in OUT_PROTOS:
        w = quiet_world()
        w['outprot'] = {'regs': [[e, 9] for e in PROT_EVENTS]}
        for shape in SHAPES:
            env = Env('xml', outp, w, shape=shape)
            env.run_wsgi(request('xml', 'ok')[0])
            failed = any(st[0] == 'serialize' for st in env.stages)
            f['serOk'][(outp, shape)] = [] if failed else own(env.trace)
            f['leavesNone'][(outp, shape)] = bool(env.out_none) and env.out_none[0] == (False, True)
        env = Env('xml', outp, w, user='fault')
        env.run_wsgi(request('xml', 'ok')[0])
        f['serErr'][outp] = own(env.trace)
        f['leavesNoneFault'][outp] = bool(env.out_none) and env.out_none[-1] == (True, True)
        f['serPartial'][outp] = []
        for kw in ({'user': 'unser'}, {'style': 'out_bare'}, {'shape': 'multi'}, {'shape': 'generator'}):
            # any result this protocol cannot serialise: what it fires before it raises
            env = Env('xml', outp, w, **kw)
            env.run_serverbase(request('xml', 'ok')[0])
            if any(st[0] == 'serialize' and st[2] for st in env.stages):
                f['serPartial'][outp] = own(env.trace)
                break
    return f


PROC_GOOD = {
'ok': (['method_call', 'user', 'method_return_object'], False),
             'callRaise fault': (['method_call', 'method_exception_object'], False),
             'callRaise exc': (['method_call', 'method_exception_object'], False),
             'dispatchRaise fault': (['method_call', 'method_exception_object'], False),
             'dispatchRaise exc': (['method_call', 'method_exception_object'], False),
             'userRaise fault': (['method_call', 'user', 'method_exception_object'], False),
             'redirect': (['method_call', 'user', 'method_redirect'], False),
             'redirectFail': (['method_call', 'user', 'method_redirect_exception'], False),
             'userRaise exc': (['method_call', 'user', 'method_exception_object'], False),
             'retRaise fault': (['method_call', 'user', 'method_return_object', 'method_exception_object'], False),
             'retRaise exc': (['method_call', 'user', 'method_return_object', 'method_exception_object'], False)}
GOOD_FACTS = {
    'proc': {(sg, k): v for sg in ['void', 'single', 'multi', 'outBare'] for k, v in PROC_GOOD.items()},
    'ctxInit': ['method_context_created'], 'ctxClose': ['method_context_closed'],
    'fin': {(False, False): ['method_return_document', 'method_return_string'],
            (False, True): ['method_return_document', 'method_return_string'],
            (True, False): ['method_exception_document', 'method_exception_string'],
            (True, True): ['method_exception_document', 'method_exception_string']},
    'genCtx': {'fault': (['method_exception_object'], False), 'exc': (['method_exception_object'], False)},
    'getIn': {'fault': (['method_exception_object'], False), 'exc': (['method_exception_object'], False)},
    'wsgiSerFail': (['method_exception_object'], False),
    'wsgiGenFail': {'fault': (['method_exception_object'], False), 'exc': (['method_exception_object'], False)},
    'wsdlSteps': [('ctx', 'method_context_created'), ('transport', 'wsdl'), ('ctx', 'method_context_closed')],
    'wsdlFailSteps': [('ctx', 'method_context_created'), ('transport', 'wsdl_exception'), ('ctx', 'method_context_closed')],
    'wsgiRefuse': {'fault': (['method_exception_object'], False), 'exc': (['method_exception_object'], False)},
    'spellingReaches': {sp: True for sp in ['_evmgr', '_event_manager', '_evmgrs', '_event_managers']},
    'mrpcServiceReaches': True,
    'getOutStringPreset': ['method_return_document', 'method_return_string'],
    'reentrantCalls': [[1, 3, 2], [1, 3], [1, 2], [1, 2, 3], [1], [1, 2], [1, 2, 1, 3]],
}
LEAN_OUTP = {'xml': 'xml', 'soap11': 'soap11', 'soap12': 'soap12', 'json': 'json', 'yaml': 'yaml', 'msgpack': 'msgpack',
             'msgpackrpc': 'msgpackRpc', 'http': 'httpRpc'}


def lean_ev(e):
    return '.' + LEAN_EV.get(e, LEAN_PROT_EV.get(e, 'other'))


def lean_sym(s):
    return '.user' if s == 'user' else '.ev ' + lean_ev(s)


def lean_meas(m):
    return '⟨[%s], %s⟩' % (', '.join(lean_sym(s) for s in m[0]), 'true' if m[1] else 'false')


def facts_lean(f):
    evs = lambda l: '[%s]' % ', '.join(lean_ev(e) for e in l if e != 'user')
    b = lambda x: 'true' if x else 'false'
    proc = '\n'.join('    | .%s, .%s => %s' % (sg, ' .'.join(k.split()), lean_meas(v)) for (sg, k), v in f['proc'].items())
    fin = '\n'.join('    | %s, %s => %s' % (b(k[0]), b(k[1]), evs(v)) for k, v in f['fin'].items())
    ser_ok = '\n'.join('    | .%s, .%s => %s' % (LEAN_OUTP[o], sh, evs(v)) for (o, sh), v in f['serOk'].items())
    ser_err = '\n'.join('    | .%s => %s' % (LEAN_OUTP[o], evs(v)) for o, v in f['serErr'].items())
    ser_part = '\n'.join('    | .%s => %s' % (LEAN_OUTP[o], evs(v)) for o, v in f['serPartial'].items())
    none_ok = '\n'.join('    | .%s, .%s => %s' % (LEAN_OUTP[o], sh, b(v)) for (o, sh), v in f['leavesNone'].items())
    none_err = '\n'.join('    | .%s => %s' % (LEAN_OUTP[o], b(v)) for o, v in f['leavesNoneFault'].items())
    return '''-- GENERATED by harness/c14.py (T1) from /repo on every run. Do not edit.
import SpyneModel.EventsPipeline
namespace SpyneModel.Generated
open SpyneModel.Events

def facts14 : Facts14 where
  ctxInit := %s
  ctxClose := %s
  proc := fun sg pc => match sg, pc with
%s
  fin := fun fault none => match fault, none with
%s
  genCtx := fun k => match k with
    | .fault => %s
    | .exc => %s
  getIn := fun k => match k with
    | .fault => %s
    | .exc => %s
  wsgiSerFail := %s
  wsgiGenFail := fun k => match k with
    | .fault => %s
    | .exc => %s
  wsdlSteps := [%s]
  wsdlFailSteps := [%s]
  wsgiRefuse := fun k => match k with
    | .fault => %s
    | .exc => %s
  spellingReaches := fun sp => match sp with
%s
  mrpcServiceReaches := %s
  reentrantCalls := %s
  getOutStringPreset := %s
  serOk := fun o sh => match o, sh with
%s
  serErr := fun o => match o with
%s
  serPartial := fun o => match o with
%s
  leavesNone := fun o sh => match o, sh with
%s
  leavesNoneFault := fun o => match o with
%s

end SpyneModel.Generated
''' % (evs(f['ctxInit']), evs(f['ctxClose']), proc, fin,
       lean_meas(f['genCtx']['fault']), lean_meas(f['genCtx']['exc']), lean_meas(f['getIn']['fault']),
       lean_meas(f['getIn']['exc']), lean_meas(f['wsgiSerFail']), lean_meas(f['wsgiGenFail']['fault']),
       lean_meas(f['wsgiGenFail']['exc']),
       ', '.join('.fire %s %s' % ('(.ctx false)' if src == 'ctx' else '.transport', lean_ev(e)) for src, e in f['wsdlSteps']),
       ', '.join('.fire %s %s' % ('(.ctx false)' if src == 'ctx' else '.transport', lean_ev(e)) for src, e in f['wsdlFailSteps']),
       lean_meas(f['wsgiRefuse']['fault']),
       lean_meas(f['wsgiRefuse']['exc']),
       '\n'.join('    | .%s => %s' % (LEAN_SPELLING[k], b(v)) for k, v in f['spellingReaches'].items()),
       b(f['mrpcServiceReaches']), json.dumps(f['reentrantCalls']), evs(f['getOutStringPreset']), ser_ok, ser_err, ser_part, none_ok, none_err)


def fact_witness_case(key, sub=None):
    """the case that exhibits a bad fact on the whole pipeline"""
    w = quiet_world()
    base = {'inp': 'xml', 'outp': 'xml', 'transport': 'wsgi', 'user': 'ok', 'world': w, 'inj': {'type': 'real', 'variant': 'ok'}}
    if key == 'genCtx':
        base['inj'] = {'type': 'forced', 'stage': 'createInDoc', 'kind': sub}
    elif key == 'getIn':
        base['inj'] = {'type': 'forced', 'stage': 'deserialize', 'kind': sub}
    elif key == 'wsgiSerFail':
        base['user'] = 'unser'
    elif key == 'proc':
        base.update(SIGS[sub[0]])
        what, _, kind = sub[1].partition(' ')
        if what == 'userRaise':
            base['user'] = kind
        elif what == 'redirect':
            base['user'] = 'redirect'
        elif what == 'redirectFail':
            base['user'] = 'redirectfail'
        elif what == 'dispatchRaise':
            base['inj'] = {'type': 'forced', 'stage': 'dispatch', 'kind': kind}
        elif what in ('callRaise', 'retRaise'):
            ev = 'method_call' if what == 'callRaise' else 'method_return_object'
            base['world'] = quiet_world(((ev, kind),))
    elif key == 'wsgiGenFail':
        base.update(user='genraise-' + sub, shape='generator')
    elif key == 'wsdlSteps':
        base['inj'] = {'type': 'wsdl'}
    elif key == 'wsdlFailSteps':
        base['inj'] = {'type': 'wsdl', 'fail': True}
    elif key == 'wsgiRefuse':
        base['inj'] = {'type': 'refuse', 'variant': 'too-long-declared' if sub == 'fault' else 'stream-error'}
    elif key == 'getOutStringPreset':
        base['preset'] = {'at': 'method_return_object', 'what': 'out_document'}
    elif key == 'mrpcServiceReaches':
        base.update(kind='mrpcsvc')
        w['svc'] = {'regs': [['method_call', 5]]}
    elif key == 'spellingReaches':
        w['meths'] = [{'regs': [['method_call', 5]]}]
        w['spelling'] = sub
    elif key == 'fin':
        base.update(inp='http', outp='http', shape='void', user='fault' if sub[0] else 'ok')
    return base


# ------------------------------------------------------------------------------------ T3 oracle
def oracle(case, obs, inj):
    """the property, evaluated on the real trace; returns (finding id, description) or None"""
    stage, kind, _ = inj
    tag = '%s:%s:%s' % (case['transport'], stage, kind if stage != 'none' else '-')
    if case['inj']['type'] == 'wsdl':
        view = probe_syms(obs['trace'])
        if obs['escaped'] is not None or view != ['method_context_created', 'method_context_closed']:
            return ('wsdl-request', 'a ?wsdl request shows %s (escaped: %s), expected one context created and closed' % (view, obs['escaped']))
        return None
    if obs['escaped'] is not None:
        # forced failures are protocol independent; an escaping failure of a real request is identified by the protocol too
        if case['inj']['type'] == 'forced' or stage in ('none', 'user', 'redirect', 'redirectFail', 'genBody'):
            tag += ':forced'
        else:
            tag = '%s:%s:%s-input' % (stage, kind, case['inp'])
        if case['transport'] == 'serverbase' and stage == 'serialize':
            return None      # the bare ServerBase call sequence has no handler of its own: out of the transport's hands
        view = probe_syms(obs['trace'])
        return ('escape:' + tag, 'a %s raised at stage %s leaves the transport as %s: listeners saw %s and never '
                'method_context_closed' % ('Fault' if kind == 'fault' else 'non-Fault exception', stage, obs['escaped'], view))
    view = probe_syms(obs['trace'])
    st = automaton(view)
    if st['state'] != 'done':
        if view[:1] != ['method_context_created'] or view[-1:] != ['method_context_closed'] or \
                view.count('method_context_created') != 1 or view.count('method_context_closed') != 1:
            why = 'created-closed'
        elif 'method_exception_document' in view and 'method_exception_object' not in view:
            why = 'no-exception-object'
        elif view.count('user') > 1:
            why = 'user-twice'
        else:
            why = 'order'
        return (why + ':' + tag, 'trace %s is not accepted by the specification automaton (%s)' % (view, st['state']))
    u, r = obs['user_calls'] >= 1, obs['user_returns'] >= 1
    if obs['user_calls'] > 1:
        return ('user-twice:' + tag, 'the user function ran %d times' % obs['user_calls'])
    if st['u'] != u or st['r'] != r:
        return ('return-object:' + tag, 'trace %s claims user ran=%s returned=%s, really ran=%s returned=%s' % (view, st['u'], st['r'], u, r))
    exp = truth(stage, fire_outcome(case['world'], 'method_call'), fire_outcome(case['world'], 'method_return_object'))
    if st['f'] != exp['f']:
        return ('exception-object:' + tag, 'trace %s ends as %s although the call %s' % (
            view, 'a fault' if st['f'] else 'a normal return', 'failed at ' + stage if exp['f'] else 'did not fail'))
    if obs['out_error'] is not None and obs['out_error'] != st['f']:
        return ('exception-object-vs-response:' + tag, 'ctx.out_error set=%s but the events say fault=%s' % (obs['out_error'], st['f']))
    # what the function put into ctx.files is closed with the context, once; listeners can tell which method runs
    if any(n != 1 for n in obs.get('files', [])):
        return ('files-closed:' + tag, 'objects in ctx.files were closed %s times' % obs['files'])
    for ev, name, has_svc in obs.get('names', []):
        if (ev == 'method_call' and name != obs['method_name']) or (ev == 'method_context_created' and name is not None):
            return ('method-name:' + ev, 'a %s listener reads ctx.method_name = %r (method: %r)' % (ev, name, obs['method_name']))
    # method_call / method_return_object reach every listener of every level, in registration order
    tr = obs['trace']
    for ev in ('method_call', 'method_return_object'):
        starts = [i for i, o in enumerate(tr) if o == ['app', PROBE, ev]]
        if starts:
            i = starts[0]
            seg = []
            while i < len(tr) and len(tr[i]) == 3 and tr[i][2] == ev and (tr[i][0] in ('app', 'svc') or tr[i][0].startswith('meth')):
                seg.append(tr[i][:2]); i += 1
            want = expected_fanout(case['world'], ev)
            if seg != want:
                return ('fanout:%s' % ev, '%s reached %s, registered (application, @rpc(%s=...), service class): %s' % (
                    ev, seg, case['world'].get('spelling'), want))
    # every other listener: a subsequence of what the observer sees, never twice within one firing
    seg = None
    seen = set()
    for o in obs['trace']:
        if o[0] in ('app', 'svc') or o[0].startswith('meth'):
            if o[0] == 'app' and o[1] == PROBE:
                seg, seen = o[2], set()
                continue
            if seg != o[2]:
                return ('stray-listener-call:' + tag, 'listener %s/%d called for %s outside a firing of it' % (o[0], o[1], o[2]))
            if (o[0], o[1]) in seen:
                return ('listener-twice:' + o[0].rstrip('0123456789'), 'listener %s/%d called twice for one firing of %s' % (o[0], o[1], o[2]))
            seen.add((o[0], o[1]))
            if o[0] != 'app' and o[2] in ('method_context_created', 'method_context_closed'):
                return ('created-closed-level:' + tag, '%s reached a %s-level listener' % (o[2], o[0]))
    return None


# ------------------------------------------------------------------------------------ generators
def gen_regs(rng, events, hs, n):
    return [[rng.choice(events), rng.choice(hs)] for _ in range(n)]


def gen_ops(rng, events, hs, n, clear=True, fire=False):
    ops = []
    for _ in range(n):
        k = rng.random()
        if fire and rng.random() < 0.3:
            ops.append(['fire', rng.choice(events)])
        elif k < 0.45:
            ops.append(['add', rng.choice(events), rng.choice(hs)])
        elif k < 0.93 or not clear:
            ops.append(['del', rng.choice(events), rng.choice(hs)])
        else:
            ops.append(['clear', rng.choice(events)])
    return ops


def gen_world(rng, raiser=None, rich=True):
    """registrations on every manager, with duplicates; the observer first on the application's manager.
    raiser = (level, event, kind): listener 9 registered on that manager for that event, raising"""
    hs = [1, 2, 3, 4]
    n = rng.choice([0, 2, 5, 9]) if rich else rng.choice([0, 1])
    w = {'app': {'regs': [[e, PROBE] for e in METHOD_EVENTS] + gen_regs(rng, METHOD_EVENTS + ['method_accept_document'], hs + [PROBE], n)},
         'meths': [{'regs': gen_regs(rng, METHOD_EVENTS, hs, rng.choice([1, 3, 6]))} for _ in range(rng.choice([0, 1, 1, 2]))],
         'svc': {'bases': [{'regs': gen_regs(rng, METHOD_EVENTS, hs, rng.choice([1, 3, 5]))} for _ in range(rng.choice([0, 1, 2]))],
                 'regs': gen_regs(rng, METHOD_EVENTS, hs, rng.choice([0, 2, 5]))},
         'inprot': {'regs': gen_regs(rng, PROT_EVENTS + ['method_call'], hs, rng.choice([0, 2, 4]))},
         'outprot': {'regs': gen_regs(rng, PROT_EVENTS, hs, rng.choice([0, 2, 4]))},
         'trans': {'regs': gen_regs(rng, WSGI_EVENTS + ['method_call', 'wsdl'], hs, rng.choice([0, 2, 4]))},
         'raises': []}
    for spec in [w['app'], w['svc'], w['inprot'], w['outprot'], w['trans']] + w['meths'] + w['svc']['bases']:
        if rng.random() < 0.35:
            evs = PROT_EVENTS if spec is w['inprot'] or spec is w['outprot'] else WSGI_EVENTS if spec is w['trans'] else METHOD_EVENTS
            spec['ops'] = gen_ops(rng, evs, hs, rng.choice([1, 3, 6]), clear=spec is not w['app'])
    if rng.random() < 0.3 and w['svc']['bases']:
        w['svc']['bases'][0] = {'bases': [{'regs': gen_regs(rng, METHOD_EVENTS, hs, 2)}], 'regs': w['svc']['bases'][0]['regs']}
    if raiser and raiser[0] == 'meth' and not w['meths']:
        w['meths'].append({'regs': []})
    w['spelling'] = rng.choice(SPELLINGS if len(w['meths']) == 1 else SPELLINGS[2:])
    w['shared'] = bool(w['meths']) and rng.random() < 0.4       # another method shares the keyword's object
    if raiser:
        level, ev, kind = raiser
        if level == 'app':
            tgt = w['app']['regs']
        elif level == 'meth':
            if not w['meths']:
                w['meths'].append({'regs': []})
            tgt = w['meths'][rng.randrange(len(w['meths']))]['regs']
        elif level == 'base':
            if not w['svc']['bases']:
                w['svc']['bases'].append({'regs': []})
            tgt = w['svc']['bases'][0]['regs']
        else:
            tgt = w['svc']['regs']
        tgt.insert(rng.randrange(len(tgt) + 1) if level != 'app' else rng.randrange(len(METHOD_EVENTS), len(tgt) + 1), [ev, 9])
        w['raises'].append([9, ev, kind])
    return w


def proto_pairs():
    pairs = [(p, p) for p in OUT_PROTOS] + [('http', 'json'), ('http', 'xml'), ('json', 'http'), ('soap11', 'http')]
    return pairs


_COMBO = {}


def combo_ok(inp, extra, keys='bytes'):
    """does the plain request for this kind of method reach the function with this input protocol (the other request
    forms are only used where they work; whether they should work is C11's / C03's business)"""
    k = (inp, extra.get('kind', 'rpc'), extra.get('style', 'wrapped'))
    if k not in _COMBO:
        case = dict({'inp': inp, 'outp': 'xml', 'transport': 'serverbase', 'inj': {'type': 'real', 'variant': 'ok'},
                     'user': 'ok', 'world': quiet_world()}, **extra)
        try:
            obs = run_case(case, keys)
            _COMBO[k] = obs['user_returns'] == 1 and obs['escaped'] is None
        except Exception:
            _COMBO[k] = False
    return _COMBO[k]


def gen_cases(ctx):
    rng = ctx.rng
    cases = []
    raisers = [None] + [(lvl, ev, k) for lvl in ('app', 'meth', 'base', 'svc') for ev in ('method_call', 'method_return_object')
                        for k in ('fault', 'exc')]

    def add(inp, outp, transport, inj, user, raiser, label, shape='value', **extra):
        if extra.get('kind') == 'mrpc' and raiser and raiser[0] in ('base', 'svc'):
            raiser = ('app',) + raiser[1:]
        w = gen_world(rng, raiser)
        if extra.get('kind') == 'mrpc':
            w['svc'] = {'regs': []}          # a method of a ComplexModel class has no service class
        if extra.get('kind') == 'mrpcsvc':
            w['mrpcsvc'] = True              # ... unless it is bound to one with _service_class=
        cases.append(dict({'inp': inp, 'outp': outp, 'transport': transport, 'inj': inj, 'user': user, 'shape': shape,
                           'world': w, 'label': label}, **extra))

    for inp, outp in proto_pairs():
        for transport in ('serverbase', 'wsgi'):
            if inp == 'http' and transport == 'serverbase':
                continue
            ok = {'type': 'real', 'variant': 'ok'}
            # every outcome of the call, every raising listener position
            for r in raisers:
                add(inp, outp, transport, ok, 'ok', r, 'listener')
            for user in ('fault', 'exc'):
                add(inp, outp, transport, ok, user, None, 'user')
                add(inp, outp, transport, ok, user, rng.choice(raisers[1:]), 'user+listener')
            # every shape of the result: no declared return / None / a value (above) / a generator
            for shape in [sh for sh in SHAPES if sh != 'value']:
                for _ in range(4 if outp == 'http' and shape == 'void' else 1):
                    add(inp, outp, transport, ok, 'ok', None, 'shape', shape)
                add(inp, outp, transport, ok, 'ok', rng.choice(raisers[1:]), 'shape+listener', shape)
                add(inp, outp, transport, ok, rng.choice(['fault', 'exc']), None, 'shape+user', shape)
                add(inp, outp, transport, {'type': 'forced', 'stage': rng.choice(PRE_STAGES + ['dispatch', 'serialize']),
                                           'kind': rng.choice(['fault', 'exc'])}, 'ok', None, 'shape+forced', shape)
            # two methods declared with one and the same list / manager object, under each keyword
            for sp in SPELLINGS:
                add(inp, outp, transport, ok, 'ok', None, 'shared-evmgrs')
                w = cases[-1]['world']
                w['meths'] = w['meths'][:1] if sp in SPELLINGS[:2] and w['meths'] else (w['meths'] or [{'regs': [['method_call', 3]]}])
                w['meths'] = w['meths'][:1] if sp in SPELLINGS[:2] else w['meths']
                w.update(spelling=sp, shared=True)
                if not mgr_handlers(w['svc'], 'method_call'):
                    w['svc'].setdefault('regs', []).append(['method_call', 4])
            # user code / listeners that pre-set pipeline outputs: the remaining events still fire, once (directed, every seed)
            for at in ('method_call', 'user', 'method_return_object'):
                for what in ('out_document', 'out_object'):
                    if what == 'out_object' and at != 'method_return_object':
                        continue
                    add(inp, outp, transport, ok, 'ok', None, 'preset', preset={'at': at, 'what': what})
            # a bare output message
            add(inp, outp, transport, ok, 'ok', rng.choice(raisers[:5]), 'out-bare', style='out_bare')
            add(inp, outp, transport, ok, rng.choice(['fault', 'exc']), None, 'out-bare', style='out_bare')
            # the function raises a Redirect (do_redirect works / raises)
            for user in ('redirect', 'redirectfail'):
                add(inp, outp, transport, ok, user, None, 'redirect', rng.choice(['value', 'none']))
                add(inp, outp, transport, ok, user, rng.choice(raisers[1:]), 'redirect+listener')
            # the body of the returned generator raises before its first item
            if transport == 'wsgi' or outp in XML_FAMILY:
                for k in ('fault', 'exc'):
                    add(inp, outp, transport, ok, 'genraise-' + k, rng.choice(raisers[:2]), 'genraise', 'generator')
            # other kinds of method: bare / empty body style, @mrpc method of a ComplexModel class
            if inp in ALT_FORM_INPUTS:
                for extra in ({'style': 'bare'}, {'style': 'empty'}, {'kind': 'mrpc'}, {'kind': 'mrpcsvc'}):
                    if not combo_ok(inp, extra):
                        ctx.hit('method-kind-form-not-usable:%s:%s' % (inp, list(extra.values())[0]))
                        continue
                    add(inp, outp, transport, ok, 'ok', None, 'method-kind', **extra)
                    add(inp, outp, transport, ok, rng.choice(['fault', 'exc', 'redirect']), rng.choice(raisers[:9]), 'method-kind+failure', **extra)
                    add(inp, outp, transport, {'type': 'forced', 'stage': rng.choice(['deserialize', 'dispatch', 'serialize']),
                                               'kind': rng.choice(['fault', 'exc'])}, 'ok', None, 'method-kind+forced', **extra)
                if combo_ok(inp, {'style': 'empty'}):
                    add(inp, outp, transport, ok, 'ok', rng.choice(raisers[:2]), 'method-kind', 'void', style='empty')   # BODY_STYLE_EMPTY
                for how in ('respawn-none', 'when-false') if combo_ok(inp, {'kind': 'mrpc'}) else ():
                    add(inp, outp, transport, ok, 'ok', rng.choice(raisers[:3]), 'mrpc-dispatch', kind='mrpc', dispatch_real=how)
            if transport == 'wsgi' and inp != 'http':
                # a ?wsdl request; requests with HTTP_* headers, an empty Content-Length, a body shorter than declared;
                # a transport that does not chunk
                add(inp, outp, transport, {'type': 'wsdl'}, 'ok', None, 'wsdl')
                add(inp, outp, transport, {'type': 'wsdl', 'fail': True}, 'ok', None, 'wsdl-fails')
                for v in ('http-header', 'empty-length', 'short-body'):
                    add(inp, outp, transport, {'type': 'real', 'variant': 'ok', 'environ': v}, 'ok', rng.choice(raisers[:3]), 'environ')
                add(inp, outp, transport, ok, 'ok', None, 'not-chunked', chunked=False)
                add(inp, outp, transport, ok, rng.choice(['fault', 'exc']), None, 'not-chunked', chunked=False)
            # the transport refuses the request while reconstructing its input
            if transport == 'wsgi' and inp != 'http':     # (HttpRpc GET requests: the input stream is never read)
                for variant in ('too-long-declared', 'bad-length', 'negative-length-text', 'stream-error'):
                    add(inp, outp, transport, {'type': 'refuse', 'variant': variant}, 'ok', rng.choice(raisers[:3]), 'refuse')
            # more listeners registered / removed between two requests to the same application
            for _ in range(2):
                add(inp, outp, transport, ok, rng.choice(['ok', 'ok', 'fault']), rng.choice(raisers[:5]), 'second-request')
                hs2 = [1, 2, 3, 4, 5, 6]
                cases[-1]['then'] = {'app': gen_ops(rng, METHOD_EVENTS, hs2, rng.choice([2, 4, 7]), clear=False),
                                     'svc': gen_ops(rng, METHOD_EVENTS, hs2, rng.choice([0, 3, 6])),
                                     'meths': [gen_ops(rng, METHOD_EVENTS, hs2, 3) for _ in range(2)]}
            # real failures of the request
            for variant in ('unknown', 'badarg'):
                add(inp, outp, transport, {'type': 'real', 'variant': variant}, 'ok', None, variant)
                add(inp, outp, transport, {'type': 'real', 'variant': variant}, rng.choice(['ok', 'exc']), rng.choice(raisers), variant)
            for label, body in hostile_bodies(inp):
                add(inp, outp, transport, {'type': 'raw', 'hex': body.hex(), 'label': label}, 'ok', rng.choice(raisers[:3]), 'hostile')
            if outp in XML_FAMILY:
                add(inp, outp, transport, ok, 'unser', None, 'unser')
                add(inp, outp, transport, ok, 'unser', rng.choice(raisers[1:]), 'unser+listener')
            # forced failures of each protocol stage, Fault and non-Fault
            for stage in PRE_STAGES + ['dispatch', 'serialize']:
                for kind in ('fault', 'exc'):
                    add(inp, outp, transport, {'type': 'forced', 'stage': stage, 'kind': kind}, 'ok', None, 'forced')
                    if ctx.thorough or rng.random() < 0.5:
                        add(inp, outp, transport, {'type': 'forced', 'stage': stage, 'kind': kind}, rng.choice(['ok', 'fault']),
                            rng.choice(raisers[1:]), 'forced+listener')
    # seeded random mixtures, cross protocol pairs included
    for _ in range(1500 if ctx.thorough else 150):
        inp = rng.choice(IN_PROTOS)
        outp = rng.choice(OUT_PROTOS)
        transport = 'wsgi' if inp == 'http' else rng.choice(['serverbase', 'wsgi'])
        kind = rng.randrange(4)
        if kind == 0:
            inj = {'type': 'real', 'variant': rng.choice(['ok', 'ok', 'unknown', 'badarg'])}
        elif kind == 1:
            inj = {'type': 'forced', 'stage': rng.choice(PRE_STAGES + ['dispatch', 'serialize']), 'kind': rng.choice(['fault', 'exc'])}
        elif kind == 2 and hostile_bodies(inp):
            label, body = rng.choice(hostile_bodies(inp))
            inj = {'type': 'raw', 'hex': body.hex(), 'label': label}
        else:
            inj = {'type': 'real', 'variant': 'ok'}
        user = rng.choice(['ok', 'ok', 'fault', 'exc'] + (['unser'] if outp in XML_FAMILY else []))
        add(inp, outp, transport, inj, user, rng.choice(raisers), 'random', rng.choice(SHAPES) if user != 'unser' else 'value')
    return cases


def gen_histories(ctx):
    """registration histories for the manager algebra: (class tree spec, late registrations on bases)"""
    rng = ctx.rng
    names = ['method_call', 'method_return_object', 'x', 'y']
    out = []

    def spec(depth):
        s = {'regs': gen_regs(rng, names, [1, 2, 3, 4, 5], rng.choice([0, 1, 3, 6, 10]))}
        if depth > 0 and rng.random() < 0.7:
            s['bases'] = [spec(depth - 1) for _ in range(rng.choice([1, 1, 2, 3]))]
        if rng.random() < 0.7:
            s['ops'] = gen_ops(rng, names, [1, 2, 3, 4, 5], rng.choice([1, 2, 4, 8, 14]), fire=True)
        return s
    fixed = [{'regs': []}, {'regs': [['x', 1], ['x', 1]]}, {'regs': [['x', 1], ['x', 2], ['x', 1], ['y', 2], ['x', 3], ['x', 2]]},
             {'bases': [{'regs': [['x', 1], ['x', 2]]}, {'regs': [['x', 2], ['x', 3]]}], 'regs': [['x', 3], ['x', 4], ['x', 1]]},
             {'bases': [{'bases': [{'regs': [['x', 7]]}], 'regs': [['x', 8], ['x', 7]]}], 'regs': [['x', 9]]}]
    # removals: head / middle / last / only element / absent / whole event, then registered again
    abc = [['x', 1], ['x', 2], ['x', 3]]
    for victim in (1, 2, 3, 9):
        fixed.append({'regs': abc, 'ops': [['del', 'x', victim]]})
        fixed.append({'regs': abc, 'ops': [['del', 'x', victim], ['add', 'x', victim]]})
        fixed.append({'regs': abc, 'ops': [['del', 'x', victim], ['add', 'x', victim], ['add', 'x', victim], ['del', 'x', victim]]})
        fixed.append({'bases': [{'regs': abc}], 'regs': [['x', 4]], 'ops': [['del', 'x', victim], ['add', 'x', 5], ['add', 'x', victim]]})
    fixed += [{'regs': [['x', 1]], 'ops': [['del', 'x', 1]]}, {'regs': [['x', 1]], 'ops': [['del', 'x', 1], ['add', 'x', 1]]},
              {'regs': [['x', 1]], 'ops': [['del', 'x', 1], ['del', 'x', 1], ['add', 'x', 2], ['add', 'x', 1]]},
              {'regs': abc, 'ops': [['del', 'x', 1], ['del', 'x', 2], ['del', 'x', 3], ['add', 'x', 2], ['add', 'x', 1]]},
              {'regs': abc + [['y', 1]], 'ops': [['clear', 'x'], ['add', 'x', 3], ['add', 'x', 1]]},
              {'regs': abc, 'ops': [['clear', 'y'], ['del', 'y', 1], ['del', 'x', 1], ['add', 'x', 1], ['del', 'x', 2]]},
              {'bases': [{'regs': abc, 'ops': [['del', 'x', 1]]}, {'regs': [['x', 1]]}], 'regs': [], 'ops': [['del', 'x', 2], ['add', 'x', 2]]}]
    # firings interleaved with registrations: a listener added / removed after the event has already fired
    fixed += [{'regs': [['x', 1]], 'ops': [['fire', 'x'], ['add', 'x', 2], ['fire', 'x']]},
              {'regs': [], 'ops': [['fire', 'x'], ['add', 'x', 1], ['fire', 'x'], ['add', 'x', 2], ['fire', 'x'], ['fire', 'y']]},
              {'regs': abc, 'ops': [['fire', 'x'], ['del', 'x', 2], ['fire', 'x'], ['add', 'x', 2], ['fire', 'x'], ['add', 'x', 4], ['fire', 'x']]},
              {'regs': abc, 'ops': [['fire', 'x'], ['clear', 'x'], ['fire', 'x'], ['add', 'x', 3], ['fire', 'x'], ['add', 'x', 1], ['fire', 'x']]},
              {'bases': [{'regs': abc}], 'regs': [], 'ops': [['fire', 'x'], ['add', 'x', 4], ['fire', 'x'], ['add', 'x', 5], ['fire', 'x']]},
              {'bases': [{'regs': abc, 'ops': [['fire', 'x'], ['add', 'x', 6]]}], 'regs': [['x', 7]], 'ops': [['fire', 'x'], ['add', 'x', 8], ['fire', 'x']]}]
    for s in fixed:
        out.append(s)
    for _ in range(3000 if ctx.thorough else 400):
        out.append(spec(rng.choice([0, 1, 2])))
    return out, names


def real_history(spec, names):
    """build the class tree with the real metaclass / EventManager; return what fires, per event name, and
    what fires on the bases afterwards (late registrations on a base must not reach the subclass and vice versa)"""
    from spyne import Service
    from spyne.evmgr import EventManager
    calls = []
    fns = {}

    def fn(h, ev):
        if (h, ev) not in fns:
            def f(ctx, _h=h):
                calls.append(_h)
            fns[(h, ev)] = f
        return fns[(h, ev)]
    keyerr = []
    fires = []

    def on_fire(m, ev):
        del calls[:]
        m.fire_event(ev, None)
        fires.append(list(calls))
    if 'bases' not in spec:
        mgr = EventManager(None)       # a plain manager (application / protocol / transport / @rpc)
        for ev, h in spec.get('regs', []):
            mgr.add_listener(ev, fn(h, ev))
        keyerr = apply_ops(mgr, spec.get('ops', []), fn, on_fire)
        managers = [mgr]
    else:
        managers = []

        def make(s, name):
            bases = tuple(make(b, name + 'b%d' % i)[0] for i, b in enumerate(s.get('bases', []))) or (Service,)
            cls = type(Service)(name, bases, {})
            for ev, h in s.get('regs', []):
                cls.event_manager.add_listener(ev, fn(h, ev))
            del fires[:]       # only the firings of the class at the top are compared
            raised = apply_ops(cls.event_manager, s.get('ops', []), fn, on_fire)
            managers.append(cls.event_manager)
            return cls, raised
        _, keyerr = make_top(make, spec)
        mgr = managers[-1]
    res = []
    for ev in names:
        del calls[:]
        mgr.fire_event(ev, None)
        res.append(list(calls))
    return res, managers, keyerr, list(fires)


def make_top(make, spec):
    return make(spec, 'H')


# ------------------------------------------------------------------------------------ run
def probe_msgpack_keys():
    for keys in ('bytes', 'str'):
        env = Env('msgpack', 'msgpack', quiet_world(), msgpack_keys=keys)
        env.run_serverbase(request('msgpack', 'ok', keys)[0])
        if env.user_returns == 1:
            return keys
    return None


def case_query(case, inj):
    if case['inj']['type'] == 'wsdl':
        return {'op': 'wsdl', 'fails': bool(case['inj'].get('fail')), 'world': world_json(case['world'])}
    return {'op': 'trace', 'outp': case['outp'], 'transport': case['transport'], 'shape': case.get('shape', 'value'),
            'sig': sig_of(case), 'presetdoc': bool(case.get('preset')) and case['preset']['what'] == 'out_document',
            'stage': inj[0], 'kind': inj[1],
            'inner': inj[2], 'world': world_json(case['world'])}


def run(ctx):
    logging.disable(logging.CRITICAL)
    keys = probe_msgpack_keys()
    ctx.cov['msgpack_request_keys'] = keys
    if keys is None:
        ctx.assumptions.append('MessagePackDocument: no request form reaches the user function on this tree (C02/D10); '
                               'family driven with bytes keys, success path not exercised')
        keys = 'bytes'

    # ---- T1
    f = measure_facts(keys)
    ctx.facts = f
    ctx.write_generated('Facts14.lean', facts_lean(f))
    bad = []
    for k, good in GOOD_FACTS.items():
        if isinstance(good, dict):
            bad += [(k, sub) for sub in good if tuple(f[k][sub]) != tuple(good[sub])] if k not in ('fin', 'spellingReaches') else \
                [(k, sub) for sub in good if f[k][sub] != good[sub]]
        elif (tuple(f[k]) if isinstance(good, tuple) else f[k]) != good:
            bad.append((k, None))
    for k, sub in bad:
        ctx.hit('fact-bad:%s%s' % (k, ':' + str(sub) if sub else ''))
        ctx.log('T1: fact %s %s measured %r' % (k, sub or '', f[k][sub] if sub else f[k]))

    # ---- proof
    ctx.prove()

    # ---- T2 (a): registration histories on the real EventManager / ServiceBaseMeta
    Q = []
    hist, names = gen_histories(ctx)
    for spec in hist:
        impl, managers, keyerr, fires = real_history(spec, names)
        q = {'op': 'mgr', 'mgr': mgr_json(spec), 'query': names}
        Q.append((q, {'ok': impl, 'keyerr': keyerr, 'fires': fires}))
        ctx.hit('mgr-fires-inside-history', len(fires))
        want_fires = spec_fires(spec)
        for i, (got, want) in enumerate(zip(fires, want_fires)):
            if got != want:
                ctx.finding('listeners:stale-at-firing', 'history %s: firing #%d calls %s, the registrations at that moment are %s' % (
                    json.dumps(spec)[:300], i, got, want), {'op': 'mgr', 'spec': spec, 'event': names[0], 'fire_index': i, 'got': got, 'expected': want})
                break
        ctx.case(q, nontrivial=len(spec.get('regs', [])) + len(spec.get('bases', [])) + len(spec.get('ops', [])) > 1)
        ctx.hit('op:mgr')
        ctx.hit('mgr-ops:%s' % ('none' if not spec.get('ops') else 'removals' if any(o[0] in ('del', 'clear') for o in spec['ops']) else 'adds'))
        ctx.hit('mgr-keyerror', sum(keyerr))
        # T3: registration order, once, inherited — against the independent first-occurrence specification
        for ev, got in zip(names, impl):
            want = mgr_handlers(spec, ev)
            if got != want:
                removed = any(o[0] in ('del', 'clear') for o in spec.get('ops', []))
                why = 'twice' if len(got) != len(set(got)) else 'removed-still-fires' if removed and set(got) - set(want) else \
                    'removal' if removed else ('inheritance' if spec.get('bases') else 'order')
                ctx.finding('listeners:' + why, 'listeners registered as %s fire as %s for %r, expected %s' % (
                    json.dumps(spec)[:300], got, ev, want), {'op': 'mgr', 'spec': spec, 'event': ev, 'got': got, 'expected': want})
        ctx.cov['traces_validated_against_impl'] += 1
    # late registrations: on a base after the subclass exists (not inherited), on the subclass (base unaffected)
    Q += late_checks(ctx)
    Q += reentrant_checks(ctx)
    oneshot_pipeline_checks(ctx, keys)

    # ---- T2 (b) + T3: the pipeline
    cases = gen_cases(ctx)
    def process(case, obs, orig=None):
        inj = model_inj(case, obs)
        q = case_query(case, inj)
        impl = {'ok': {'trace': obs['trace'], 'escaped': obs['escaped'] is not None}}
        Q.append((q, impl))
        nontrivial = len(obs['trace']) > 6
        ctx.case({'inp': case['inp'], 'q': q, 'inj': case['inj'], 'user': case['user'], 'shape': case.get('shape')}, nontrivial)
        ctx.hit('op:trace'); ctx.hit('inp:' + case['inp']); ctx.hit('outp:' + case['outp']); ctx.hit('transport:' + case['transport'])
        ctx.hit('stage:%s:%s' % (inj[0], inj[1] if inj[0] != 'none' else '-')); ctx.hit('label:' + case['label'])
        ctx.hit('shape:' + case.get('shape', 'value'))
        if any(n for _, n in obs['out_none']):
            ctx.hit('out_string-left-None:%s' % case['outp'])
        if case['world']['raises']:
            ctx.hit('raiser:%s:%s' % (case['world']['raises'][0][1], case['world']['raises'][0][2]))
        ctx.hit('outcome:' + ('escaped' if obs['escaped'] else automaton(probe_syms(obs['trace'])).get('state')))
        ctx.cov['traces_validated_against_impl'] += 1
        bad_case = oracle(case, obs, inj)
        if bad_case:
            fid, what = bad_case
            ctx.hit('t3-fail:' + fid.split(':')[0])
            ctx.finding(fid, what + ' [%s in, %s out, %s]' % (case['inp'], case['outp'], case['transport']),
                        {'op': 'trace', 'case': orig or case, 'second': orig is not None,
                         'observed': {'trace': obs['trace'], 'escaped': obs['escaped'],
                                      'stages': obs['stages'], 'status': obs.get('status')}})
        # T2 (c): python copies against Lean
        view = probe_syms(obs['trace'])
        Q.append(({'op': 'accepts', 't': view}, {'ok': automaton(view)}))
        co, ro = fire_outcome(case['world'], 'method_call'), fire_outcome(case['world'], 'method_return_object')
        Q.append(({'op': 'truth', 'stage': inj[0], 'kind': inj[1], 'inner': inj[2], 'co': co or '', 'ro': ro or ''},
                  {'ok': truth(inj[0], co, ro)}))
    for case in cases:
        try:
            obs = run_case(case, keys)
        except Exception as e:      # the harness itself failed (not the code under test)
            raise core.Infra('case %r: %s: %s' % (case.get('label'), type(e).__name__, e))
        process(case, obs)
        if 'second' in obs:
            process(dict(case, world=world_after(case['world'], case['then']), label=case['label'] + ':2nd'), obs['second'], orig=case)
    # the automaton copy on mutated traces as well (rejections)
    for case_q, impl in list(Q):
        if case_q['op'] == 'accepts' and ctx.rng.random() < 0.3:
            t = list(case_q['t'])
            if t:
                i = ctx.rng.randrange(len(t))
                m = ctx.rng.randrange(3)
                t = t[:i] + t[i + 1:] if m == 0 else (t[:i] + [t[i]] + t[i:] if m == 1 else t[:i] + [ctx.rng.choice(METHOD_EVENTS + ['user'])] + t[i + 1:])
            Q.append(({'op': 'accepts', 't': t}, {'ok': automaton(t)}))

    # bad facts: the witness on the whole pipeline is a failing input (found by the cases above in general; make sure)
    for k, sub in bad:
        case = fact_witness_case(k, sub)
        obs = run_case(case, keys)
        inj = model_inj(case, obs)
        r = oracle(case, obs, inj)
        if r:
            ctx.finding(r[0], r[1] + ' [fact %s %s]' % (k, sub or ''), {'op': 'trace', 'case': case, 'fact': [k, sub],
                                                                     'observed': {'trace': obs['trace'], 'escaped': obs['escaped']}})
        else:
            ctx.log('T1: fact %s %s differs from the recorded good value but its witness satisfies the property' % (k, sub or ''))

    answers = ctx.model([q for q, _ in Q])
    for (q, impl), mod in zip(Q, answers):
        if 'driver_error' in mod:
            raise core.Infra('driver error: %r on %r' % (mod, q))
        if mod != impl:
            ctx.disagree(q['op'], q, impl, mod)
    ctx.cov['rule'] = ('cases = (in protocol, out protocol, transport, request / injected failure, user function behaviour, world) '
                       'with world = registration histories with duplicates on the application, @rpc, base-class, service, both '
                       'protocol and transport managers plus at most one raising listener; grid: every protocol family x '
                       '{ServerBase sequence, WSGI} x {every raising-listener position x Fault/non-Fault, raising function, '
                       'unknown method, invalid argument, ~12 hostile bodies per family, forced Fault/non-Fault at each of the '
                       'five protocol stages, unserialisable return for the XML family}, then seeded random mixtures; plus '
                       'registration histories over class trees; distinct = distinct canonical query; non-trivial = trace longer '
                       'than 6 observations / history with more than one registration')


def late_checks(ctx):
    """registrations made after a subclass exists: a late listener on the base is not inherited (snapshot at class
    creation, as in the model's `Mgr.inherit`), and a listener of the subclass never fires on the base"""
    from spyne import Service
    calls = []
    mk = lambda h: (lambda c, _h=h: calls.append(_h))
    f1, f2, f3 = mk(1), mk(2), mk(3)
    Base = type(Service)('LBase', (Service,), {})
    Base.event_manager.add_listener('x', f1)
    Sub = type(Service)('LSub', (Base,), {})
    Base.event_manager.add_listener('x', f2)     # late, on the base
    Sub.event_manager.add_listener('x', f3)      # on the subclass
    Sub.event_manager.fire_event('x', None); sub = list(calls); del calls[:]
    Base.event_manager.fire_event('x', None); base = list(calls)
    ctx.cov['traces_validated_against_impl'] += 1
    ctx.case({'op': 'late', 'sub': sub, 'base': base})
    if sub[:1] != [1] or 3 not in sub or sub.count(1) != 1:
        ctx.finding('listeners:inheritance', 'subclass fires %s after the base registered listener 1 before the subclass was created' % sub,
                    {'op': 'late', 'sub': sub, 'base': base})
    if 3 in base:
        ctx.finding('listeners:shared-with-base', 'a listener registered on the subclass fires on the base class: %s' % base,
                    {'op': 'late', 'sub': sub, 'base': base})
    # a subclass that unregisters an inherited listener does not unregister it from the base
    Sub.event_manager.del_listener('x', f1)
    del calls[:]; Sub.event_manager.fire_event('x', None); sub2 = list(calls)
    del calls[:]; Base.event_manager.fire_event('x', None); base2 = list(calls)
    if 1 in sub2 or sub2 != [3]:
        ctx.finding('listeners:removed-still-fires', 'subclass fires %s after unregistering the inherited listener 1' % sub2,
                    {'op': 'late', 'sub': sub2, 'base': base2})
    if base2 != base:
        ctx.finding('listeners:shared-with-base', 'unregistering an inherited listener on the subclass changes the base: %s -> %s' % (base, base2),
                    {'op': 'late', 'sub': sub2, 'base': base2})
    # T2: the model of this history (Sub = inherit [Base at creation] + own; Base = its own registrations)
    return [({'op': 'mgr', 'mgr': {'bases': [{'bases': [], 'regs': [['x', 1]]}], 'regs': [['x', 3]]}, 'query': ['x']}, {'ok': [sub], 'keyerr': [], 'fires': []}),
            ({'op': 'mgr', 'mgr': {'bases': [], 'regs': [['x', 1], ['x', 2]]}, 'query': ['x']}, {'ok': [base], 'keyerr': [], 'fires': []})]


def replay(ctx, obj):
    """re-execute a single recorded case on the implementation and on the model"""
    logging.disable(logging.CRITICAL)
    print('replay of:', obj.get('what'))
    if obj.get('op') == 'trace' and 'case' in obj:
        case = obj['case']
        keys = probe_msgpack_keys() or 'bytes'
        obs = run_case(case, keys)
        if obj.get('second'):
            print('(second request after registering / removing listeners: %s)' % json.dumps(case['then']))
            obs, case = obs['second'], dict(case, world=world_after(case['world'], case['then']))
        inj = model_inj(case, obs)
        print('case     :', {k: case.get(k) for k in ('inp', 'outp', 'transport', 'shape', 'inj', 'user')})
        print('failure  :', inj)
        print('observer :', probe_syms(obs['trace']))
        print('escaped  :', obs['escaped'], ' status:', obs.get('status'))
        print('impl     :', obs['trace'])
        r = oracle(case, obs, inj)
        print('property :', 'VIOLATED: %s: %s' % r if r else 'holds on this case')
        try:
            mod = ctx.model([case_query(case, inj)])[0]
            print('model    :', mod.get('ok', mod).get('trace'), 'escaped=', mod.get('ok', {}).get('escaped'))
        except Exception as e:
            print('model    : not available (%s)' % e)
        return 1 if r else 0
    if obj.get('op') == 'refire':
        prog = {int(h): o for h, o in obj['prog'].items()}
        first, second, exc = real_refire(obj['s'], prog)
        print('impl calls', first, 'then', second, 'exception', exc)
        removed = {k for ops in prog.values() for op, k in ops if op == 'del'}
        return 1 if exc or any(first.count(h) != 1 for h in obj['s'] if h not in removed) else 0
    if obj.get('op') == 'mgr':
        impl, _, _, fires = real_history(obj['spec'], [obj['event']])
        if 'fire_index' in obj:
            print('impl firings', fires, 'expected', spec_fires(obj['spec']))
            return 0 if fires == spec_fires(obj['spec']) else 1
        print('impl fires', impl[0], 'expected', mgr_handlers(obj['spec'], obj['event']))
        return 0 if impl[0] == mgr_handlers(obj['spec'], obj['event']) else 1
    print(json.dumps(obj, indent=1)[:3000])
    return 0
